#!/bin/bash
# Build the whole Coq development from the files on disk (offline): regenerate
# Gen/*.v from /repo, coq_makefile, full .vo build (never -vos).
set -e
cd "$(dirname "$0")"
mkdir -p evidence replay coq/scratch
export PYTHONPATH=/repo PYTHONHASHSEED=0 PYTHONDONTWRITEBYTECODE=1
/venv/bin/python - <<'PY'
import sys
sys.path.insert(0, "harness")
import lib
r = lib.coq_build()
print(r["log"][-3000:])
if r["translator_errors"]:
    print("translator errors:", r["translator_errors"])
forb = lib.scan_forbidden()
if forb:
    print("FORBIDDEN vernacular:", forb)
sys.exit(0 if r["ok"] and not forb else 1)
PY
