"""C42, oracle-only family `handed`: the scheduler HANDED to an action is not the wrapped scheduler.

The virtual-time schedulers of the other C42 families hand every action the scheduler itself, so
"the recursive wrapper wraps what the wrapped scheduler handed to the action" and "the recursive
wrapper wraps the CatchScheduler's own wrapped scheduler" cannot be told apart there.  Here the wrapped
scheduler is

 (1) a recording STUB (`RecStub`, an abc.SchedulerBase + abc.PeriodicSchedulerBase subclass written
     here, deterministic virtual clock) that hands each invoked action a scheduler object chosen by
     a POLICY: a fresh child stub per invocation, one shared child per stub, the stub itself, or a
     rotation of the three (this walks the _get_recursive_wrapper cache through hit / miss / hit).
     Every stub has its own clock skew, so `now` tells the stubs apart as well.  Actions schedule
     further work -- schedule / schedule_relative (float, timedelta) / schedule_absolute (datetime,
     float) / schedule_periodic -- one and two levels deep through the scheduler they are handed,
     raise, and dispose the disposables they got back.
     Oracle, from the property text:
       (a) each schedule call made through the handed scheduler arrives, during that call, exactly
           once and at exactly the stub object handed to the running action, with the due time the
           action asked for (absolute times are built from the handed scheduler's own `now`) and the
           very state object; the whole event log of a program that never raises equals the log of
           the same program on the bare stub (differential), and for a program that does raise the
           part of the log made by the actions themselves (calls, invocations, runs, ticks, `now`
           readings) does;
       (b) every raise -- at any depth, one-shot or periodic -- is followed at once by the handler
           call with that very exception; verdict True: it does not leave the action; False/None/0:
           it does; the handler is called at no other time; periodic work ticks no more after a raise;
       (c) `now` of the scheduler handed to an action is the `now` of the stub it stands for (so it
           wraps the child, the grandchild, ...), and what is scheduled through it is again routed
           (this is (a)+(b) one level further down).  Whether the handed object is a CatchScheduler
           instance is counted (coverage), not demanded.
 (2) the real NewThreadScheduler and ThreadPoolScheduler (which hand the per-unit
     EventLoopScheduler), under a watchdog: on the bare scheduler a nested action (one-shot or
     periodic, one and two levels deep) runs on the thread of its parent and only after the parent
     returned; whatever of this holds on the bare scheduler must hold through the CatchScheduler, the
     state object must arrive, and a nested raise must reach the handler exactly once.

Nothing here consults the Coq model.  Anything that escapes from the library into this driver
(exception, recursion error, hang) becomes a violation record."""
from __future__ import annotations

import json
import threading
import time
from datetime import datetime, timedelta, timezone

import lib

lib.import_repo()
from reactivex import abc as rxabc  # noqa: E402

UNIX0 = datetime(1970, 1, 1, tzinfo=timezone.utc)
EPOCH = datetime(2001, 1, 1, tzinfo=timezone.utc)
US = 1_000_000
SKEW = 1000            # microseconds of clock skew per stub number
MAX_TICKS = 4
MAX_ITEMS = 400
FALSY = (False, None, 0)
HOWS = ("now", "rel", "relf", "abs", "absf")
POLICIES = (["fresh"], ["shared"], ["self"], ["fresh", "shared", "self", "shared", "fresh", "fresh"])


class Boom(Exception):
    def __init__(self, code):
        super().__init__(f"boom {code}")
        self.code = code


class StateObj:
    def __init__(self, k):
        self.k = k

    def __repr__(self):
        return f"<state {self.k}>"


class RecDisposable(rxabc.DisposableBase):
    """own disposable (the stub must not depend on more of the library than the abstract classes)"""

    def __init__(self, fn):
        self.fn = fn
        self.done = False

    def dispose(self):
        if not self.done:
            self.done = True
            self.fn()


def _us(td):
    if isinstance(td, timedelta):
        return td.days * 86400 * US + td.seconds * US + td.microseconds
    return int(round(float(td) * US))


# --------------------------------------------------------------------------------------------
# (1) the recording stub
# --------------------------------------------------------------------------------------------

class World:
    def __init__(self, policy):
        self.log = []
        self.clock = 0            # microseconds
        self.items = []
        self.seq = 0
        self.nstub = 0
        self.ninvoke = 0
        self.policy = list(policy)
        self.cur = None           # the stub handed to the action being invoked
        self.root = RecStub(self, ())

    def hand(self, stub):
        p = self.policy[self.ninvoke % len(self.policy)]
        self.ninvoke += 1
        if p == "self":
            return stub
        if p == "shared":
            if stub.shared is None:
                stub.shared = RecStub(self, stub.path + ("s",))
            return stub.shared
        stub.nchild += 1
        return RecStub(self, stub.path + (stub.nchild,))

    def run(self, slabel, elabel):
        n = 0
        while n < MAX_ITEMS:
            live = [it for it in self.items if not it["cancelled"]]
            if not live:
                break
            it = min(live, key=lambda x: (x["due"], x["seq"]))
            n += 1
            self.clock = max(self.clock, it["due"])
            if it["kind"] == "per":
                it["ticks"] += 1
                self.cur = None
                try:
                    it["state"] = it["action"](it["state"])
                except Exception as e:  # noqa: BLE001  the unit of work dies, the others go on
                    self.log.append(("escape", elabel(e)))
                    it["cancelled"] = True
                if it["ticks"] >= MAX_TICKS:
                    it["cancelled"] = True
                it["due"] = self.clock + it["period"]
                self.seq += 1
                it["seq"] = self.seq
            else:
                it["cancelled"] = True
                child = self.hand(it["stub"])
                self.log.append(("invoke", it["id"], list(child.path)))
                self.cur = child
                try:
                    it["action"](child, it["state"])
                except Exception as e:  # noqa: BLE001
                    self.log.append(("escape", elabel(e)))
                finally:
                    self.cur = None
        return n


class RecStub(rxabc.PeriodicSchedulerBase, rxabc.SchedulerBase):
    """records every call; hands its actions the scheduler World.hand() chooses"""

    def __init__(self, world, path):
        self.w = world
        self.path = tuple(path)
        self.skew = world.nstub * SKEW
        world.nstub += 1
        self.nchild = 0
        self.shared = None

    @property
    def now(self):
        return EPOCH + timedelta(microseconds=self.w.clock + self.skew)

    def _enq(self, kind, due, action, state, period=0):
        w = self.w
        w.seq += 1
        it = {"id": len(w.items), "stub": self, "kind": kind, "due": due, "seq": w.seq, "action": action,
              "state": state, "cancelled": False, "period": period, "ticks": 0}
        w.items.append(it)
        w.log.append(("call", list(self.path), "per" if kind == "per" else "one",
                      period if kind == "per" else due, w.slabel(state)))

        def dispose():
            w.log.append(("dispose", it["id"]))
            it["cancelled"] = True
        return RecDisposable(dispose)

    def schedule(self, action, state=None):
        return self._enq("one", self.w.clock, action, state)

    def schedule_relative(self, duetime, action, state=None):
        return self._enq("one", self.w.clock + max(0, _us(duetime)), action, state)

    def schedule_absolute(self, duetime, action, state=None):
        dt = self.to_datetime(duetime)
        return self._enq("one", _us(dt - EPOCH) - self.skew, action, state)

    def schedule_periodic(self, period, action, state=None):
        p = max(0, _us(period))
        return self._enq("per", self.w.clock + p, action, state, period=p)

    @classmethod
    def to_seconds(cls, value):
        if isinstance(value, datetime):
            value = value - UNIX0
        if isinstance(value, timedelta):
            value = value.total_seconds()
        return value

    @classmethod
    def to_datetime(cls, value):
        if isinstance(value, timedelta):
            return UNIX0 + value
        if not isinstance(value, datetime):
            return UNIX0 + timedelta(microseconds=int(round(float(value) * US)))
        return value

    @classmethod
    def to_timedelta(cls, value):
        if isinstance(value, datetime):
            return value - UNIX0
        if not isinstance(value, timedelta):
            return timedelta(seconds=value)
        return value


class StubRun:
    """interprets one program on the stub, bare or through CatchScheduler(root, handler)"""

    def __init__(self, prog, catch):
        self.prog = prog
        self.catch = catch
        self.w = World(prog["policy"])
        self.w.slabel = self.slabel
        self.log = self.w.log
        self.states = [StateObj(k) for k in range(8)]
        self.raised = []
        self.bad = []
        self.facts = {"handed": 0, "handed_is_catch": 0, "handed_distinct_from_wrapped": 0, "nested_calls": 0,
                      "nested_calls_depth2": 0, "nested_periodic": 0, "handler_calls": 0, "nested_raise": 0,
                      "cache_hit_same_handed_again": 0}
        self.seen_handed = []

    # labels -----------------------------------------------------------------------------
    def slabel(self, s):
        if s is None:
            return "none"
        if isinstance(s, StateObj):
            return f"s{s.k}" if s.k < len(self.states) and self.states[s.k] is s else f"alien-{s.k}"
        if isinstance(s, int) and not isinstance(s, bool):
            return f"i{s}"
        return "?" + type(s).__name__

    def elabel(self, e):
        for i, x in enumerate(self.raised):
            if x is e:
                return f"e{i}/code{x.code}"
        return "foreign:" + repr(e)[:120]

    def handler(self, ex):
        v = self.prog["verdicts"].get(str(getattr(ex, "code", "?")), False) if isinstance(ex, Boom) else False
        self.log.append(("handler", self.elabel(ex), repr(v)))
        self.facts["handler_calls"] += 1
        return v

    # program ----------------------------------------------------------------------------
    def go(self):
        from reactivex.scheduler import CatchScheduler
        self.Catch = CatchScheduler
        top = CatchScheduler(self.w.root, self.handler) if self.catch else self.w.root
        self.exec_body(self.prog["top"], top, "top", 0)
        self.w.run(self.slabel, self.elabel)
        return self

    def expect_stub(self):
        return self.w.cur if self.w.cur is not None else self.w.root

    def exec_body(self, body, sched, ctx, depth):
        w = self.w
        handles = []
        for cmd in body:
            op = cmd[0]
            if op == "raise":
                e = Boom(cmd[1])
                self.raised.append(e)
                self.log.append(("raise", ctx, self.elabel(e)))
                if depth >= 2:
                    self.facts["nested_raise"] += 1
                raise e
            if op == "cancel":
                if cmd[1] < len(handles) and handles[cmd[1]] is not None:
                    try:
                        handles[cmd[1]].dispose()
                    except Exception as e:  # noqa: BLE001
                        self.bad.append(("dispose-of-returned-disposable-raised", f"in {ctx}: {e!r}"))
                continue
            exp = self.expect_stub()
            before = len(self.log)
            try:
                if op == "per":
                    _, period, spec, pid = cmd
                    holder = []
                    d = sched.schedule_periodic(timedelta(microseconds=period) if pid % 2 else period / US,
                                                self.mk_tick(spec, pid, holder), 0)
                    holder.append(d)
                    want = ("call", list(exp.path), "per", period, "i0")
                else:
                    _, how, arg, sk, sub, aid = cmd
                    st = self.states[sk]
                    act = self.mk_action(sub, aid, depth + 1)
                    if how == "now":
                        d = sched.schedule(act, st)
                        due = w.clock
                    elif how == "rel":
                        d = sched.schedule_relative(timedelta(microseconds=arg), act, st)
                        due = w.clock + arg
                    elif how == "relf":
                        d = sched.schedule_relative(arg / US, act, st)
                        due = w.clock + arg
                    elif how == "abs":
                        d = sched.schedule_absolute(sched.now + timedelta(microseconds=arg), act, st)
                        due = w.clock + arg
                    else:
                        t = sched.now + timedelta(microseconds=arg)
                        d = sched.schedule_absolute(_us(t - UNIX0) / US, act, st)
                        due = w.clock + arg
                    want = ("call", list(exp.path), "one", due, f"s{sk}")
            except Boom:
                raise
            except Exception as e:  # noqa: BLE001
                self.bad.append(("schedule-call-through-the-handed-scheduler-raised", f"in {ctx}: {cmd[:3]} -> {e!r}"))
                handles.append(None)
                continue
            handles.append(d)
            if depth >= 1:
                self.facts["nested_calls"] += 1
                self.facts["nested_calls_depth2"] += depth >= 2
                self.facts["nested_periodic"] += op == "per"
            got = [e for e in self.log[before:] if e[0] == "call"]
            where = "top-level" if depth == 0 else "nested"
            if not got:
                self.bad.append((f"{where}-schedule-call-reached-no-scheduler", f"in {ctx}: {cmd[:3]} expected {want}"))
            elif len(got) > 1:
                self.bad.append((f"{where}-schedule-call-arrived-more-than-once", f"in {ctx}: {cmd[:3]} -> {got}"))
            elif got[0][1] != want[1]:
                self.bad.append((f"{where}-schedule-call-arrived-at-another-scheduler-than-the-one-handed-to-the-action",
                                 f"in {ctx}: {cmd[:3]} arrived at stub {got[0][1]}, the action was handed {want[1]}"))
            elif got[0] != want:
                self.bad.append((f"{where}-schedule-call-arrived-with-another-kind-due-time-or-state",
                                 f"in {ctx}: {cmd[:3]} arrived as {got[0]}, expected {want}"))
            if not hasattr(d, "dispose"):
                self.bad.append(("schedule-call-returned-no-disposable", f"in {ctx}: {cmd[:3]} -> {d!r}"))

    def mk_action(self, body, aid, depth):
        def action(sched, state):
            w = self.w
            self.log.append(("run", aid, self.slabel(state)))
            exp = w.cur
            self.facts["handed"] += 1
            if exp is not None:
                self.facts["handed_distinct_from_wrapped"] += exp is not w.root
                if self.catch:
                    self.facts["handed_is_catch"] += isinstance(sched, self.Catch)
                    self.facts["cache_hit_same_handed_again"] += any(x is exp for x in self.seen_handed)
                    self.seen_handed.append(exp)
                try:
                    n = sched.now
                    off = _us(n - EPOCH) - w.clock
                except Exception as e:  # noqa: BLE001
                    off = "raised:" + repr(e)[:80]
                self.log.append(("nowread", aid, off))
                if off != exp.skew:
                    self.bad.append(("now-of-the-handed-scheduler-is-not-the-now-of-the-scheduler-it-stands-for",
                                     f"action {aid}: handed scheduler's now is clock+{off}us, the stub handed by the "
                                     f"wrapped scheduler ({list(exp.path)}) has clock+{exp.skew}us"))
            self.exec_body(body, sched, f"a{aid}", depth)
        return action

    def mk_tick(self, spec, pid, holder):
        count = [0]

        def tick(state):
            self.log.append(("tick", pid, self.slabel(state), self.w.clock))
            i = count[0]
            count[0] += 1
            if spec.get("raise_at") == i:
                e = Boom(spec["code"])
                self.raised.append(e)
                self.log.append(("raise", f"p{pid}", self.elabel(e)))
                raise e
            if spec.get("stop_at") == i and holder:
                holder[0].dispose()
            return (state if isinstance(state, int) else 0) + 1
        return tick


def oracle_routing(log, catch):
    """(b) on the log of one run"""
    bad = []
    nh = 0
    for i, e in enumerate(log):
        if e[0] == "raise":
            lab = e[2]
            esc = any(x[0] == "escape" and x[1] == lab for x in log[i + 1:])
            if catch:
                nxt = log[i + 1] if i + 1 < len(log) else None
                if not (nxt and nxt[0] == "handler" and nxt[1] == lab):
                    bad.append(("raise-not-followed-by-the-handler-call-with-that-exception",
                                f"{e} followed by {nxt}"))
                    continue
                if nxt[2] == "True" and esc:
                    bad.append(("exception-accepted-by-the-handler-left-the-action", f"{e}"))
                if nxt[2] != "True" and not esc:
                    bad.append(("exception-rejected-by-the-handler-was-swallowed", f"{e} verdict {nxt[2]}"))
            elif not esc:
                bad.append(("harness: bare stub lost an exception", f"{e}"))
            if e[1].startswith("p"):
                pid = int(e[1][1:])
                if any(x[0] == "tick" and x[1] == pid for x in log[i + 1:]):
                    bad.append(("periodic-action-called-again-after-it-raised", f"{e}"))
        elif e[0] == "handler":
            nh += 1
            prev = log[i - 1] if i else None
            if not (prev and prev[0] == "raise" and prev[2] == e[1]):
                bad.append(("handler-called-without-a-raise-of-that-exception-just-before", f"{e} after {prev}"))
        elif e[0] == "escape" and e[1].startswith("foreign"):
            bad.append(("foreign-exception-left-an-action", f"{e}"))
    if not catch and nh:
        bad.append(("harness: handler called in the bare run", ""))
    return bad


OWN = ("call", "invoke", "run", "tick", "nowread")


def prog_raises(prog):
    def b(body):
        for c in body:
            if c[0] == "raise":
                return True
            if c[0] == "per" and c[2].get("raise_at") is not None:
                return True
            if c[0] == "sched" and b(c[4]):
                return True
        return False
    return b(prog["top"])


def prog_size(prog):
    def b(body):
        return sum(1 + (b(c[4]) if c[0] == "sched" else 0) for c in body)
    return b(prog["top"])


def judge_stub(prog, timeout=10.0):
    """-> (list of (signature, detail), facts, catch log)"""
    def both():
        return StubRun(prog, False).go(), StubRun(prog, True).go()
    try:
        st, res = lib.with_timeout(timeout, both)
    except Exception as e:  # noqa: BLE001  (RecursionError included)
        return [("exception-escaped-from-the-library-into-the-driver", repr(e)[:300])], {}, []
    if st != "ok":
        return [("hang", f"no return within {timeout} s")], {}, []
    bare, cat = res
    bad = []
    hb = [x for x in bare.bad] + oracle_routing(bare.log, False)
    if hb:
        # the bare stub run is not clean (never on the tree this was written for): there is no reference to
        # compare with; counted, nothing is demanded
        return [], {"bare_stub_run_not_clean (no reference, skipped)": 1}, []
    bad += cat.bad
    bad += oracle_routing(cat.log, True)
    if not prog_raises(prog):
        if cat.log != bare.log:
            k = next((i for i, (x, y) in enumerate(zip(cat.log, bare.log)) if x != y), min(len(cat.log), len(bare.log)))
            bad.append(("non-raising-program-differs-from-the-wrapped-scheduler",
                        f"first difference at event {k}: with CatchScheduler {cat.log[k:k + 3]} ... bare "
                        f"{bare.log[k:k + 3]}"))
    else:
        a = [x for x in cat.log if x[0] in OWN]
        b = [x for x in bare.log if x[0] in OWN]
        if a != b:
            k = next((i for i, (x, y) in enumerate(zip(a, b)) if x != y), min(len(a), len(b)))
            bad.append(("what-the-actions-themselves-did-differs-from-the-wrapped-scheduler",
                        f"first difference at own event {k}: with CatchScheduler {a[k:k + 3]} ... bare {b[k:k + 3]}"))
    return bad, cat.facts, cat.log


# generators ---------------------------------------------------------------------------------

def _verdicts(i):
    return {"0": True if i % 2 == 0 else FALSY[(i // 2) % 3], "1": FALSY[i % 3] if i % 4 < 2 else True}


def exhaustive_progs(tier):
    """top-level action (now / rel / abs) -> nested (each of the six ways) -> second level (none or one of
    five ways), raising nowhere / at level 1 after scheduling / at level 2, under each policy"""
    out = []
    n = 0
    for pol in POLICIES[:2]:
        for h0 in ("now", "rel", "abs"):
            for h1 in HOWS + ("per",):
                n += 1
                b1 = [["per", 3 * US, {"raise_at": None, "code": 0, "stop_at": 1}, 6]] if h1 == "per" else \
                    [["sched", h1, 2 * US, 2, [], 1]]
                out.append({"policy": pol, "verdicts": _verdicts(n), "top": [["sched", h0, 1 * US, 1, b1, 0]]})
    lvl2 = (None, "now", "relf", "absf", "per", "rel") if tier == "thorough" else (None, "now", "relf", "absf", "per")
    for pol in POLICIES:
        for h0 in ("now", "rel", "abs"):
            for h1 in HOWS + ("per",):
                for h2 in lvl2:
                    for rz in ("none", "l1", "l2"):
                        if h1 == "per" and (h2 is not None or rz == "l2"):
                            continue
                        if rz == "l2" and h2 is None:
                            continue
                        n += 1
                        if h2 is None:
                            b2 = []
                        elif h2 == "per":
                            b2 = [["per", 2 * US, {"raise_at": 1 if rz == "l2" else None, "code": n % 2}, 7]]
                        else:
                            b2 = [["sched", h2, 1 * US, 3, [["raise", n % 2]] if rz == "l2" else [], 2]]
                        if h1 == "per":
                            b1 = [["per", 3 * US, {"raise_at": 2 if rz == "l1" else None, "code": n % 2,
                                                   "stop_at": 2 if rz == "none" else None}, 6 + n % 2]]
                        else:
                            b1 = [["sched", h1, 2 * US, 2, b2 + ([["raise", n % 2]] if rz == "l1" else []), 1]]
                        # a second top-level action makes the wrapped scheduler hand out a second scheduler
                        top = [["sched", h0, 1 * US, 1, b1, 0],
                               ["sched", "now", 0, 4, [["sched", "relf", 5 * US, 5, [], 4]], 3]]
                        out.append({"policy": pol, "verdicts": _verdicts(n), "top": top})
    return out


def random_prog(rng):
    ids = [0]
    pids = [0]

    def body(depth):
        out = []
        for _ in range(rng.choice([0, 1, 1, 2, 2, 3]) if depth else rng.randrange(1, 4)):
            r = rng.random()
            if depth and r < 0.12:
                out.append(["raise", rng.randrange(2)])
                break
            if r < 0.25:
                pids[0] += 1
                spec = {"raise_at": rng.choice([None, None, 0, 1, 2]), "code": rng.randrange(2),
                        "stop_at": rng.choice([None, None, 0, 1, 2])}
                out.append(["per", rng.randrange(1, 4) * US, spec, pids[0]])
            elif r < 0.33 and out:
                out.append(["cancel", rng.randrange(len(out))])
            else:
                ids[0] += 1
                aid = ids[0]
                out.append(["sched", rng.choice(HOWS), rng.randrange(0, 4) * US, rng.randrange(8),
                            body(depth + 1) if depth < 3 else [], aid])
        return out
    pol = [rng.choice(["fresh", "fresh", "shared", "self"]) for _ in range(rng.randrange(1, 5))]
    return {"policy": pol, "verdicts": {"0": rng.choice([True, True, False, None, 0]),
                                        "1": rng.choice([True, True, False, None, 0])}, "top": body(0)}


# --------------------------------------------------------------------------------------------
# (2) the real thread schedulers
# --------------------------------------------------------------------------------------------

LINGER = 0.04
DELAY = 0.01
T_HOWS = ("now", "rel", "reltd", "abs", "per")


def thread_scenarios():
    out = []
    for s in ("newthread", "threadpool"):
        for o in ("now", "rel", "abs"):
            for i in T_HOWS:
                for i2 in ((None,) if i == "per" else (None, "now", "rel", "abs", "per")):
                    for rz in ("none", "inner", "inner2"):
                        if rz == "inner2" and i2 is None:
                            continue
                        out.append({"sched": s, "outer": o, "inner": i, "inner2": i2, "raises": rz})
    return out


def run_threads(scn, catch, raises):
    """one scenario on the real scheduler -> observations (all waits bounded)"""
    from reactivex.scheduler import CatchScheduler, NewThreadScheduler, ThreadPoolScheduler
    base = NewThreadScheduler() if scn["sched"] == "newthread" else ThreadPoolScheduler(4)
    handled = []
    got = threading.Event()

    def handler(ex):
        handled.append(ex)
        got.set()
        return True
    top = CatchScheduler(base, handler) if catch else base
    obs = {"errors": []}
    ev = {k: threading.Event() for k in ("outer_ran", "outer_done", "inner_ran", "inner_done", "inner2_ran")}
    st = {k: StateObj(k) for k in ("outer", "inner", "inner2")}
    disps = []
    booms = {}

    def via(sched, how, name, action):
        if how == "now":
            return sched.schedule(action, st[name])
        if how == "rel":
            return sched.schedule_relative(DELAY, action, st[name])
        if how == "reltd":
            return sched.schedule_relative(timedelta(seconds=DELAY), action, st[name])
        if how == "abs":
            return sched.schedule_absolute(sched.now + timedelta(seconds=DELAY), action, st[name])
        n = [0]
        holder = []

        def tick(state):
            n[0] += 1
            if n[0] == 1:
                action(None, state)
            if n[0] >= 2 and holder:
                holder[0].dispose()
            return state
        d = sched.schedule_periodic(DELAY, tick, st[name])
        holder.append(d)
        return d

    def mk(name, parent_done, child, child_how, done):
        def action(sched, state):
            obs[name + "_thread"] = threading.current_thread()
            obs[name + "_state_ok"] = state is st[name]
            if parent_done is not None:
                obs[name + "_saw_parent_returned"] = ev[parent_done].is_set()
            ev[name + "_ran"].set()
            try:
                if child is not None and sched is not None:
                    disps.append(via(sched, child_how, child, acts[child]))
                    # on an event loop the nested item cannot start before this action returns
                    obs[child + "_ran_while_parent_running"] = ev[child + "_ran"].wait(LINGER)
            except Exception as e:  # noqa: BLE001
                obs["errors"].append(f"{name}: scheduling {child} through the handed scheduler raised {e!r}")
            if done is not None:
                ev[done].set()
            if raises == name:
                booms[name] = Boom(name)
                raise booms[name]
        return action
    acts = {}
    acts["inner2"] = mk("inner2", "inner_done", None, None, None)
    acts["inner"] = mk("inner", "outer_done", "inner2" if scn["inner2"] else None, scn["inner2"], "inner_done")
    acts["outer"] = mk("outer", None, "inner", scn["inner"], "outer_done")
    try:
        disps.append(via(top, scn["outer"], "outer", acts["outer"]))
        obs["outer_completed"] = ev["outer_done"].wait(5)
        obs["inner_ran"] = ev["inner_ran"].wait(5)
        if scn["inner2"]:
            obs["inner_completed"] = ev["inner_done"].wait(5)
            obs["inner2_ran"] = ev["inner2_ran"].wait(5)
        if raises != "none":
            obs["handler_called"] = got.wait(5)
            time.sleep(0.005)
            obs["handled_n"] = len(handled)
            obs["handled_is_the_exception"] = len(handled) == 1 and handled[0] is booms.get(raises)
    finally:
        for d in disps:
            try:
                d.dispose()
            except Exception:  # noqa: BLE001
                pass
        if scn["sched"] == "threadpool":
            base.executor.shutdown(wait=False, cancel_futures=True)
    facts = {"outer_completed": obs.get("outer_completed"), "inner_ran": obs.get("inner_ran"),
             "outer_state_ok": obs.get("outer_state_ok"), "inner_state_ok": obs.get("inner_state_ok"),
             "inner_on_the_thread_of_outer": obs.get("inner_thread") is obs.get("outer_thread")
             and obs.get("outer_thread") is not None,
             "inner_not_started_while_outer_running": obs.get("inner_ran_while_parent_running") is False,
             "inner_started_after_outer_returned": obs.get("inner_saw_parent_returned") is True}
    if scn["inner2"]:
        facts.update({"inner2_ran": obs.get("inner2_ran"), "inner2_state_ok": obs.get("inner2_state_ok"),
                      "inner2_on_the_thread_of_inner": obs.get("inner2_thread") is obs.get("inner_thread")
                      and obs.get("inner_thread") is not None,
                      "inner2_not_started_while_inner_running": obs.get("inner2_ran_while_parent_running") is False,
                      "inner2_started_after_inner_returned": obs.get("inner2_saw_parent_returned") is True})
    if raises != "none":
        facts["handler_called_once_with_the_exception"] = bool(obs.get("handler_called")) and \
            obs.get("handled_n") == 1 and obs.get("handled_is_the_exception")
    return facts, obs["errors"]


_BARE = {}


def judge_threads(scn, timeout=30.0, fresh=False):
    """-> list of (signature, detail).  Reference: the same nesting on the bare scheduler (never raising: a raise on
    the bare scheduler just kills its thread); only what holds there is demanded through the CatchScheduler."""
    key = json.dumps([scn["sched"], scn["outer"], scn["inner"], scn["inner2"]])
    old_hook = threading.excepthook

    def hook(a):   # a Boom that a changed library lets die in a scheduler thread: judged below, no traceback noise
        if not isinstance(a.exc_value, Boom):
            old_hook(a)
    threading.excepthook = hook
    try:
        return _judge_threads(scn, key, timeout, fresh)
    finally:
        threading.excepthook = old_hook


def _judge_threads(scn, key, timeout, fresh):
    try:
        if fresh or key not in _BARE:
            st, r = lib.with_timeout(timeout, run_threads, scn, False, "none")
            if st != "ok":
                return []          # the bare scheduler hangs: nothing to compare with (not C42's business)
            _BARE[key] = r
        ref, ref_err = _BARE[key]
        st, r = lib.with_timeout(timeout, run_threads, scn, True, scn["raises"])
    except Exception as e:  # noqa: BLE001
        return [("exception-escaped-from-the-library-into-the-driver", repr(e)[:300])]
    if st != "ok":
        return [("hang", f"no return within {timeout} s on {scn['sched']}")]
    facts, errs = r
    bad = []
    if errs and not ref_err:
        bad.append(("schedule-call-through-the-handed-scheduler-raised", "; ".join(errs)[:300]))
    for k, v in facts.items():
        if k == "handler_called_once_with_the_exception":
            if not v:
                bad.append((f"nested-raise-on-{scn['sched']}-did-not-reach-the-handler-exactly-once", f"{facts}"))
        elif ref.get(k) and not v:
            bad.append((f"real-thread-scheduler: {k} holds on the bare scheduler but not through the CatchScheduler",
                        f"{scn['sched']}: bare {ref} / with CatchScheduler {facts}"))
    return bad


# --------------------------------------------------------------------------------------------
# family entry points
# --------------------------------------------------------------------------------------------

EXPECTED = ("a schedule call made through the scheduler handed to an action arrives once, at exactly the scheduler "
            "the wrapped scheduler handed to that action, with the same due time and state as without the "
            "CatchScheduler; nested raises reach the handler (True swallows, False/None/0 propagate); on the real "
            "NewThreadScheduler/ThreadPoolScheduler a nested action runs on the thread of its parent and only after "
            "the parent returned, as on the bare scheduler")


def run_family(chk):
    """-> (failures [(size, signature, replay dict)], histogram)"""
    t0 = time.time()
    rng = chk.rng
    tier = chk.tier if not chk.broken else "thorough"
    progs = [(p, "exhaustive") for p in exhaustive_progs(tier)]
    for _ in range(1500 if tier == "quick" else 15000):
        progs.append((random_prog(rng), "random"))
    hist = {"stub_programs": {"exhaustive": 0, "random": 0}, "stub_programs_that_raise": 0,
            "stub_programs_differential_exact": 0, "facts": {}, "thread_scenarios": {"newthread": 0, "threadpool": 0},
            "thread_scenarios_with_nested_raise": 0, "thread_scenarios_two_levels": 0}
    fails = []
    nontrivial = set()
    for prog, origin in progs:
        bad, facts, _ = judge_stub(prog)
        chk.cov["evaluations"] += 2
        hist["stub_programs"][origin] += 1
        r = prog_raises(prog)
        hist["stub_programs_that_raise"] += r
        hist["stub_programs_differential_exact"] += not r
        for k, v in facts.items():
            hist["facts"][k] = hist["facts"].get(k, 0) + int(v)
        if facts.get("handed_distinct_from_wrapped") and facts.get("nested_calls"):
            nontrivial.add(json.dumps(prog))
        for sig, detail in bad:
            # report order: the identity of the receiving scheduler first, then the real-thread facts, then the rest
            rank = 0 if "arrived-at-another-scheduler" in sig else 2 * 10 ** 6
            fails.append((rank + prog_size(prog) * 100 + len(json.dumps(prog)), f"handed-stub|{sig}",
                          {"family": "handed-stub", "program": prog, "what_failed": detail, "expected": EXPECTED}))
    scns = thread_scenarios()
    if tier == "quick":
        # every (scheduler, inner way, second-level way) once, outer way and raise position rotating, plus a few drawn
        seen, pick = set(), []
        rot = sorted(scns, key=lambda s: json.dumps(s))
        rng.shuffle(rot)
        for s in rot:
            k = (s["sched"], s["inner"], s["inner2"])
            if k not in seen:
                seen.add(k)
                pick.append(s)
        want_r = {"none", "inner", "inner2"} - {s["raises"] for s in pick}
        pick += [next(s for s in rot if s["raises"] == r) for r in sorted(want_r)]
        scns = pick
    for s in scns:
        bad = judge_threads(s)
        chk.cov["evaluations"] += 2
        hist["thread_scenarios"][s["sched"]] += 1
        hist["thread_scenarios_with_nested_raise"] += s["raises"] != "none"
        hist["thread_scenarios_two_levels"] += s["inner2"] is not None
        nontrivial.add(json.dumps(s))
        for sig, detail in bad:
            fails.append((10 ** 6 + len(json.dumps(s)), f"handed-threads|{sig}",
                          {"family": "handed-threads", "scenario": s, "what_failed": detail, "expected": EXPECTED}))
    hist["wall_s"] = round(time.time() - t0, 2)
    return fails, hist, nontrivial


def replay(d):
    """re-run one replay dict of this family; -> list of (signature, detail)"""
    if d["family"] == "handed-stub":
        bad, facts, log = judge_stub(d["program"])
        print("program", json.dumps(d["program"]))
        print("log (with CatchScheduler)", log[:60])
        return bad
    bad = judge_threads(d["scenario"], fresh=True)
    print("scenario", json.dumps(d["scenario"]))
    return bad
