"""Differential machinery shared by props/C04.py and props/C44.py (independent of the translator).

A *recipe* names one public function of reactivex.operators (or a creation function of reactivex)
with concrete, deterministic arguments.  Everything runs on a fresh `Env` (= one TestScheduler world:
cold sources with fixed timelines, argument observables, callbacks).  Two drivers:

  run_c04(recipe, plan)   build the observable ONCE in a fresh world, subscribe it several times
                          (sequentially: the next subscription starts after the previous one was
                          disposed; overlapping: the second starts d ticks after the first while
                          it is still running), return the notifications of every subscription
                          with times RELATIVE to its own subscription instant.
  run_c44(recipe, shared, plan)
                          build ONE operator value (shared) or one per application (fresh), apply to
                          two different sources, subscribe (and connect) both applications at
                          interleaved virtual times, return per-subscription notifications with
                          absolute times, the subscription intervals of both sources and all
                          argument observables.

Callbacks are pure functions of their arguments, except the ones marked `stateful` (while_do /
do_while conditions): those count their own calls and are reset by the driver at every new
subscription in the sequential plan (a "deterministic callback" restarts with the subscription);
stateful recipes are not run in overlapping plans nor in C44.
"""
import lib  # noqa: F401  (sys.path side effect of the harness)

ERR = "boom"


class Tick:
    """a resettable call counter for stateful conditions"""

    def __init__(self):
        self.n = 0

    def __call__(self, *_):
        self.n += 1
        return self.n

    def reset(self):
        self.n = 0


class Env:
    def __init__(self):
        from reactivex.testing import ReactiveTest, TestScheduler
        self.s = TestScheduler()
        self.R = ReactiveTest
        self.ticks = []
        self.colds = []
        self._err = Exception(ERR)
        N, C, E = self.N, self.C, self.E
        # two different numeric timelines (source A / source B), argument observables
        # (a third timeline per kind: source C of the three-source plans of C44)
        self.lines = {
            "num": ([N(10, 1), N(20, 2), N(30, 3), N(40, 4), N(50, 5), C(60)],
                    [N(5, 10), N(25, 20), N(26, 30), N(70, 40), C(90)],
                    [N(12, 6), N(13, 7), N(31, 8), N(55, 6), N(56, 9), N(80, 2), C(85)]),
            "err": ([N(10, 1), N(20, 2), E(35)], [N(5, 10), N(25, 20), E(45)], [N(7, 6), E(18)]),
            "empty": ([C(20)], [C(35)], [C(8)]),
            "single": ([N(10, 1), C(20)], [N(15, 9), C(30)], [N(2, 5), C(44)]),
            "dup": ([N(10, 1), N(20, 1), N(30, 2), N(40, 2), N(50, 1), C(60)],
                    [N(5, 3), N(25, 3), N(26, 4), N(70, 3), C(90)],
                    [N(12, 2), N(13, 2), N(31, 1), N(55, 1), N(56, 2), C(85)]),
            "dict": ([N(10, {"a": 1}), N(20, {"a": 2}), C(30)], [N(5, {"a": 7}), N(40, {"a": 8}), C(50)],
                     [N(12, {"a": 4}), C(20)]),
            "tup": ([N(10, (1, 2)), N(20, (3, 4)), C(30)], [N(5, (5, 6)), N(40, (7, 8)), C(50)],
                    [N(12, (9, 1)), N(13, (2, 2)), C(41)]),
        }

    # notifications
    def N(self, t, v):
        return self.R.on_next(t, v)

    def C(self, t):
        return self.R.on_completed(t)

    def E(self, t):
        return self.R.on_error(t, self._err)

    def cold(self, msgs, label):
        c = self.s.create_cold_observable(list(msgs))
        self.colds.append((label, c))
        return c

    def src(self, kind, which):
        """source number `which` (0 = A, 1 = B) of the given kind"""
        if kind == "obs":          # a source of observables
            inner = [self.cold([self.N(5, 100 * (which + 1) + i), self.N(25, 100 * (which + 1) + 10 + i),
                                self.C(30)], f"inner{which}.{i}") for i in range(3)]
            tl = [self.N(10, inner[0]), self.N(22, inner[1]), self.N(50, inner[2]), self.C(60 + 10 * which)]
            return self.cold(tl, f"src{which}:obs")
        return self.cold(self.lines[kind][which], f"src{which}:{kind}")

    # argument observables (fresh cold observable per call, logged)
    def other(self, tag="o"):
        return self.cold([self.N(8, 70), self.N(33, 80), self.N(34, 90), self.C(75)], f"arg:{tag}")

    def ticker(self, tag="t"):
        return self.cold([self.N(15, 0), self.N(35, 0), self.N(36, 0), self.C(100)], f"arg:{tag}")

    def short(self, x, tag="s"):
        return self.cold([self.N(3, (x, 0)), self.N(12, (x, 1)), self.C(14)], f"arg:{tag}{x}")

    def timer(self, d):
        import reactivex
        return reactivex.timer(d, scheduler=self.s)

    def tick(self):
        t = Tick()
        self.ticks.append(t)
        return t

    def reset(self):
        for t in self.ticks:
            t.reset()


class Recipe:
    def __init__(self, name, op=None, obs=None, src="num", pre=None, post=None, uses=(), stateful=False,
                 connectable=False, c04=True, c44=True, label=""):
        self.name, self.op, self.obs, self.src, self.pre, self.post = name, op, obs, src, pre, post
        self.uses = tuple(uses)
        self.stateful, self.connectable, self.c04, self.c44 = stateful, connectable, c04, c44
        self.label = label
        self.id = name + (("#" + label) if label else "")

    def build(self, e, which, opval):
        """source `which` -> pre -> opval -> post"""
        x = e.src(self.src, which)
        if self.pre is not None:
            x = x.pipe(self.pre(e))
        y = opval(x)
        if self.post is not None:
            y = self.post(e, y)
        return y


def canon(v):
    from reactivex import Observable
    if isinstance(v, Observable):
        return "<observable>"
    if isinstance(v, BaseException):
        return f"{type(v).__name__}({v})"
    if isinstance(v, (list, tuple)):
        return [canon(x) for x in v]
    if isinstance(v, (set, frozenset)):
        return sorted(repr(x) for x in v)
    if isinstance(v, dict):
        return {repr(k): canon(x) for k, x in sorted(v.items(), key=lambda kv: repr(kv[0]))}
    if v is None or isinstance(v, (bool, int, float, str)):
        return v
    return repr(v)


class Rec:
    def __init__(self, sched, rel):
        self.s, self.rel, self.t0, self.out, self.d = sched, rel, None, [], None

    def now(self):
        c = self.s.clock
        c = int(c) if float(c).is_integer() else float(c)
        return c - self.t0 if self.rel else c

    def on_next(self, v):
        self.out.append([self.now(), "N", canon(v)])

    def on_error(self, ex):
        self.out.append([self.now(), "E", canon(ex)])

    def on_completed(self):
        self.out.append([self.now(), "C", None])


def _at(e, t, fn):
    e.s.schedule_absolute(t, lambda *_: fn())


def drive(e):
    """run the virtual-time scheduler to the end.  An exception that escapes from an operator into
    the scheduler (e.g. to_set on an unhashable element: outside C04/C44) aborts start(); it is
    recorded and the scheduler restarted, so that later subscriptions still take place."""
    escaped = []
    for _ in range(200):
        try:
            e.s.start()
            break
        except Exception as ex:
            c = e.s.clock
            escaped.append([int(c) if float(c).is_integer() else float(c), canon(ex)])
            e.s.stop()
    return escaped


def subs_log(e):
    """subscription intervals per label (an argument observable built twice -- fresh operators -- has
    the same label both times: the intervals are merged, so shared and fresh worlds are comparable)"""
    out = {}
    for lab, c in e.colds:
        out.setdefault(lab, []).extend([int(s.subscribe), None if s.unsubscribe is None else int(s.unsubscribe)]
                                       for s in c.subscriptions)
    return {k: sorted(v, key=lambda p: (p[0], -1 if p[1] is None else p[1])) for k, v in out.items()}


def run_c04(r, plan):
    """plan = ('seq', n) | ('overlap', d).  -> {'subs': [relative traces], 'error': ...}"""
    e = Env()
    try:
        if r.obs is not None:
            obs = r.obs(e)
        else:
            obs = r.build(e, 0, r.op(e))
    except Exception as ex:      # construction refused: not a resubscription question
        return {"construct_error": f"{type(ex).__name__}: {ex}"}
    recs = []

    def sub(at, until, reset):
        rec = Rec(e.s, True)
        recs.append(rec)

        def go():
            if reset:
                e.reset()
            rec.t0 = e.s.clock
            try:
                rec.d = obs.subscribe(rec.on_next, rec.on_error, rec.on_completed, scheduler=e.s)
            except Exception as ex:
                rec.out.append([0, "RAISE", canon(ex)])

        def stop():
            if rec.d is not None:
                rec.d.dispose()
        _at(e, at, go)
        _at(e, until, stop)
    if plan[0] == "seq":
        for i in range(plan[1]):
            sub(200 + 1000 * i, 1100 + 1000 * i, True)
    elif plan[0] == "seq0":
        # the first subscription right at the clock's origin (a state measured from the scheduler's zero instead
        # of from the subscription behaves differently there), the next ones far from it
        for i in range(plan[1]):
            sub(1 + 1000 * i, 900 + 1000 * i, True)
    else:
        sub(200, 1400, False)
        sub(200 + plan[1], 1400 + plan[1], False)
    escaped = drive(e)
    res = {"subs": [rec.out for rec in recs]}
    if escaped:
        res["escaped_into_scheduler"] = escaped
    return res


def run_c44(r, shared, plan):
    """one operator value (shared) or one per application; two applications (sources A, B), three (A, B, C) in
    the 'inter3' plans.
    plan = 'seq' | 'interleaved' | ('inter', (d1, d2, d3), (c0, c1)) | ('inter3', (d1, .., d5), (c0, c1, c2))"""
    e = Env()
    nsrc = 3 if (not isinstance(plan, str) and plan[0] == "inter3") else 2
    try:
        op1 = r.op(e)
        xs = [r.build(e, k, op1 if (shared or k == 0) else r.op(e)) for k in range(nsrc)]
    except Exception as ex:
        return {"construct_error": f"{type(ex).__name__}: {ex}"}
    recs = []
    if plan == "seq" or plan[0] == "seq":
        sched = [(0, 200, 1100), (1, 1200, 2100), (0, 2200, 3100)]
        conn = [(0, 205, 1100), (1, 1205, 2100), (0, 2205, 3100)]
    elif plan == "interleaved":
        sched = [(0, 200, 1500), (1, 215, 1500), (0, 240, 1500), (1, 262, 1500)]
        conn = [(0, 221, 1500), (1, 223, 1500)]
    elif plan[0] == "inter3":   # A at 200, then B, C, A, B, C at 200 + d; connections of A, B, C at 200 + c
        _, ds, cs = plan
        sched = [(0, 200, 1500)] + [((k + 1) % 3, 200 + d, 1500) for k, d in enumerate(ds)]
        conn = [(k, 200 + c, 1500) for k, c in enumerate(cs)]
    else:                       # ("inter", (d1, d2, d3), (c0, c1)): B, A, B subscribe d ticks after A
        _, (d1, d2, d3), (c0, c1) = plan
        sched = [(0, 200, 1500), (1, 200 + d1, 1500), (0, 200 + d2, 1500), (1, 200 + d3, 1500)]
        conn = [(0, 200 + c0, 1500), (1, 200 + c1, 1500)]
    for (w, at, until) in sched:
        rec = Rec(e.s, False)
        rec.which = w
        recs.append(rec)

        def go(rec=rec, w=w):
            try:
                rec.d = xs[w].subscribe(rec.on_next, rec.on_error, rec.on_completed, scheduler=e.s)
            except Exception as ex:
                rec.out.append([rec.now(), "RAISE", canon(ex)])

        def stop(rec=rec):
            if rec.d is not None:
                rec.d.dispose()
        _at(e, at, go)
        _at(e, until, stop)
    if r.connectable:
        for (w, at, until) in conn:
            box = {}

            def cgo(w=w, box=box):
                box["d"] = xs[w].connect(e.s)

            def cstop(box=box):
                if box.get("d") is not None:
                    box["d"].dispose()
            _at(e, at, cgo)
            _at(e, until, cstop)
    escaped = drive(e)
    res = {"subs": [[rec.which, rec.out] for rec in recs], "sources": subs_log(e)}
    if escaped:
        res["escaped_into_scheduler"] = escaped
    return res


# --------------------------------------------------------------------------- the recipes
def recipes():
    import reactivex as rx
    from reactivex import operators as ops
    from reactivex.observer import Observer
    from reactivex.subject import Subject
    R = []

    def flat(e, y):          # windows / groups -> lists
        return y.pipe(ops.flat_map(lambda w: w.pipe(ops.to_list())))

    def add(name, op, **kw):
        uses = kw.pop("uses", ())
        R.append(Recipe("ops." + name, op=op, uses=("ops." + name,) + tuple(uses), **kw))

    W = ("ops.flat_map", "ops.to_iterable")
    add("all", lambda e: ops.all(lambda x: x < 9))
    add("amb", lambda e: ops.amb(e.other()))
    add("as_observable", lambda e: ops.as_observable())
    add("average", lambda e: ops.average())
    add("average", lambda e: ops.average(lambda x: x * 2), label="key")
    add("buffer", lambda e: ops.buffer(e.ticker()))
    add("buffer_when", lambda e: ops.buffer_when(lambda: e.timer(25)))
    add("buffer_toggle", lambda e: ops.buffer_toggle(e.ticker(), lambda _: e.timer(12)))
    add("buffer_with_count", lambda e: ops.buffer_with_count(2))
    add("buffer_with_count", lambda e: ops.buffer_with_count(3, 1), label="skip")
    add("buffer_with_time", lambda e: ops.buffer_with_time(25, scheduler=e.s))
    add("buffer_with_time", lambda e: ops.buffer_with_time(25, 10, scheduler=e.s), label="shift")
    add("buffer_with_time_or_count", lambda e: ops.buffer_with_time_or_count(25, 2, scheduler=e.s))
    add("catch", lambda e: ops.catch(e.other()), src="err")
    add("catch", lambda e: ops.catch(lambda ex, s: e.other()), src="err", label="handler")
    add("combine_latest", lambda e: ops.combine_latest(e.other()))
    add("concat", lambda e: ops.concat(e.other()))
    add("concat_map", lambda e: ops.concat_map(lambda x: e.short(x)))
    add("contains", lambda e: ops.contains(3))
    add("count", lambda e: ops.count())
    add("count", lambda e: ops.count(lambda x: x % 2 == 1), label="pred")
    add("debounce", lambda e: ops.debounce(8, scheduler=e.s))
    add("default_if_empty", lambda e: ops.default_if_empty(7), src="empty")
    add("delay_subscription", lambda e: ops.delay_subscription(15, scheduler=e.s))
    add("delay_with_mapper", lambda e: ops.delay_with_mapper(lambda x: e.timer(7)))
    add("delay_with_mapper", lambda e: ops.delay_with_mapper(e.timer(15), lambda x: e.timer(7)), label="subdelay")
    add("dematerialize", lambda e: ops.dematerialize(), pre=lambda e: ops.materialize(), uses=("ops.materialize",))
    add("delay", lambda e: ops.delay(15, scheduler=e.s))
    add("distinct", lambda e: ops.distinct(), src="dup")
    add("distinct", lambda e: ops.distinct(lambda x: x % 3), label="key")
    add("distinct", lambda e: ops.distinct(comparer=lambda a, b: a == b), src="dup", label="comparer")
    add("distinct_until_changed", lambda e: ops.distinct_until_changed(), src="dup")
    add("distinct_until_changed", lambda e: ops.distinct_until_changed(lambda x: x // 2), label="key")
    add("do", lambda e: ops.do(Observer(lambda x: None)))
    add("do_action", lambda e: ops.do_action(lambda x: None, lambda ex: None, lambda: None))
    add("element_at", lambda e: ops.element_at(2))
    add("element_at_or_default", lambda e: ops.element_at_or_default(9, "d"))
    add("exclusive", lambda e: ops.exclusive(), src="obs")
    add("expand", lambda e: ops.expand(lambda x: e.short(x) if not isinstance(x, tuple) else rx.empty()),
        uses=("rx.empty",))
    add("filter", lambda e: ops.filter(lambda x: x % 2 == 1))
    add("filter_indexed", lambda e: ops.filter_indexed(lambda x, i: i % 2 == 0))
    add("finally_action", lambda e: ops.finally_action(lambda: None))
    add("find", lambda e: ops.find(lambda x, i, s: x == 3))
    add("find_index", lambda e: ops.find_index(lambda x, i, s: x == 3))
    add("first", lambda e: ops.first())
    add("first", lambda e: ops.first(lambda x: x > 2), label="pred")
    add("first_or_default", lambda e: ops.first_or_default(lambda x: x > 7, 0))
    add("first_or_default", lambda e: ops.first_or_default(None, 0), src="empty", label="empty")
    add("flat_map", lambda e: ops.flat_map(lambda x: e.short(x)))
    add("flat_map", lambda e: ops.flat_map(e.other()), label="obs")
    add("flat_map_indexed", lambda e: ops.flat_map_indexed(lambda x, i: rx.of((x, i))), uses=("rx.of",))
    add("flat_map_latest", lambda e: ops.flat_map_latest(lambda x: e.short(x)))
    add("fork_join", lambda e: ops.fork_join(e.other()))
    add("group_by", lambda e: ops.group_by(lambda x: x % 2), post=flat, uses=W)
    add("group_by", lambda e: ops.group_by(lambda x: x % 2, lambda x: x * 10), post=flat, uses=W, label="elem")
    add("group_by_until", lambda e: ops.group_by_until(lambda x: x % 2, None, lambda g: e.timer(25)),
        post=flat, uses=W)
    add("group_join", lambda e: ops.group_join(e.other(), lambda _: e.timer(15), lambda _: e.timer(15)),
        post=lambda e, y: y.pipe(ops.flat_map(lambda t: t[1].pipe(ops.to_list(), ops.map(lambda l: (t[0], l))))),
        uses=W + ("ops.map",))
    add("ignore_elements", lambda e: ops.ignore_elements())
    add("is_empty", lambda e: ops.is_empty())
    add("join", lambda e: ops.join(e.other(), lambda _: e.timer(15), lambda _: e.timer(15)))
    add("last", lambda e: ops.last())
    add("last", lambda e: ops.last(lambda x: x < 4), label="pred")
    add("last_or_default", lambda e: ops.last_or_default(0))
    add("last_or_default", lambda e: ops.last_or_default(0, lambda x: x > 9), label="pred")
    add("map", lambda e: ops.map(lambda x: x * 2))
    add("map", lambda e: ops.map(), label="identity")
    add("map_indexed", lambda e: ops.map_indexed(lambda x, i: (x, i)))
    add("map_indexed", lambda e: ops.map_indexed(), label="identity")
    add("materialize", lambda e: ops.materialize(), post=lambda e, y: y.pipe(ops.map(lambda n: (n.kind, canon(getattr(n, "value", None)),
                                                canon(getattr(n, "exception", None))))), uses=("ops.map",))
    add("max", lambda e: ops.max())
    add("max_by", lambda e: ops.max_by(lambda x: x % 3))
    add("merge", lambda e: ops.merge(e.other()))
    add("merge", lambda e: ops.merge(max_concurrent=1), src="obs", label="maxc")
    add("merge_all", lambda e: ops.merge_all(), src="obs")
    add("min", lambda e: ops.min())
    add("min_by", lambda e: ops.min_by(lambda x: x % 3))
    add("multicast", lambda e: ops.multicast(subject_factory=lambda s: Subject(),
                                             mapper=lambda c: c.pipe(ops.map(lambda x: x + 1))),
        uses=("ops.map",), label="factory")
    add("observe_on", lambda e: ops.observe_on(e.s))
    add("on_error_resume_next", lambda e: ops.on_error_resume_next(e.other()), src="err")
    add("pairwise", lambda e: ops.pairwise())
    add("partition", lambda e: ops.partition(lambda x: x % 2 == 1), post=lambda e, y: rx.merge(*y),
        uses=("rx.merge",), c04=False)
    add("partition_indexed", lambda e: ops.partition_indexed(lambda x, i: i % 2 == 1),
        post=lambda e, y: rx.merge(*y), uses=("rx.merge",), c04=False)
    add("pluck", lambda e: ops.pluck("a"), src="dict")
    add("pluck_attr", lambda e: ops.pluck_attr("real"))
    add("publish", lambda e: ops.publish(), connectable=True, c04=False)
    add("publish", lambda e: ops.publish(lambda c: c.pipe(ops.take(2))), uses=("ops.take",), label="mapper")
    add("publish_value", lambda e: ops.publish_value(0), connectable=True, c04=False)
    add("publish_value", lambda e: ops.publish_value(0, lambda c: c.pipe(ops.take(3))), uses=("ops.take",),
        label="mapper")
    add("reduce", lambda e: ops.reduce(lambda a, x: a + x))
    add("reduce", lambda e: ops.reduce(lambda a, x: a + x, 100), label="seed")
    add("ref_count", lambda e: ops.ref_count(), pre=lambda e: ops.publish(), uses=("ops.publish",), c04=False)
    add("repeat", lambda e: ops.repeat(2))
    add("repeat", lambda e: ops.repeat(), post=lambda e, y: y.pipe(ops.take(12)), uses=("ops.take",), label="inf")
    add("replay", lambda e: ops.replay(buffer_size=2, scheduler=e.s), connectable=True, c04=False)
    add("replay", lambda e: ops.replay(window=30, scheduler=e.s), connectable=True, c04=False, label="window")
    add("replay", lambda e: ops.replay(mapper=lambda c: c.pipe(ops.take(3)), buffer_size=2, scheduler=e.s),
        uses=("ops.take",), label="mapper")
    add("retry", lambda e: ops.retry(2), src="err")
    add("retry", lambda e: ops.retry(), src="err", post=lambda e, y: y.pipe(ops.take(7)), uses=("ops.take",),
        label="inf")
    add("sample", lambda e: ops.sample(20, scheduler=e.s))
    add("sample", lambda e: ops.sample(e.ticker()), label="obs")
    add("scan", lambda e: ops.scan(lambda a, x: a + x))
    add("scan", lambda e: ops.scan(lambda a, x: a + x, 100), label="seed")
    add("sequence_equal", lambda e: ops.sequence_equal([1, 2, 3, 4, 5]))
    add("sequence_equal", lambda e: ops.sequence_equal(e.other()), label="obs")
    add("share", lambda e: ops.share(), c04=False)
    add("single", lambda e: ops.single(), src="single")
    add("single", lambda e: ops.single(lambda x: x == 3), label="pred")
    add("single_or_default", lambda e: ops.single_or_default(lambda x: x > 7, 0))
    add("single_or_default_async", lambda e: ops.single_or_default_async(True, 0), src="empty")
    add("skip", lambda e: ops.skip(2))
    add("skip_last", lambda e: ops.skip_last(2))
    add("skip_last_with_time", lambda e: ops.skip_last_with_time(15, scheduler=e.s))
    add("skip_until", lambda e: ops.skip_until(e.ticker()))
    add("skip_until_with_time", lambda e: ops.skip_until_with_time(25, scheduler=e.s))
    add("skip_while", lambda e: ops.skip_while(lambda x: x < 3))
    add("skip_while_indexed", lambda e: ops.skip_while_indexed(lambda x, i: i < 2))
    add("skip_with_time", lambda e: ops.skip_with_time(25, scheduler=e.s))
    add("slice", lambda e: ops.slice(1, 4))
    add("slice", lambda e: ops.slice(-3, 4), label="neg")
    add("slice", lambda e: ops.slice(0, None, 2), label="step")
    add("some", lambda e: ops.some())
    add("some", lambda e: ops.some(lambda x: x > 3), label="pred")
    add("starmap", lambda e: ops.starmap(lambda a, b: a + b), src="tup")
    add("starmap_indexed", lambda e: ops.starmap_indexed(lambda a, b: a * b), src="tup")
    add("start_with", lambda e: ops.start_with(-1, 0))
    add("subscribe_on", lambda e: ops.subscribe_on(e.s))
    add("sum", lambda e: ops.sum())
    add("sum", lambda e: ops.sum(lambda x: x * 2), label="key")
    add("switch_latest", lambda e: ops.switch_latest(), src="obs")
    add("switch_map", lambda e: ops.switch_map(lambda x: e.short(x)))
    add("switch_map_indexed", lambda e: ops.switch_map_indexed(lambda x, i: e.short((x, i))))
    add("take", lambda e: ops.take(3))
    add("take", lambda e: ops.take(0), label="zero")
    add("take_last", lambda e: ops.take_last(2))
    add("take_last_buffer", lambda e: ops.take_last_buffer(2))
    add("take_last_with_time", lambda e: ops.take_last_with_time(25, scheduler=e.s))
    add("take_until", lambda e: ops.take_until(e.ticker()))
    add("take_until_with_time", lambda e: ops.take_until_with_time(35, scheduler=e.s))
    add("take_while", lambda e: ops.take_while(lambda x: x < 4))
    add("take_while", lambda e: ops.take_while(lambda x: x < 4, inclusive=True), label="incl")
    add("take_while_indexed", lambda e: ops.take_while_indexed(lambda x, i: i < 3))
    add("take_with_time", lambda e: ops.take_with_time(35, scheduler=e.s))
    add("tap", lambda e: ops.tap(lambda x: None))
    add("throttle_first", lambda e: ops.throttle_first(15, scheduler=e.s))
    add("throttle_with_mapper", lambda e: ops.throttle_with_mapper(lambda x: e.timer(8)))
    add("timestamp", lambda e: ops.timestamp(scheduler=e.s), post=lambda e, y: y.pipe(ops.map(lambda t: t.value)),
        uses=("ops.map",))
    add("timeout", lambda e: ops.timeout(15, e.other(), scheduler=e.s))
    add("timeout", lambda e: ops.timeout(8, scheduler=e.s), label="err")
    add("timeout_with_mapper", lambda e: ops.timeout_with_mapper(e.timer(15), lambda x: e.timer(15), e.other()))
    add("time_interval", lambda e: ops.time_interval(scheduler=e.s),
        post=lambda e, y: y.pipe(ops.map(lambda t: (t.value, t.interval.total_seconds()))), uses=("ops.map",))
    add("to_dict", lambda e: ops.to_dict(lambda x: x % 3))
    add("to_iterable", lambda e: ops.to_iterable())
    add("to_list", lambda e: ops.to_list())
    add("to_marbles", lambda e: ops.to_marbles(timespan=10, scheduler=e.s))
    add("to_set", lambda e: ops.to_set(), src="dup")
    add("window", lambda e: ops.window(e.ticker()), post=flat, uses=W)
    add("window_when", lambda e: ops.window_when(lambda: e.timer(25)), post=flat, uses=W)
    add("window_toggle", lambda e: ops.window_toggle(e.ticker(), lambda _: e.timer(12)), post=flat, uses=W)
    add("window_with_count", lambda e: ops.window_with_count(2), post=flat, uses=W)
    add("window_with_count", lambda e: ops.window_with_count(3, 2), post=flat, uses=W, label="skip")
    add("window_with_time", lambda e: ops.window_with_time(25, scheduler=e.s), post=flat, uses=W)
    add("window_with_time_or_count", lambda e: ops.window_with_time_or_count(25, 2, scheduler=e.s), post=flat,
        uses=W)
    add("with_latest_from", lambda e: ops.with_latest_from(e.other()))
    add("zip", lambda e: ops.zip(e.other()))
    add("zip_with_iterable", lambda e: ops.zip_with_iterable([7, 8, 9]))
    add("zip_with_iterable", lambda e: ops.zip_with_iterable(range(100, 200)), label="range")
    add("zip_with_list", lambda e: ops.zip_with_list([7, 8]), uses=("ops.zip_with_iterable",))

    # ---- the OTHER branch of optional arguments (one more variant per factory where the first ones leave a branch
    # of an optional parameter untaken): comparers, default values, None mappers, subject mappers, `inclusive`,
    # time operators WITHOUT a scheduler argument (they then run on the scheduler given to subscribe)
    from reactivex.subject import ReplaySubject
    mod4 = lambda a, b: a % 4 == b % 4
    cmp3 = lambda a, b: (a % 3) - (b % 3)
    add("contains", lambda e: ops.contains(7, mod4), label="comparer")
    add("default_if_empty", lambda e: ops.default_if_empty(), src="empty", label="none")
    add("default_if_empty", lambda e: ops.default_if_empty(7), label="nonempty")
    add("distinct_until_changed", lambda e: ops.distinct_until_changed(comparer=mod4), src="dup", label="comparer")
    add("distinct_until_changed", lambda e: ops.distinct_until_changed(lambda x: x * 2, mod4), label="key+comparer")
    add("do_action", lambda e: ops.do_action(lambda x: None), label="on_next-only")
    add("do_action", lambda e: ops.do_action(on_completed=lambda: None), label="on_completed-only")
    add("element_at_or_default", lambda e: ops.element_at_or_default(9), label="none")
    add("element_at_or_default", lambda e: ops.element_at_or_default(1, "d"), label="found")
    add("first_or_default", lambda e: ops.first_or_default(), src="empty", label="none")
    add("flat_map", lambda e: ops.flat_map(), src="obs", label="none")
    add("flat_map_indexed", lambda e: ops.flat_map_indexed(), src="obs", label="none")
    add("switch_map", lambda e: ops.switch_map(), src="obs", label="none")
    add("switch_map_indexed", lambda e: ops.switch_map_indexed(), src="obs", label="none")
    add("group_by", lambda e: ops.group_by(lambda x: x % 2, None, lambda: ReplaySubject()), post=flat, uses=W,
        label="subject")
    add("group_by_until", lambda e: ops.group_by_until(lambda x: x % 2, lambda x: x * 10, lambda g: e.timer(25),
                                                       lambda: ReplaySubject()), post=flat, uses=W, label="elem+subject")
    add("last_or_default", lambda e: ops.last_or_default(), src="empty", label="none")
    add("max", lambda e: ops.max(cmp3), label="comparer")
    add("min", lambda e: ops.min(cmp3), label="comparer")
    add("max_by", lambda e: ops.max_by(lambda x: x, cmp3), label="comparer")
    add("min_by", lambda e: ops.min_by(lambda x: x, cmp3), label="comparer")
    add("replay", lambda e: ops.replay(2, 30, scheduler=e.s), connectable=True, c04=False, label="size+window")
    add("replay", lambda e: ops.replay(scheduler=e.s), connectable=True, c04=False, label="unbounded")
    add("replay", lambda e: ops.replay(buffer_size=2), connectable=True, c04=False, label="nosched")
    add("replay", lambda e: ops.replay(mapper=lambda c: c.pipe(ops.take(3)), window=30, scheduler=e.s),
        uses=("ops.take",), label="mapper+window")
    add("sequence_equal", lambda e: ops.sequence_equal([5, 6, 7, 8, 9], mod4), label="comparer")
    add("single_or_default", lambda e: ops.single_or_default(), src="empty", label="none")
    add("single_or_default", lambda e: ops.single_or_default(None, 0), src="single", label="nopred")
    add("single_or_default_async", lambda e: ops.single_or_default_async(), src="single", label="nodefault")
    add("single_or_default_async", lambda e: ops.single_or_default_async(), src="empty", label="nodefault-empty")
    add("take_while_indexed", lambda e: ops.take_while_indexed(lambda x, i: i < 3, inclusive=True), label="incl")
    add("timeout_with_mapper", lambda e: ops.timeout_with_mapper(None, lambda x: e.timer(15)), label="nofirst-noother")
    add("timeout_with_mapper", lambda e: ops.timeout_with_mapper(e.timer(8)), label="first-only")
    add("to_dict", lambda e: ops.to_dict(lambda x: x % 3, lambda x: x * 10), label="elem")
    add("window_with_time", lambda e: ops.window_with_time(25, 10, scheduler=e.s), post=flat, uses=W, label="shift")
    for nm, mk in (("delay", lambda: ops.delay(15)), ("debounce", lambda: ops.debounce(8)),
                   ("sample", lambda: ops.sample(20)), ("buffer_with_time", lambda: ops.buffer_with_time(25)),
                   ("buffer_with_time_or_count", lambda: ops.buffer_with_time_or_count(25, 2)),
                   ("take_with_time", lambda: ops.take_with_time(35)), ("skip_with_time", lambda: ops.skip_with_time(25)),
                   ("timeout", lambda: ops.timeout(8)), ("throttle_first", lambda: ops.throttle_first(15)),
                   ("delay_subscription", lambda: ops.delay_subscription(15)),
                   ("take_until_with_time", lambda: ops.take_until_with_time(35)),
                   ("skip_until_with_time", lambda: ops.skip_until_with_time(25)),
                   ("take_last_with_time", lambda: ops.take_last_with_time(25)),
                   ("skip_last_with_time", lambda: ops.skip_last_with_time(15)),
                   ("to_marbles", lambda: ops.to_marbles(timespan=10))):
        add(nm, (lambda mk: (lambda e: mk()))(mk), label="nosched")
    add("window_with_time", lambda e: ops.window_with_time(25), post=flat, uses=W, label="nosched")
    add("window_with_time_or_count", lambda e: ops.window_with_time_or_count(25, 2), post=flat, uses=W, label="nosched")

    # stateful conditions (sequential plan only, reset per subscription)
    def wd(e):
        t = e.tick()
        return ops.while_do(lambda _: t() <= 2)

    def dw(e):
        t = e.tick()
        return ops.do_while(lambda _: t() <= 2)
    add("while_do", wd, src="single", stateful=True, c44=False)
    add("do_while", dw, src="single", stateful=True, c44=False)
    # ... and their time-dependent (stateless, absolute-time) variants for C44
    add("while_do", lambda e: ops.while_do(lambda _: e.s.clock < 330), src="single", c04=False, label="clock")
    add("do_while", lambda e: ops.do_while(lambda _: e.s.clock < 330), src="single", c04=False, label="clock")

    # ---- creation functions (C04 only)
    def cre(name, obs, **kw):
        uses = kw.pop("uses", ())
        R.append(Recipe("rx." + name, obs=obs, uses=("rx." + name,) + tuple(uses), c44=False, **kw))

    cre("amb", lambda e: rx.amb(e.src("num", 0), e.src("num", 1)))
    cre("case", lambda e: rx.case(lambda: 1, {1: e.src("num", 0), 2: e.src("num", 1)}))
    cre("catch", lambda e: rx.catch(e.src("err", 0), e.src("err", 1), e.src("num", 0)))
    cre("catch_with_iterable", lambda e: rx.catch_with_iterable([e.src("err", 0), e.src("num", 1)]))
    cre("catch", lambda e: rx.catch(rx.throw(Exception("x")), rx.of(1)), label="sync", uses=("rx.throw", "rx.of"))
    cre("combine_latest", lambda e: rx.combine_latest(e.src("num", 0), e.src("num", 1)))
    cre("concat", lambda e: rx.concat(e.src("num", 0), e.src("num", 1)))
    cre("concat_with_iterable", lambda e: rx.concat_with_iterable([e.src("single", 0), e.src("single", 1)]))
    cre("create", lambda e: rx.create(lambda o, s=None: e.src("num", 0).subscribe(o, scheduler=s)))
    cre("defer", lambda e: rx.defer(lambda s: e.src("num", 0)))
    cre("empty", lambda e: rx.empty())
    cre("for_in", lambda e: rx.for_in([1, 2, 3], lambda x: e.short(x)))
    cre("for_in", lambda e: rx.for_in([1, 2], lambda x: rx.of(x, x * 10)), label="sync", uses=("rx.of",))
    cre("fork_join", lambda e: rx.fork_join(e.src("num", 0), e.src("num", 1)))
    cre("from_callable", lambda e: rx.from_callable(lambda: 42))
    cre("from_callback", lambda e: rx.from_callback(lambda a, b, cb: cb(a + b))(3, 4))
    cre("from_callback", lambda e: rx.from_callback(lambda cb: cb(1, 2))(), label="noargs")
    cre("from_iterable", lambda e: rx.from_iterable([1, 2, 3]))
    cre("from_iterable", lambda e: rx.from_iterable(range(4), scheduler=e.s), label="sched")
    cre("from_marbles", lambda e: rx.from_marbles("--1-2-(34)-|", timespan=10, scheduler=e.s))
    cre("generate", lambda e: rx.generate(0, lambda x: x < 4, lambda x: x + 1))
    cre("generate_with_relative_time",
        lambda e: rx.generate_with_relative_time(1, lambda x: x < 5, lambda x: x + 1, lambda x: x * 5))
    cre("if_then", lambda e: rx.if_then(lambda: True, e.src("num", 0), e.src("num", 1)))
    cre("interval", lambda e: rx.interval(10, scheduler=e.s).pipe(ops.take(4)), uses=("ops.take",))
    cre("merge", lambda e: rx.merge(e.src("num", 0), e.src("num", 1)))
    cre("never", lambda e: rx.never().pipe(ops.take_until(e.timer(30))), uses=("ops.take_until",))
    cre("of", lambda e: rx.of(1, 2, 3))
    cre("on_error_resume_next", lambda e: rx.on_error_resume_next(e.src("err", 0), e.src("num", 1)))
    cre("on_error_resume_next", lambda e: rx.on_error_resume_next(rx.of(1), lambda ex: rx.of(2)), label="sync",
        uses=("rx.of",))
    cre("range", lambda e: rx.range(1, 5))
    cre("range", lambda e: rx.range(0, 10, 3, scheduler=e.s), label="sched")
    cre("repeat_value", lambda e: rx.repeat_value(7, 3))
    cre("return_value", lambda e: rx.return_value(5))
    cre("throw", lambda e: rx.throw(Exception("t")))
    cre("timer", lambda e: rx.timer(15, scheduler=e.s))
    cre("timer", lambda e: rx.timer(15, 10, scheduler=e.s).pipe(ops.take(3)), label="period", uses=("ops.take",))
    cre("using", lambda e: rx.using(lambda: None, lambda r: e.src("num", 0)))
    cre("with_latest_from", lambda e: rx.with_latest_from(e.src("num", 0), e.src("num", 1)))
    cre("zip", lambda e: rx.zip(e.src("num", 0), e.src("num", 1)))
    # longer pipelines (several stateful operators in one observable)
    cre("pipeline", lambda e: e.src("num", 0).pipe(ops.map_indexed(lambda x, i: x + i), ops.scan(lambda a, x: a + x),
                                                   ops.skip(1), ops.take(3), ops.pairwise()),
        label="indexed-scan-skip-take-pairwise",
        uses=("ops.map_indexed", "ops.scan", "ops.skip", "ops.take", "ops.pairwise"))
    cre("pipeline", lambda e: rx.of(3, 1, 3, 2, 1).pipe(ops.distinct(), ops.zip_with_iterable("abc"),
                                                       ops.take_while_indexed(lambda x, i: i < 2), ops.to_list()),
        label="sync-distinct-zip-takewhile",
        uses=("rx.of", "ops.distinct", "ops.zip_with_iterable", "ops.take_while_indexed", "ops.to_iterable"))
    cre("pipeline", lambda e: e.src("err", 0).pipe(ops.retry(2), ops.catch(rx.of(-1)), ops.repeat(2),
                                                   ops.filter_indexed(lambda x, i: i % 2 == 0)),
        label="retry-catch-repeat-filter_indexed",
        uses=("ops.retry", "ops.catch", "rx.of", "ops.repeat", "ops.filter_indexed"))
    return R


def public_operator_names():
    """public functions of reactivex.operators by introspection (not the translator)"""
    import inspect
    import reactivex.operators as m
    out = {}
    for n in dir(m):
        f = getattr(m, n)
        if not n.startswith("_") and inspect.isfunction(f) and f.__module__ == "reactivex.operators":
            out.setdefault(f.__name__, []).append(n)
    return out


# --------------------------------------------------------------------------- generated pipelines
# single-source recipes whose output can feed any other stage (errors raised by a callback on an
# unexpected element type are deterministic notifications, so every composition is a valid case)
STAGE_OK = {
    "ops.map", "ops.map_indexed", "ops.filter", "ops.filter_indexed", "ops.scan", "ops.skip", "ops.take",
    "ops.skip_last", "ops.take_last", "ops.distinct", "ops.distinct_until_changed", "ops.pairwise",
    "ops.delay", "ops.debounce", "ops.start_with", "ops.take_while", "ops.take_while_indexed",
    "ops.skip_while", "ops.skip_while_indexed", "ops.zip_with_iterable", "ops.repeat", "ops.retry",
    "ops.catch", "ops.concat", "ops.merge", "ops.do_action", "ops.default_if_empty", "ops.slice",
    "ops.sample", "ops.throttle_first", "ops.delay_subscription", "ops.buffer_with_count", "ops.to_iterable",
    "ops.reduce", "ops.count", "ops.sum", "ops.min", "ops.max", "ops.first", "ops.last", "ops.some",
    "ops.all", "ops.is_empty", "ops.contains", "ops.element_at_or_default", "ops.on_error_resume_next",
    "ops.flat_map", "ops.concat_map", "ops.switch_map", "ops.flat_map_indexed", "ops.switch_map_indexed",
    "ops.take_until", "ops.skip_until", "ops.take_with_time", "ops.skip_with_time", "ops.take_last_buffer",
    "ops.with_latest_from", "ops.combine_latest", "ops.zip", "ops.amb", "ops.materialize", "ops.finally_action",
    "ops.tap", "ops.as_observable", "ops.ignore_elements", "ops.timeout", "ops.buffer_with_time",
    "ops.skip_last_with_time", "ops.take_last_with_time", "ops.take_until_with_time",
    "ops.skip_until_with_time", "ops.single_or_default", "ops.first_or_default", "ops.last_or_default",
    "ops.average", "ops.max_by", "ops.min_by", "ops.to_set", "ops.to_dict", "ops.find", "ops.find_index",
    "ops.sequence_equal", "ops.observe_on", "ops.subscribe_on", "ops.time_interval", "ops.group_by",
    "ops.window_with_count", "ops.buffer", "ops.fork_join", "ops.do", "ops.element_at",
}


def stage_pool(R, multicast_ok=False):
    return [r for r in R if r.op is not None and r.name in STAGE_OK and r.pre is None and not r.stateful
            and (r.c04 or multicast_ok) and r.src in ("num", "dup", "err", "single", "empty")
            and not r.connectable]


class Pipeline:
    """a generated pipeline: source kind + stages (recipes); behaves like a Recipe"""

    def __init__(self, src, stages):
        self.src, self.stages = src, list(stages)
        self.name = "pipeline"
        self.id = "pipeline:" + src + ":" + ">".join(s.id for s in self.stages)
        self.uses = tuple(sorted({u for s in self.stages for u in s.uses}))
        self.stateful, self.connectable, self.obs, self.pre, self.post = False, False, None, None, None
        self.c04 = self.c44 = True

    def op(self, e):
        import reactivex
        fs = []
        for s in self.stages:
            f = s.op(e)
            if s.post is not None:
                f = (lambda f, s: (lambda x: s.post(e, f(x))))(f, s)
            fs.append(f)
        return reactivex.compose(*fs)

    def build(self, e, which, opval):
        return opval(e.src(self.src, which))

    def to_json(self):
        return {"src": self.src, "stages": [s.id for s in self.stages]}


def random_pipeline(rng, pool):
    n = rng.choice([2, 2, 3, 3, 4])
    return Pipeline(rng.choice(["num", "num", "num", "dup", "err", "single", "empty"]),
                    [rng.choice(pool) for _ in range(n)])


def by_id(R):
    return {r.id: r for r in R}


def rebuild(R, d):
    """recipe / pipeline from its replay description"""
    ids = by_id(R)
    if isinstance(d, dict):
        return Pipeline(d["src"], [ids[i] for i in d["stages"]])
    return ids[d]


def shrink_pipeline(p, fails):
    """greedy: drop stages while the failure persists"""
    cur = p
    changed = True
    while changed and len(cur.stages) > 1:
        changed = False
        for i in range(len(cur.stages)):
            cand = Pipeline(cur.src, cur.stages[:i] + cur.stages[i + 1:])
            try:
                if fails(cand):
                    cur, changed = cand, True
                    break
            except Exception:
                pass
    return cur


# --------------------------------------------------------------------------- translator verdict
def table_verdict(chk, prop):
    """Runs the translator's analysis (python) and lets Coq evaluate entry_ok_<prop> on the GENERATED
    table; the two verdicts per row must agree (a tie of its own).  Returns dict or None."""
    import lib
    from translate import alloc_tr
    try:
        a = alloc_tr.analyse(lib.REPO)
    except Exception as ex:       # already reported by build_and_prove as translator:alloc
        chk.notes.append(f"translator refused the source: {type(ex).__name__}: {ex}")
        return None
    rows = alloc_tr.table_rows(a)
    py_bad = [i for i, row in enumerate(rows) if not alloc_tr.row_ok(row, prop)]
    rc, out = lib.coq_eval(prop, "rows", f"Eval vm_compute in (bad_idx entry_ok_{prop} alloc_table).\n"
                           "Eval vm_compute in (List.length alloc_table).",
                           "Base.Prelude Ops.Closure Gen.AllocTable")
    coq_bad = lib.parse_nat_list(out) if rc == 0 else None
    if coq_bad is None:
        chk.tie_broken("generated table does not evaluate in Coq", out[-1500:])
    elif coq_bad != py_bad:
        chk.tie_broken(f"entry_ok_{prop}: the kernel's verdict on the generated rows differs from the "
                       "translator's python twin", {"coq": coq_bad[:20], "python": py_bad[:20]})
    ents = a["entries"]
    flagged = {}
    for i in py_bad:
        q, st = rows[i][0], rows[i][1]
        flagged.setdefault(q, []).append(f"{st.rel}:{st.line} {st.name} [{st.kind}] allocated at "
                                         f"{alloc_tr.LNAME[st.alloc]}, written at {alloc_tr.LNAME[st.mut]}")
    per_level, per_kind = {}, {}
    for row in rows:
        st = row[1]
        per_level[alloc_tr.LNAME[st.alloc]] = per_level.get(alloc_tr.LNAME[st.alloc], 0) + 1
        per_kind[st.kind] = per_kind.get(st.kind, 0) + 1
    stats = {"public_functions_analysed": len(ents),
             "operators": sum(1 for r in ents.values() if not r["creation"]),
             "creation_functions": sum(1 for r in ents.values() if r["creation"]),
             "rows": len(rows), "rows_per_allocation_level": per_level, "rows_per_kind": per_kind,
             "multicast_family (excluded by C04)": sorted(q for q, r in ents.items() if r["multicast"]),
             "hot_or_terminal (allowlist)": sorted(q for q, r in ents.items() if r["hot"]),
             "benign_sites (allowlist)": sorted({f"{st.rel}:{st.name}" for row in rows for st in [row[1]]
                                                if st.benign}),
             "flagged_rows": flagged, "rows_checked_in_coq": len(rows) if coq_bad is not None else 0}
    deps = {q: set(r["deps"]) for q, r in ents.items()}
    for al, canon_name in a["aliases"].items():
        deps[al] = {canon_name}
    return {"flagged": flagged, "deps": deps, "stats": stats, "entries": ents, "aliases": a["aliases"]}


def closure(ops_used, deps):
    seen, todo = set(), list(ops_used)
    while todo:
        q = todo.pop()
        if q in seen:
            continue
        seen.add(q)
        todo.extend(deps.get(q, ()))
    return seen


def tie_table_vs_differential(chk, tv, failing, all_recipes, what):
    """failing: list of recipes/pipelines on which the differential oracle failed.
    Every failing case must use (transitively) an operator the table flags; every flagged operator
    must make at least one case fail that uses it."""
    if tv is None:
        return
    flagged = set(tv["flagged"]) - {q for q in tv["flagged"] if q.startswith("<module")}
    unexplained = []
    for r in failing:
        if not (closure(r.uses, tv["deps"]) & flagged):
            unexplained.append(r.id)
    silent = []
    for q in sorted(flagged):
        users = [r for r in all_recipes if q in closure(r.uses, tv["deps"])]
        if not any(r.id in {f.id for f in failing} for r in users):
            silent.append({"operator": q, "rows": tv["flagged"][q], "cases_using_it": len(users)})
    chk.cov["table_vs_differential"] = {
        "operators_flagged_by_table": sorted(flagged),
        "cases_failing_differential": sorted({r.id for r in failing})[:40],
        "failing_cases_not_explained_by_table": unexplained[:20],
        "flagged_operators_passing_differential": silent}
    if unexplained:
        chk.tie_broken(f"{what}: the differential run fails on cases in which the translator's table "
                       "flags no operator (the table misses an allocation site?)", unexplained[:20])
    if silent:
        chk.tie_broken(f"{what}: the table flags operators on which no differential case fails "
                       "(false alarm of the translator, or a case is missing)", silent)
