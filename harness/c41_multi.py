"""C41, oracle-only family `reinvoke`: ONE bridge object, SEVERAL invocations.

The property speaks about every invocation: "start and to_async emit the function's single result then
complete", "from_callback emits exactly one value ...", "from_future emits a future's result ...".  The other
families of props/C41.py build the bridge (rx.to_async(func, s), rx.from_callback(api, m), ...) and invoke it
exactly once, so state that leaks from one invocation into the next (a result holder, an argument list, a
handler, a future shared between invocations) stays invisible.  Here

  to_async       f = rx.to_async(func, scheduler) is built ONCE and invoked 2-4 times with different arguments
                 (func's outcome is a table on its arguments: different results, some calls raise);
  start          rx.start(func, scheduler) 2-4 times with the same func and scheduler (func's k-th call has the
                 k-th outcome of a generated list);
  from_callback  factory = rx.from_callback(api, mapper) is built ONCE, invoked 2-3 times with different
                 arguments; every returned observable is subscribed 1-2 times, every subscription's handler is
                 invoked (inside the api call and/or later) with its own argument lists;
  from_future    rx.from_future(F_i) / rx.start_async(fn) (the same fn, handing out F_i) for 2-3 futures with
                 their own outcomes, settled in any order.

Every invocation's observable gets 1-3 subscribers, each subscribed before or after the scheduled call ran
(proxy scheduler of k2m: the harness fires invocation i's action when the case says so, in any order relative
to the other invocations), some unsubscribe.  Schedulers: proxy, ImmediateScheduler, and the default
TimeoutScheduler threads (waited for under a 30 s budget).

Oracle (from the statement, never from a model): invocation i's observable delivers to every subscriber that
is still subscribed when both `the call ran` and `it subscribed` hold exactly [that invocation's result,
completed] or [on_error(that invocation's exception)] -- independent of every other invocation; a subscriber
never receives anything that is not a prefix of that; the function is called once per invocation that ran,
with that invocation's arguments."""
import importlib
import json
import threading
import time

import k2
import k2m
from k2 import UserError

KINDS = ["to_async", "start", "from_callback", "from_future"]
FOREIGN = 79                             # outcome of a function call nobody asked for


TIMEOUTS = [0]                           # waits on the default scheduler's threads that ran out


def budget():
    """30 s for a timer thread to deliver; once that has failed, later waits of the run get 1 s (a library that
    never delivers would otherwise cost a minute per case)"""
    return 30 if not TIMEOUTS[0] else 1


def _h():
    return importlib.import_module("props.C41")


def key(i, j):
    return f"{i}.{j}"


def interleave(rng, seqs):
    """random merge of the per-invocation action lists (each keeps its own order)"""
    seqs = [list(s) for s in seqs if s]
    out = []
    while seqs:
        s = rng.choice(seqs)
        out.append(s.pop(0))
        if not s:
            seqs.remove(s)
    return out


def inv_actions(rng, i, n_subs, with_run, p_unsub, mid="run"):
    """call i; then, in random order, the run / settle of invocation i and its subscriptions; unsubscriptions
    at a random later position"""
    items = [["sub", i, j] for j in range(n_subs)] + ([[mid, i]] if with_run else [])
    rng.shuffle(items)
    for j in range(n_subs):
        if rng.random() < p_unsub:
            at = items.index(["sub", i, j])
            items.insert(rng.randrange(at + 1, len(items) + 1), ["unsub", i, j])
    return [["call", i]] + items


# ---- generators --------------------------------------------------------------------------------------------

def gen_outcome(rng):
    pool = _h().POOL
    return rng.choice([["ok", rng.choice(pool)], ["ok", rng.choice(pool)], ["raise", rng.choice([71, 72, 73])]])


def distinct_outcomes(rng, n):
    while True:
        rs = [gen_outcome(rng) for _ in range(n)]
        if len({json.dumps(r) for r in rs}) > 1:
            return rs


def gen_async(rng, kind, sched=None):
    sched = sched or rng.choice(["proxy", "proxy", "proxy", "immediate"])
    n = rng.choice([2, 2, 3, 4])
    rs = distinct_outcomes(rng, n)
    invs = []
    for i in range(n):
        if kind == "start":
            invs.append({"args": []})
            continue
        while True:
            args = [rng.randrange(10) for _ in range(rng.choice([1, 1, 2, 3]))]
            if all(args != v["args"] for v in invs):
                break
        invs.append({"args": args, "r": rs[i]})
    if kind == "to_async" and rng.random() < 0.15:      # the same arguments again: a separate call, the same result
        invs.append(dict(rng.choice(invs)))
    per = []
    for i in range(len(invs)):
        with_run = sched == "proxy" and rng.random() < 0.9
        per.append(inv_actions(rng, i, rng.choice([1, 1, 2, 3]), with_run, 0.0 if sched == "default" else 0.2))
    if rng.random() < 0.3:                              # plain usage: one invocation after the other
        acts = [a for p in per for a in p]
    else:
        acts = interleave(rng, per)
    c = {"family": "reinvoke", "kind": kind, "sched": sched, "invs": invs, "acts": acts}
    if kind == "start":
        c["outs"] = rs
    return c


def gen_from_callback(rng):
    n = rng.choice([2, 2, 3])
    invs, per = [], []
    for i in range(n):
        while True:
            api_args = [rng.randrange(10) for _ in range(rng.choice([0, 1, 1, 2]))]
            if all(api_args != v["api_args"] for v in invs):
                break
        subs, seq = [], [["call", i]]
        for j in range(rng.choice([1, 1, 2])):
            cbs = [[rng.randrange(10) for _ in range(rng.choice([0, 1, 1, 2, 3]))] for _ in range(rng.choice([1, 1, 2]))]
            sync = rng.randrange(len(cbs) + 1)
            subs.append({"cbs": cbs, "sync": sync})
            seq.append(["sub", i, j])
            for _ in range(len(cbs) - sync):
                if rng.random() < 0.85:
                    seq.insert(rng.randrange(seq.index(["sub", i, j]) + 1, len(seq) + 1), ["cb", i, j])
        invs.append({"api_args": api_args, "subs": subs})
        per.append(seq)
    return {"family": "reinvoke", "kind": "from_callback",
            "mapper": rng.choice([None, None, "sum", "len", "raise_on_empty"]), "invs": invs,
            "acts": interleave(rng, per)}


def gen_from_future(rng):
    pool = _h().POOL
    n = rng.choice([2, 2, 3])

    def outcome():
        return rng.choice([["result", rng.choice(pool)], ["result", rng.choice(pool)], ["exn", rng.choice([11, 12])],
                           ["cancelled"]])
    invs, per = [], []
    for i in range(n):
        init = ["pending"] if rng.random() < 0.7 else outcome()
        invs.append({"init": init, "settle": outcome()})
        per.append(inv_actions(rng, i, rng.choice([1, 2, 2, 3]), init == ["pending"] and rng.random() < 0.9, 0.15,
                               mid="settle"))
    return {"family": "reinvoke", "kind": "from_future", "fkind": rng.choice(["cf", "aio"]),
            "via": rng.choice(["from_future", "start_async"]), "invs": invs, "acts": interleave(rng, per)}


def gen(rng):
    kind = rng.choice(["to_async", "to_async", "start", "from_callback", "from_future"])
    if kind in ("to_async", "start"):
        return gen_async(rng, kind)
    return gen_from_callback(rng) if kind == "from_callback" else gen_from_future(rng)


def gen_default(rng):
    return gen_async(rng, rng.choice(["to_async", "to_async", "start"]), "default")


def forced():
    """plain usage, in every run: the converted function invoked twice / three times in a row"""
    out = []
    for sched in ("proxy", "immediate", "default"):
        run = (lambda i: [["run", i]]) if sched == "proxy" else (lambda i: [])
        for rs in ([["ok", 2], ["ok", 42]], [["raise", 71], ["ok", 2]], [["ok", None], ["raise", 72], ["ok", 0]]):
            invs = [{"args": [i + 1, 7], "r": r} for i, r in enumerate(rs)]
            seq = [a for i in range(len(rs)) for a in [["call", i]] + run(i) + [["sub", i, 0], ["sub", i, 1]]]
            out.append({"family": "reinvoke", "kind": "to_async", "sched": sched, "invs": invs, "acts": seq})
            out.append({"family": "reinvoke", "kind": "start", "sched": sched, "invs": [{"args": []} for _ in rs],
                        "outs": rs, "acts": seq})
        if sched == "proxy":                            # subscribed before the call runs; calls run in reverse order
            invs = [{"args": [3], "r": ["ok", 6]}, {"args": [4], "r": ["ok", 8]}]
            seq = [["call", 0], ["call", 1], ["sub", 0, 0], ["sub", 1, 0], ["run", 1], ["run", 0], ["sub", 0, 1],
                   ["sub", 1, 1]]
            out.append({"family": "reinvoke", "kind": "to_async", "sched": sched, "invs": invs, "acts": seq})
            out.append({"family": "reinvoke", "kind": "start", "sched": sched, "invs": [{"args": []}, {"args": []}],
                        "outs": [["ok", 6], ["ok", 8]], "acts": seq})
    for m in (None, "sum"):
        out.append({"family": "reinvoke", "kind": "from_callback", "mapper": m,
                    "invs": [{"api_args": [1], "subs": [{"cbs": [[5, 6]], "sync": 1}, {"cbs": [[7]], "sync": 0}]},
                             {"api_args": [2, 3], "subs": [{"cbs": [[8, 9]], "sync": 0}]}],
                    "acts": [["call", 0], ["call", 1], ["sub", 0, 0], ["sub", 1, 0], ["sub", 0, 1], ["cb", 1, 0],
                             ["cb", 0, 1]]})
    for fk in ("cf", "aio"):
        for via in ("from_future", "start_async"):
            out.append({"family": "reinvoke", "kind": "from_future", "fkind": fk, "via": via,
                        "invs": [{"init": ["pending"], "settle": ["result", 4]}, {"init": ["pending"], "settle": ["exn", 11]},
                                 {"init": ["result", 0], "settle": ["result", 9]}],
                        "acts": [["call", 0], ["call", 1], ["call", 2], ["sub", 0, 0], ["sub", 1, 0], ["sub", 2, 0],
                                 ["settle", 1], ["settle", 0], ["sub", 0, 1], ["sub", 1, 1]]})
    return out


# ---- runners -----------------------------------------------------------------------------------------------

def run_async(c):
    import reactivex as rx
    from reactivex.scheduler import ImmediateScheduler
    H = _h()
    env = k2m.Env()
    mode = c["sched"]
    sched = k2m.make_scheduler(env) if mode == "proxy" else (ImmediateScheduler() if mode == "immediate" else None)
    invs, calls, lock, tag = c["invs"], [], threading.Lock(), [0]
    table = {json.dumps(v["args"]): v["r"] for v in invs if "r" in v}

    def func(*args):
        with lock:
            k = len(calls)
            calls.append([plain(x) for x in args])
        if c["kind"] == "start":
            r = c["outs"][k] if k < len(c["outs"]) else ["raise", FOREIGN]
        else:
            r = table.get(json.dumps(list(args)), ["raise", FOREIGN])
        if r[0] == "raise":
            raise UserError(r[1])
        return r[1]

    def bridge(*a):
        return rx.to_async(*a) if sched is None else rx.to_async(*a, sched)
    f = bridge(func) if c["kind"] == "to_async" else None
    obs, timers, notes, disp, n_called, finished = {}, {}, {}, {}, 0, True
    for k, a in enumerate(c["acts"]):
        tag[0] = k
        i = a[1]
        if a[0] == "call":
            before = set(env.timers)
            if c["kind"] == "to_async":
                obs[i] = f(*invs[i]["args"])
            else:
                obs[i] = rx.start(func) if sched is None else rx.start(func, sched)
            timers[i] = [t for t in env.timers if t not in before]
            n_called += 1
            if mode == "default" and c["kind"] == "start":
                # func's outcome is positional: let the timer thread enter func before the next start()
                limit = time.monotonic() + budget()
                while len(calls) < n_called and time.monotonic() < limit:
                    time.sleep(0.0005)
                TIMEOUTS[0] += len(calls) < n_called
        elif a[0] == "run":
            for t in timers.get(i, []):
                if t in env.timers:
                    sched.fire(t)
        elif a[0] == "sub":
            out = notes.setdefault(key(i, a[2]), [])
            disp[key(i, a[2])] = obs[i].subscribe(*H.logger(out, tag))
        elif a[0] == "unsub":
            disp[key(i, a[2])].dispose()
    if mode == "default":
        gone = {key(a[1], a[2]) for a in c["acts"] if a[0] == "unsub"}
        limit = time.monotonic() + budget()
        while True:
            finished = len(calls) >= n_called and all(any(n[1] in "EC" for n in list(out))
                                                       for kk, out in notes.items() if kk not in gone)
            if finished or time.monotonic() > limit:
                break
            time.sleep(0.0005)
        TIMEOUTS[0] += not finished
    return {"notes": {kk: [list(n) for n in out] for kk, out in notes.items()}, "received": list(calls),
            "finished": finished, "timers": {str(i): len(t) for i, t in timers.items()}}


def plain(x):
    """arguments as JSON values (anything else the library hands over is shown by its type name)"""
    if x is None or isinstance(x, (int, str)):
        return x
    if isinstance(x, (list, tuple)):
        return [plain(y) for y in x]
    return f"<{type(x).__name__}>"


def cb_val(v):
    return ["list", plain(v)] if isinstance(v, (list, tuple)) else (["none"] if v is None else ["one", plain(v)])


def run_from_callback(c):
    import reactivex as rx
    H = _h()
    invs, tag, cur = c["invs"], [0], [None]
    received, handlers, notes, obs, used = {}, {}, {}, {}, {}

    def api(*a):
        kk = cur[0]
        received.setdefault(str(kk), []).append([plain(x) for x in a[:-1]])
        if kk is None:
            return
        handlers[kk] = a[-1]
        i, j = (int(x) for x in kk.split("."))
        s = invs[i]["subs"][j]
        for inv in s["cbs"][:s["sync"]]:
            used[kk] = used.get(kk, 0) + 1
            try:
                a[-1](*inv)
            except Exception:             # the handler raised into the API that invoked it
                notes.setdefault(kk, []).append([tag[0], "E", k2.ESCAPED])
    factory = rx.from_callback(api, H.py_mapper(c["mapper"]))
    for k, a in enumerate(c["acts"]):
        tag[0] = k
        i = a[1]
        if a[0] == "call":
            obs[i] = factory(*invs[i]["api_args"])
        elif a[0] == "sub":
            kk = key(i, a[2])
            out = notes.setdefault(kk, [])
            cur[0] = kk
            try:
                obs[i].subscribe(*H.logger(out, tag, cb_val))
            finally:
                cur[0] = None
        elif a[0] == "cb":
            kk = key(i, a[2])
            s = invs[i]["subs"][a[2]]
            n = max(used.get(kk, 0), s["sync"])
            if kk in handlers and n < len(s["cbs"]):
                used[kk] = n + 1
                try:
                    handlers[kk](*s["cbs"][n])
                except Exception:
                    notes.setdefault(kk, []).append([k, "E", k2.ESCAPED])
    return {"notes": {kk: [list(n) for n in out] for kk, out in notes.items()}, "received": received}


def run_from_future(c):
    import reactivex as rx
    H = _h()
    invs, tag, cur = c["invs"], [0], [None]
    futs, obs, notes, disp = {}, {}, {}, {}

    def function_async():                 # the same function for every start_async: hands out the current future
        return futs[cur[0]]
    for k, a in enumerate(c["acts"]):
        tag[0] = k
        i = a[1]
        if a[0] == "call":
            futs[i] = H.SpyAio() if c["fkind"] == "aio" else H.SpyCF()
            H.settle(futs[i], invs[i]["init"])
            cur[0] = i
            obs[i] = rx.start_async(function_async) if c["via"] == "start_async" else rx.from_future(futs[i])
        elif a[0] == "sub":
            out = notes.setdefault(key(i, a[2]), [])
            disp[key(i, a[2])] = obs[i].subscribe(*H.logger(out, tag))
        elif a[0] == "settle":
            if not futs[i].done():
                H.settle(futs[i], invs[i]["settle"])
        elif a[0] == "unsub":
            disp[key(i, a[2])].dispose()
        H.spin()
    return {"notes": {kk: [list(n) for n in out] for kk, out in notes.items()},
            "fin": {str(i): list(H.fut_state(f)) for i, f in futs.items()}}


def run_case(c):
    if c["kind"] in ("to_async", "start"):
        return run_async(c)
    return run_from_callback(c) if c["kind"] == "from_callback" else run_from_future(c)


# ---- oracle ------------------------------------------------------------------------------------------------

def positions(c):
    return {json.dumps(a): k for k, a in enumerate(c["acts"])}


def subscribers(c):
    return [(a[1], a[2]) for a in c["acts"] if a[0] == "sub"]


def got(r, i, j):
    return [[a, b] for (_, a, b) in r["notes"].get(key(i, j), [])]


def is_prefix(xs, ys):
    return xs == ys[:len(xs)]


def oracle_async(c, r):
    pos, mode = positions(c), c["sched"]
    ran = [a[1] for a in c["acts"] if a[0] == ("run" if mode == "proxy" else "call")]
    if c["kind"] == "start":
        outcome = {i: c["outs"][k] for k, i in enumerate(ran)}
    else:
        outcome = {i: c["invs"][i]["r"] for i in ran}
    if mode == "default" and not r["finished"]:
        return f"no-termination: a call or a subscriber was still waiting when the wait budget (30 s) ran out on the default scheduler (received {r['notes']})"
    want_calls = [c["invs"][i]["args"] for i in ran]
    rec = r["received"]
    if mode == "default":
        rec, want_calls = sorted(rec), sorted(want_calls)
    if rec != want_calls:
        return f"calls: the function was called with {rec}, specified one call per invocation that ran: {want_calls}"
    for (i, j) in subscribers(c):
        ns = got(r, i, j)
        if i not in outcome:
            if ns:
                return f"never-ran: invocation {i}: the call never ran but subscriber {j} received {ns}"
            continue
        o = outcome[i]
        want = [["N", o[1]], ["C", None]] if o[0] == "ok" else [["E", o[1]]]
        un = pos.get(json.dumps(["unsub", i, j]))
        if mode == "default":
            live = un is None
        else:
            both = max(pos[json.dumps(["run" if mode == "proxy" else "call", i])], pos[json.dumps(["sub", i, j])])
            live = un is None or un > both
        if live and ns != want:
            return (f"delivery: invocation {i} {c['invs'][i]['args']} -> {o}: subscriber {j} received {ns}, "
                    f"specified {want}")
        if not is_prefix(ns, want):
            return f"foreign: invocation {i} -> {o}: subscriber {j} (unsubscribed) received {ns}, not part of {want}"
    return None


def oracle_from_callback(c, r):
    m = c["mapper"]
    H = _h()
    for (i, j) in subscribers(c):
        kk = key(i, j)
        inv = c["invs"][i]
        s = inv["subs"][j]
        rec = r["received"].get(kk, [])
        if rec != [inv["api_args"]]:
            return (f"calls: invocation {i}, subscription {j}: the wrapped function received {rec}, specified one call "
                    f"with {inv['api_args']}")
        n_later = sum(1 for a in c["acts"] if a == ["cb", i, j])
        invoked = s["cbs"][:s["sync"] + n_later]
        ns = got(r, i, j)
        if not invoked:
            if ns:
                return f"never-ran: invocation {i}, subscription {j}: handler never invoked but received {ns}"
            continue
        args = invoked[0]
        if m == "raise_on_empty" and not args:
            continue                      # a raising mapper: no value can be specified
        if m is None:
            v = ["none"] if not args else (["one", args[0]] if len(args) == 1 else ["list", args])
        else:
            v = ["one", H.py_mapper(m)(tuple(args))]
        want = [["N", v], ["C", None]]
        if ns != want:
            return (f"delivery: invocation {i}, subscription {j} (callback arguments {args}): received {ns}, specified "
                    f"exactly one value then completion {want}")
    return None


def oracle_from_future(c, r):
    H = _h()
    state, done_at, sub_at, un_at = {}, {}, {}, {}
    for k, a in enumerate(c["acts"]):
        i = a[1]
        if a[0] == "call":
            state[i] = list(c["invs"][i]["init"])
            if state[i][0] != "pending":
                done_at[i] = k
        elif a[0] == "settle" and state[i][0] == "pending":
            state[i], done_at[i] = list(c["invs"][i]["settle"]), k
        elif a[0] == "sub":
            sub_at[(i, a[2])] = k
        elif a[0] == "unsub":
            un_at[(i, a[2])] = k
            if state[i][0] == "pending":  # "cancels the future when unsubscribed first"
                state[i], done_at[i] = ["cancelled"], k
    for (i, j), at in sub_at.items():
        ns = got(r, i, j)
        if state[i][0] == "pending":
            if ns:
                return f"never-ran: future {i} is still pending but subscriber {j} received {ns}"
            continue
        s = state[i]
        want = {"result": [["N", s[1] if len(s) > 1 else None], ["C", None]], "exn": [["E", s[1] if len(s) > 1 else None]],
                "cancelled": [["E", H.CANCELLED]]}[s[0]]
        un = un_at.get((i, j))
        if (un is None or un > max(done_at[i], at)) and ns != want:
            return f"delivery: future {i} outcome {s}: subscriber {j} received {ns}, specified {want}"
    for i, s in state.items():
        fin = r["fin"][str(i)]
        if s[0] == "cancelled" and fin[0] != "cancelled":
            return f"cancel: future {i}: specified cancelled, it is {fin}"
    return None


def oracle(c, r):
    if c["kind"] in ("to_async", "start"):
        return oracle_async(c, r)
    return oracle_from_callback(c, r) if c["kind"] == "from_callback" else oracle_from_future(c, r)


def stats(c, hist):
    """histogram entries of this family (all prefixed reinvoke_)"""
    def inc(k, n=1):
        hist["reinvoke_" + k] = hist.get("reinvoke_" + k, 0) + n
    inc("cases_" + c["kind"])
    inc("invocations", len(c["invs"]))
    inc("subscribers", len(subscribers(c)))
    per = {}
    for (i, _) in subscribers(c):
        per[i] = per.get(i, 0) + 1
    inc("invocations_with_several_subscribers", sum(1 for n in per.values() if n > 1))
    if c["kind"] in ("to_async", "start"):
        inc("sched_" + c["sched"])
        pos = positions(c)
        for (i, j) in subscribers(c):
            rk = pos.get(json.dumps(["run", i]))
            if c["sched"] == "proxy" and rk is not None:
                inc("subscribed_before_the_call_ran" if pos[json.dumps(["sub", i, j])] < rk
                    else "subscribed_after_the_call_ran")
        rs = c.get("outs") or [v["r"] for v in c["invs"]]
        inc("raising_invocations", sum(1 for x in rs if x[0] == "raise"))
        inc("cases_raise_then_result", any(a[0] == "raise" and b[0] == "ok" for a, b in zip(rs, rs[1:])))
