"""Driver of the real EventLoopScheduler under the time-aware thread controller
(harness/k3_time.py), used by props/C31.py (and by rtdrv.py for C34).

A CASE is JSON:
  {"eie": bool,                      exit_if_empty
   "t0": int,                        initial clock (microseconds)
   "progs": [[op, ...], ...],        one list of calls per scheduling thread
   "bodies": {"<label>": [op, ...]}, calls made by the loop thread inside action <label>
   "ticks": [d, ...]}                the clock thread: k-th step advances the clock by d us
  op = ["now", a] | ["rel", d_us, a] | ["abs", t_us, a] | ["cancel", a] | ["dispose"]
     | ["periodic", p_us, a] | ["sleep", d_us]                (oracle-only extensions, see below)

Optional fields (all oracle-only except "repr" and "body_sched", which do not change the meaning of a case):
   "repr": "td" | "float"            how due times are handed to the scheduler: timedelta / datetime (default) or
                                     float seconds (relative: d_us / 1e6; absolute: POSIX timestamp of the instant)
   "body_sched": "outer" | "arg"     calls made inside an action go to the scheduler under test (default) or to the
                                     `scheduler` ARGUMENT the action was handed (the same object for an
                                     EventLoopScheduler; the inner one-shot EventLoopScheduler for NewThread/ThreadPool)
   "raises": [a, ...]                action a raises ActionError after its body instead of returning
   "pspec": {"<a>": {...}}           the periodic subscription made by ["periodic", p_us, a]:
        "fn", "st0"                  state transformer (ntpdrv.FNS) and initial state
        "as": "timedelta" | "float"  representation of the period
        "via": "direct" | "interval_factory" | "interval_subscribe"
                                     sch.schedule_periodic(period, tick, st0)  |  reactivex.interval(period, scheduler=sch)
                                     .subscribe(tick)  |  reactivex.interval(period).subscribe(tick, scheduler=sch)
        "max": n                     tick n-1 (and every later one) disposes the returned disposable from inside
        "raise_at": k | None         tick k raises ActionError
        "durs": [d_us, ...]          tick k takes durs[k % len] us of clock time (a controlled sleep inside the tick)
        "bodies": {"<k>": [op, ...]} calls made inside tick k
   ["sleep", d_us] parks the calling thread until the controlled clock advanced by d_us.

Log entries are (tid, clock_us, kind, label) with kind in
  call ret raise cancelcall cancelret disposecall disposeret check0 check1 start end spawn exit s0 lock
  araise (action a raised)   pstart a k state-id | pend a k returned-state-id | praise a k  (tick k of periodic a)
  pdisp a (a dispose() of the disposable returned for periodic a has returned)   thread-died
(`call`, `cancelcall`, `disposecall`, `s0`, `lock` are harness-side markers used by the oracle only;
 `check0/1` is the result of item.is_cancelled() observed by wrapping that method; `lock` = a thread entered
 `with self._condition:` of an EventLoopScheduler -- made by a loop thread outside any action it is the
 start of one of run()'s two locked blocks, so the items tested/started between two such markers belong
 to one batch)."""
from __future__ import annotations

import ast
import os
from datetime import timedelta

import k3
import k3_time as kt
import lib

lib.import_repo()
import reactivex.scheduler.eventloopscheduler as ELM  # noqa: E402
import reactivex.scheduler.scheduleditem as SIM  # noqa: E402
from reactivex.internal.exceptions import DisposedException  # noqa: E402
from ntpdrv import FNS as PFNS, sid  # noqa: E402   (pure state transformers of periodic actions)

EL_PATH = os.path.abspath(ELM.__file__)
SHARED = ("_is_disposed", "_thread", "_ready_list", "_queue")
FUNCS = ("schedule", "schedule_relative", "schedule_absolute", "_ensure_thread", "run", "dispose")


# --------------------------------------------------------------------------
# AST pass: atomicity structure of EventLoopScheduler
# --------------------------------------------------------------------------

def _tokens(node, lines, fn_name, locked):
    """tokens of one statement/expression, in source order"""
    out = []

    def is_cond_with(st):
        return (isinstance(st, ast.With) and len(st.items) == 1
                and ast.unparse(st.items[0].context_expr) == "self._condition")

    def expr(e):
        toks = []
        for n in ast.walk(e):
            if isinstance(n, ast.Attribute) and isinstance(n.value, ast.Name) and n.value.id == "self":
                if n.attr in SHARED:
                    toks.append((n.lineno, n.col_offset,
                                 ("W:" if isinstance(n.ctx, (ast.Store, ast.Del)) else "R:") + n.attr))
                elif n.attr == "now":
                    toks.append((n.lineno, n.col_offset, "NOW"))
            if isinstance(n, ast.Call):
                f = ast.unparse(n.func)
                if f in ("item.is_cancelled", "item.invoke", "self._condition.wait", "self._condition.notify",
                         "self._ensure_thread", "self.schedule_absolute", "thread.start",
                         "self._thread_factory"):
                    toks.append((n.lineno, n.col_offset, "CALL:" + f))
        toks.sort()
        for ln, _, t in toks:
            if not locked and (t.startswith(("R:", "W:")) or t == "CALL:item.is_cancelled"):
                lines.setdefault(fn_name, set()).add(ln)
        return [t for _, _, t in toks]

    def stmt(st):
        if is_cond_with(st):
            if locked:
                raise ValueError(f"{EL_PATH}:{st.lineno}: nested `with self._condition`")
            inner = []
            for s in st.body:
                inner += _tokens(s, lines, fn_name, True)
            return [["COND"] + inner]
        if isinstance(st, (ast.With, ast.Try, ast.AsyncWith, ast.Match)):
            raise ValueError(f"{EL_PATH}:{st.lineno}: unsupported statement {type(st).__name__}")
        if isinstance(st, (ast.If, ast.While)):
            r = expr(st.test)
            for s in st.body:
                r += stmt(s)
            for s in st.orelse:
                r += stmt(s)
            return r
        if isinstance(st, ast.For):
            r = expr(st.iter)
            for s in st.body:
                r += stmt(s)
            return r
        if isinstance(st, ast.Expr) and isinstance(st.value, ast.Constant):
            return []
        return expr(st)
    out += stmt(node)
    return out


def el_shape():
    """-> (shape {function: tokens}, yield_lines {function: set of lines}).  Fail-closed."""
    tree = ast.parse(open(EL_PATH).read())
    cls = [n for n in tree.body if isinstance(n, ast.ClassDef) and n.name == "EventLoopScheduler"]
    if len(cls) != 1:
        raise ValueError("class EventLoopScheduler not found")
    shape, lines = {}, {}
    for fn in cls[0].body:
        if isinstance(fn, ast.FunctionDef) and fn.name in FUNCS:
            toks = []
            for st in fn.body:
                toks += _tokens(st, lines, fn.name, False)
            shape[fn.name] = toks
    for f in FUNCS:
        if f not in shape:
            raise ValueError(f"EventLoopScheduler.{f} not found")
    return shape, lines


# the structure Core/EventLoop.v was written against
EXPECTED_SHAPE = {
    "schedule": ["CALL:self.schedule_absolute", "NOW"],
    "schedule_relative": ["CALL:self.schedule_absolute", "NOW"],
    "schedule_absolute": ["R:_is_disposed",
                          ["COND", "NOW", "R:_ready_list", "R:_queue", "CALL:self._condition.notify",
                           "CALL:self._ensure_thread"]],
    "_ensure_thread": ["R:_thread", "CALL:self._thread_factory", "W:_thread", "CALL:thread.start"],
    "run": [["COND", "R:_is_disposed", "NOW", "R:_queue", "R:_queue", "R:_ready_list", "R:_ready_list",
             "R:_ready_list", "R:_queue", "R:_ready_list", "R:_ready_list"],
            "CALL:item.is_cancelled", "CALL:item.invoke",
            ["COND", "R:_ready_list", "R:_queue", "NOW", "R:_queue", "CALL:self._condition.wait", "W:_thread",
             "CALL:self._condition.wait"]],
    "dispose": [["COND", "R:_is_disposed", "W:_is_disposed", "CALL:self._condition.notify"]],
}
EXPECTED_LINES = {"schedule_absolute": 1, "run": 1}     # number of unlocked yield lines per function


def targets(fine):
    shape, lines = el_shape()
    if fine:
        return {EL_PATH: {f: None for f in FUNCS}}
    # coarse: the unlocked shared accesses of schedule_absolute and run only (_ensure_thread is
    # called under the lock: no yield there)
    return {EL_PATH: {"schedule_absolute": lines.get("schedule_absolute", set()),
                      "run": lines.get("run", set())}}


def shape_check():
    """-> list of differences between the source's atomicity structure and the one the model assumes"""
    try:
        shape, lines = el_shape()
    except ValueError as e:
        return [f"AST pass refused the source: {e}"]
    diffs = []
    for f in FUNCS:
        if shape[f] != EXPECTED_SHAPE[f]:
            diffs.append({"function": f, "source": shape[f], "model_assumes": EXPECTED_SHAPE[f]})
    for f in ("schedule_absolute", "run"):
        if len(lines.get(f, ())) != EXPECTED_LINES[f]:
            diffs.append({"function": f, "unlocked_yield_lines": sorted(lines.get(f, ())),
                          "model_assumes": EXPECTED_LINES[f]})
    return diffs


# --------------------------------------------------------------------------
# running one case under one schedule
# --------------------------------------------------------------------------

class Result:
    pass


class ActionError(Exception):
    """the scripted exception of a raising action / periodic tick"""


def _install_check_hook(ctl_box):
    """wrap ScheduledItem.is_cancelled: log its result (harness-side observation of a call made by
    the loop thread; the method itself is untouched)"""
    orig = SIM.ScheduledItem.is_cancelled

    def is_cancelled(self):
        r = orig(self)
        c = ctl_box.get("c")
        lbl = getattr(self.action, "label", None)
        if c is not None and lbl is not None:
            c.emit("check1" if r else "check0", lbl)
        return r
    SIM.ScheduledItem.is_cancelled = is_cancelled
    return orig


def _install_lock_marker(sch, c):
    """harness-side observation of `with self._condition:` (the Condition object is the controlled one the
    module was rebound to; its class is swapped for a subclass that logs after acquiring)"""
    cond = getattr(sch, "_condition", None)
    if not isinstance(sch, ELM.EventLoopScheduler) or not isinstance(cond, kt.CCondition):
        return

    class SpyCondition(type(cond)):
        def __enter__(self):
            r = super().__enter__()
            c.emit("lock", 0)
            return r
    cond.__class__ = SpyCondition


class TC(kt.TController):
    def emit(self, *ev):
        self.log.append((self.tid(), self.clock.us) + tuple(ev))


def run_case(case, chooser, fine=False, make_scheduler=None, extra_targets=None, max_steps=3000,
             spy_entry_yield=True, op_entry_yield=False):
    """Runs the case on the real scheduler.  Must be called inside `with kt.Rebound() as rb`
    (passed as case-independent global RB).  -> Result(log, moves, trace, status, stuck, clockthread)"""
    clock = kt.Clock(case.get("t0", 0))
    RB.set_clock(clock)
    tg = targets(fine)
    if extra_targets:
        tg = dict(tg, **extra_targets)
    c = TC(tg, clock=clock, fine=fine, max_steps=max_steps)
    box = {"c": c}
    orig = _install_check_hook(box)
    try:
        sch = (make_scheduler or (lambda case: ELM.EventLoopScheduler(exit_if_empty=bool(case.get("eie")))))(case)
        _install_lock_marker(sch, c)
        bodies = {int(k): v for k, v in case.get("bodies", {}).items()}
        disp = {}
        actions = {}

        rep = case.get("repr", "td")
        body_arg = case.get("body_sched", "outer") == "arg"
        raises = set(case.get("raises", ()))
        pspec = {int(k): v for k, v in case.get("pspec", {}).items()}

        def rel_arg(d_us):
            return timedelta(microseconds=d_us) if rep in ("td", "tz") else d_us / 1e6

        def abs_arg(t_us):
            if rep == "tz":
                # the same instant written as an aware datetime of another timezone (west and east of UTC alternately)
                from datetime import timezone
                off = timedelta(hours=-5) if (t_us // 7) % 2 == 0 else timedelta(hours=5, minutes=30)
                return clock.at(t_us).astimezone(timezone(off))
            return clock.at(t_us) if rep == "td" else clock.at(t_us).timestamp()

        def do_op(op, on=None):
            k = op[0]
            tgt = sch if on is None else on
            if k in ("now", "rel", "abs"):
                a = op[-1]
                if op_entry_yield:
                    c.yield_point("call")
                c.emit("call", a)
                c.me().cur_call = a if k != "abs" else None
                try:
                    if k == "now":
                        d = tgt.schedule(action_of(a))
                    elif k == "rel":
                        d = tgt.schedule_relative(rel_arg(op[1]), action_of(a))
                    else:
                        d = tgt.schedule_absolute(abs_arg(op[1]), action_of(a))
                    disp[a] = d
                    c.emit("ret", a)
                except DisposedException:
                    c.emit("raise", a)
                finally:
                    c.me().cur_call = None
            elif k == "periodic":
                a = op[2]
                if op_entry_yield:
                    c.yield_point("call")
                c.emit("call", a)
                try:
                    d = start_periodic(tgt, a, op[1], pspec[a])
                    disp[a] = d
                    c.emit("ret", a)
                except DisposedException:
                    c.emit("raise", a)
            elif k == "cancel":
                a = op[1]
                c.yield_point("call")
                c.emit("cancelcall", a)
                d = disp.get(a)
                if d is not None:
                    d.dispose()
                    if a in pspec:
                        c.emit("pdisp", a)
                c.emit("cancelret", a)
            elif k == "dispose":
                c.emit("disposecall", 0)
                sch.dispose()
                c.emit("disposeret", 0)
            elif k == "sleep":
                dl = clock.us + max(0, int(op[1]))
                c.wait_until(lambda: False, dl, kind="sleep")
            else:
                raise ValueError(op)

        def action_of(a):
            if a not in actions:
                def action(scheduler, state, a=a):
                    if spy_entry_yield:
                        c.yield_point("call")
                    c.emit("start", a)
                    for op in bodies.get(a, []):
                        do_op(op, scheduler if body_arg else None)
                    c.yield_point("call")
                    if a in raises:
                        c.emit("araise", a)
                        raise ActionError(f"action {a}")
                    c.emit("end", a)
                    return None
                action.label = a
                actions[a] = action
            return actions[a]

        def start_periodic(tgt, a, p_us, spec):
            fn = PFNS[spec.get("fn", "count")]
            cnt = [0]
            tick_bodies = spec.get("bodies", {})
            durs = spec.get("durs") or [0]
            cap = int(spec.get("max", 3))

            def tick(state):
                k = cnt[0]
                cnt[0] += 1
                try:
                    s_id = sid(state)
                except ValueError:
                    s_id = -7777777
                # no yield point before this marker: its clock is the clock the scheduler read last before the call
                c.emit("pstart", a, k, s_id)
                c.yield_point("call")
                d_us = int(durs[k % len(durs)])
                if d_us > 0:
                    c.wait_until(lambda: False, clock.us + d_us, kind="sleep")
                for op in tick_bodies.get(str(k), []):
                    do_op(op)
                if k >= cap - 1 and disp.get(a) is not None:
                    c.emit("cancelcall", a)
                    disp[a].dispose()
                    c.emit("pdisp", a)
                    c.emit("cancelret", a)
                c.yield_point("call")
                if spec.get("raise_at") == k:
                    c.emit("praise", a, k)
                    raise ActionError(f"tick {k} of periodic {a}")
                try:
                    ret = fn(state)
                except (TypeError, KeyError):      # a state the transformer is not defined on (wrong threading)
                    ret = None
                c.emit("pend", a, k, sid(ret))
                return ret
            period = timedelta(microseconds=p_us) if spec.get("as", "timedelta") == "timedelta" else p_us / 1e6
            via = spec.get("via", "direct")
            if via == "direct":
                return tgt.schedule_periodic(period, tick, spec.get("st0", 0))
            import reactivex
            if via == "interval_factory":
                return reactivex.interval(period, scheduler=tgt).subscribe(lambda v: tick(v))
            if via == "interval_subscribe":
                return reactivex.interval(period).subscribe(lambda v: tick(v), scheduler=tgt)
            raise ValueError(via)

        real_now = clock.now

        def now():
            t = c.me()
            r = real_now()
            if t is not None and getattr(t, "cur_call", None) is not None:
                c.emit("s0", t.cur_call)
                t.cur_call = None
            return r
        clock.now = now

        def mk(prog):
            def body():
                for op in prog:
                    do_op(op)
            return body
        for p in case["progs"]:
            c.spawn(mk(p))
        clk = None
        if case.get("ticks"):
            clk = c.spawn_clock(case["ticks"])
        err = None
        try:
            c.run(chooser)
        except k3.ControllerError as e:
            err = repr(e)
        r = Result()
        r.error = err
        r.log = [tuple(e) for e in c.log]
        r.moves = list(c.moves)
        r.trace = list(c.trace)
        r.schedule = [x for x, _ in c.trace]
        r.stuck = list(c.stuck)
        r.nprogs = len(case["progs"])
        r.clock_tid = clk
        r.final_clock = clock.us
        r.labels = {t.tid: getattr(t, "label", "prog") for t in c.threads}
        r.waiting = [t.tid for t in c.threads if t.tid in c.stuck and getattr(t, "waitkind", None) == "wait"]
        r.status = {}
        for t in c.threads:
            if t.tid == clk:
                continue
            if t.tid not in c.stuck:
                r.status[t.tid] = 1
            else:
                r.status[t.tid] = 2 if getattr(t, "last_kind", None) == "wait" else 0
        r.sched = sch
        return r
    finally:
        SIM.ScheduledItem.is_cancelled = orig
        RB.set_clock(kt.Clock(0))


RB = None     # the active k3_time.Rebound (set by `rebound()`)


class rebound:
    def __enter__(self):
        global RB
        self.rb = kt.Rebound()
        self.rb.__enter__()
        RB = self.rb
        return self.rb

    def __exit__(self, *a):
        global RB
        RB = None
        return self.rb.__exit__(*a)


# --------------------------------------------------------------------------
# Gallina
# --------------------------------------------------------------------------

KIND = {"ret": 0, "raise": 1, "cancelret": 2, "disposeret": 3, "check0": 4, "check1": 5, "start": 6, "end": 7,
        "spawn": 8, "exit": 9}


def g_op(op):
    k = op[0]
    if k == "now":
        return f"SchedNow {op[1]}%nat"
    if k == "rel":
        return f"SchedRel {lib.gz(op[1])} {op[2]}%nat"
    if k == "abs":
        return f"SchedAbs {lib.gz(op[1])} {op[2]}%nat"
    if k == "cancel":
        return f"Cancel {op[1]}%nat"
    return "Dispose"


def g_ops(ops):
    return "[" + "; ".join(g_op(o) for o in ops) + "]"


def model_tid(r, tid):
    """the clock thread is not a thread of the model"""
    if r.clock_tid is not None and tid > r.clock_tid:
        return tid - 1
    return tid


def g_case(case, r):
    """-> (gallina input, gallina expected outcome)"""
    bodies = "[" + "; ".join(f"({int(a)}%nat, {g_ops(b)})" for a, b in sorted(case.get("bodies", {}).items(),
                                                                               key=lambda kv: int(kv[0]))) + "]"
    progs = "[" + "; ".join(g_ops(p) for p in case["progs"]) + "]"
    mv = []
    for m in r.moves:
        if m[0] == "tick":
            if m[1] > 10_000_000:
                raise ValueError("Core/EventLoop.v counts clock steps in unary nat: no long delays in C31 model cases")
            mv.append(f"MTick {m[1]}%nat")
        else:
            mv.append(f"MStep {model_tid(r, m[1])}%nat")
    inp = f"({lib.gbool(case.get('eie'))}, {bodies}, {lib.gz(case.get('t0', 0))}, {progs}, [{'; '.join(mv)}])"
    obs = []
    for e in r.log:
        tid, us, kind = e[0], e[1], e[2]
        if kind not in KIND:
            continue
        if kind == "spawn":
            lbl = model_tid(r, e[4])
        elif kind == "exit":
            lbl = 0
        else:
            lbl = e[3] if len(e) > 3 else 0
        obs.append(f"({model_tid(r, tid)}%nat, {lib.gz(us)}, ({KIND[kind]}%nat, {lbl}%nat))")
    st = [r.status[t] for t in sorted(r.status)]
    out = f"([{'; '.join(obs)}], [{'; '.join(str(x) + '%nat' for x in st)}])"
    return inp, out


CASE_TY = ("(bool * list (nat * list op) * Z * list (list op) * list move) * "
           "(list (nat * Z * (nat * nat)) * list nat)")
MODEL_FN = ("(fun c => match c with (e, b, t0, progs, sched) => "
            "outcome (run e (body_of b) (init t0 progs) sched) end)")
IMPORTS = "Base.Prelude Core.EventLoop"


# --------------------------------------------------------------------------
# oracle: the statement of C31 (and the not-early / cancelled parts of C34) on the
# implementation's log.  Never consults the model.
# --------------------------------------------------------------------------

WINDOW_SIG = "C31 cancel-in-dispatch-window|cancel() returned between is_cancelled() and invoke()"
# The class "dispose() returned after the victim's last is_cancelled() test and before its invoke()" is refined
# by WHAT HAPPENED INSIDE THAT WINDOW, so that different histories of the class get different signatures:
#   |<what the loop did in the window>|<who called the dispose()>
# The unchanged code has exactly one of them (Core/EventLoopBatch.v: el_test_right_before_invoke -- the loop does
# nothing between an item's test and its start, so only a scheduling thread can cancel there):
WINDOW_KNOWN = WINDOW_SIG + "|nothing else ran in the window|dispose() called by a scheduling thread"


def window_signature(log, a, i_check, i_start, i_cc):
    """signature of a dispatch-window violation of action `a`: the victim's last is_cancelled() -> False is at
    log position i_check, its start at i_start, the cancelling dispose() was called at i_cc (i_check < i_cc < i_start)"""
    loop_tid = log[i_start][0]
    inside = [e for e in log[i_check + 1:i_start]
              if e[2] in ("check0", "check1", "start", "end") and not (e[2] in ("check0", "check1") and e[3] == a)]
    started = sorted({e[3] for e in inside if e[2] == "start"})
    if started:
        what = "other action(s) of this scheduler started in the window"
    elif inside:
        what = "other item(s) of this scheduler were tested or ended in the window"
    else:
        what = "nothing else ran in the window"
    # who cancelled: a scheduling thread, or an action running on the loop thread -- of the victim's batch or not
    ctid = log[i_cc][0]
    open_ = None
    for e in log[:i_cc]:
        if e[0] == ctid and e[2] == "start":
            open_ = e[3]
        elif e[0] == ctid and e[2] == "end":
            open_ = None

    def batch_of(i):
        """position of the last locked block the loop thread entered on its own (outside any action) before i"""
        b, running = None, False
        for k, e in enumerate(log[:i + 1]):
            if e[0] != loop_tid:
                continue
            if e[2] == "start":
                running = True
            elif e[2] == "end":
                running = False
            elif e[2] == "lock" and not running:
                b = k
        return b
    if open_ is None:
        who = "dispose() called by a scheduling thread"
    else:
        i_first = next((k for k, e in enumerate(log) if e[2] in ("check0", "check1") and e[3] == open_), None)
        same = (ctid == loop_tid and i_first is not None and any(e[2] == "lock" for e in log)
                and batch_of(i_first) == batch_of(i_check))
        who = ("dispose() called by an earlier action of the same batch" if same
               else "dispose() called by an action of another batch")
    return f"{WINDOW_SIG}|{what}|{who}", started, open_


def all_ops(case):
    """every op of the case: programs, action bodies, bodies of periodic ticks"""
    out = [op for p in case["progs"] for op in p] + [op for b in case.get("bodies", {}).values() for op in b]
    for sp in case.get("pspec", {}).values():
        out += [op for b in sp.get("bodies", {}).values() for op in b]
    return out


def oracle(case, r, single_loop_thread=True):
    """-> list of (signature, message)"""
    bad = []
    log = r.log
    pos = {}

    def first(kind, a):
        return pos.get((kind, a))
    for i, e in enumerate(log):
        key = (e[2], e[3] if len(e) > 3 else 0)
        pos.setdefault(key, i)
    if r.error:
        bad.append(("C31 controller-error|" + r.error.split("(")[0], r.error))
        return bad
    spawned = [e[4] for e in log if e[2] == "spawn"]
    progs = set(range(r.nprogs))
    pspec = {int(k): v for k, v in case.get("pspec", {}).items()}
    # a thread that dies is a violation unless the statement is silent about it: (a) the scripted ActionError of a
    # raising action / tick (coverage only: the text says nothing about raising actions on this scheduler), (b) the
    # DisposedException raised INSIDE the loop thread by the re-scheduling call of a periodic tick once dispose() of
    # the scheduler was called ("scheduling raises DisposedException")
    raised = any(e[2] in ("araise", "praise") for e in log)
    died = []
    for i, e in enumerate(log):
        if e[2] == "thread-died":
            died.append(e[0])
            if e[3] == "ActionError" and any(x[0] == e[0] and x[2] in ("araise", "praise") for x in log[:i]):
                continue
            if e[3] == "DisposedException" and pspec and e[0] in spawned \
                    and any(x[2] == "disposecall" for x in log[:i]):
                continue
            bad.append((f"C31 thread-died|{e[3]}", f"thread {e[0]} died: {e[3:]}"))
    # 1. thread identity
    cur_loop = None
    for e in log:
        if e[2] == "spawn":
            cur_loop = e[4]
        if e[2] in ("start", "end", "check0", "check1", "araise", "pstart", "pend", "praise"):
            if e[0] in progs or e[0] not in spawned:
                bad.append(("C31 action-on-foreign-thread|", f"{e[2]} of action {e[3]} on thread {e[0]}, "
                                                             f"loop threads {spawned}"))
            elif single_loop_thread and e[0] != cur_loop:
                bad.append(("C31 two-loop-threads|", f"{e[2]} of action {e[3]} on thread {e[0]} while the "
                                                     f"scheduler's thread is {cur_loop}"))
    if single_loop_thread and not case.get("eie") and len(spawned) > 1:
        bad.append(("C31 second-thread-without-exit_if_empty|", f"threads started: {spawned}"))
    # 2. never two at once
    open_ = None
    for e in log:
        if e[2] in ("start", "pstart"):
            if open_ is not None:
                bad.append(("C31 overlap|", f"action {e[3]} started on thread {e[0]} while action {open_[3]} "
                                            f"runs on thread {open_[0]}"))
            open_ = e
        elif e[2] in ("end", "araise", "pend", "praise"):
            # an action's body may run nested only via the scheduler; the spy never nests
            open_ = None
    starts = [e for e in log if e[2] == "start"]
    nstart = {}
    for e in starts:
        nstart[e[3]] = nstart.get(e[3], 0) + 1
    for a, n in nstart.items():
        if n > 1:
            bad.append(("C31 ran-twice|", f"action {a} started {n} times"))
    # due times, as requested, on the scheduler clock
    kind_of, due, s2clock = {}, {}, {}
    allops = all_ops(case)
    per_of = {}
    for op in allops:
        if op[0] in ("now", "rel", "abs"):
            kind_of[op[-1]] = op
        elif op[0] == "periodic":
            per_of[op[2]] = op
    for a, op in kind_of.items():
        if op[0] == "abs":
            due[a] = op[1]
        else:
            i = first("s0", a)
            if i is not None:
                due[a] = log[i][1] + (max(0, op[1]) if op[0] == "rel" else 0)
        i = first("ret", a)
        if i is not None:
            s2clock[a] = log[i][1]
    # 3. not early
    for e in starts:
        a = e[3]
        if a in due and e[1] < due[a]:
            bad.append(("C31 early|", f"action {a} due {due[a]} started at {e[1]}"))
    immediate = {a for a in s2clock if a in due and due[a] <= s2clock[a]}
    timed = {a for a in s2clock if a in due and due[a] > s2clock[a]}
    # 4. submission order of immediately-due actions (submission order is defined when one call
    #    returned before the other was made)
    for a in immediate:
        for b in immediate:
            if a != b and first("ret", a) is not None and first("call", b) is not None \
                    and first("ret", a) < first("call", b) \
                    and first("start", b) is not None \
                    and first("start", a) is not None and first("start", a) > first("start", b):
                bad.append(("C31 fifo|", f"immediate action {a} submitted before {b} but started after it"))
    # 5. due-time order of timed actions
    for a in timed:
        for b in timed:
            if due[a] < due[b] and first("start", a) is not None and first("start", b) is not None \
                    and first("start", a) > first("start", b):
                bad.append(("C31 due-order|", f"timed action {a} (due {due[a]}) started after {b} (due {due[b]})"))
    # 6. cancelled before it starts => never runs   (STRICT reading)
    for e in starts:
        a = e[3]
        i_start = first("start", a)
        i_canc = first("cancelret", a)
        if i_canc is not None and i_canc < i_start and first("ret", a) is not None \
                and first("ret", a) < first("cancelcall", a):
            chk = [i for i, x in enumerate(log) if x[2] == "check0" and x[3] == a and i < i_start]
            if chk and chk[-1] < first("cancelcall", a):
                sig, started, by = window_signature(log, a, chk[-1], i_start, first("cancelcall", a))
                bad.append((sig, f"action {a}: is_cancelled() -> False at log position {chk[-1]}, "
                                 f"cancel() called and returned at {first('cancelcall', a)}..{i_canc} on thread "
                                 f"{log[i_canc][0]}" + (f" (inside action {by})" if by is not None else "") +
                                 f", action started at {i_start} on thread {log[i_start][0]}; actions started "
                                 f"between the test and the start: {started}"))
            else:
                bad.append(("C31 cancelled-action-ran|", f"action {a} cancelled at log position {i_canc}, "
                                                         f"started at {i_start}"))
    # 7. after dispose() returned: schedule raises, nothing scheduled afterwards runs
    i_disp = first("disposeret", 0)
    if i_disp is not None:
        for a in list(kind_of) + list(per_of):
            ic = first("call", a)
            if ic is not None and ic > i_disp:
                what = "schedule_periodic" if a in per_of else "schedule"
                if first("raise", a) is None:
                    bad.append(("C31 no-DisposedException|" + ("periodic" if a in per_of else ""),
                                f"{what} of action {a} after dispose() returned did not raise"))
                if first("pstart" if a in per_of else "start", a) is not None:
                    bad.append(("C31 ran-after-dispose|" + ("periodic" if a in per_of else ""),
                                f"action {a} ({what}) scheduled after dispose() returned ran"))
    # 8. quiescence: nothing lost, threads where they should be
    stuck_other = [t for t in r.stuck if t not in spawned and t != r.clock_tid]
    if stuck_other:
        bad.append(("C31 deadlock|", f"threads {stuck_other} blocked for ever"))
    for t in r.stuck:
        if t in spawned and r.status.get(t) != 2:
            bad.append(("C31 deadlock|loop-thread", f"loop thread {t} blocked for ever outside Condition.wait"))
    has_dispose = any(op[0] == "dispose" for op in allops)
    cancelled_any = {op[1] for op in allops if op[0] == "cancel"}
    if not has_dispose and not stuck_other and not raised:
        for a in s2clock:
            if a in cancelled_any:
                continue
            if first("start", a) is None or first("end", a) is None:
                bad.append(("C31 lost|", f"action {a} accepted (due {due.get(a)}), not cancelled, never ran; "
                                         f"final clock {r.final_clock}"))
    nexit = sum(1 for e in log if e[2] == "exit") + len(set(died))
    if case.get("eie") and not stuck_other and not died and nexit != len(spawned):
        bad.append(("C31 exit_if_empty-thread-stays|", f"{len(spawned)} threads started, {nexit} exited"))
    if i_disp is not None and not stuck_other and nexit != len(spawned):
        # not part of the property: dispose() between the loop's two locked blocks loses its notification,
        # the loop thread then waits for ever (Props/C31.v: C31_ex_dispose_thread_sleeps)
        bad.append(("NOTE dispose-lost-wakeup", f"{len(spawned)} threads started, {nexit} exited"))
    if not case.get("eie") and i_disp is None and spawned and nexit and not died:
        bad.append(("C31 thread-exited-without-exit_if_empty|", f"{nexit} exits"))
    return bad


# --------------------------------------------------------------------------
# oracle for ["periodic", p, a]: the statement of C35 (and, with full=False, only the clauses C31 / C34 make about
# timed actions: not before the due time, not after a dispose() that preceded the due time) on the implementation's
# log.  Never consults a model.
# --------------------------------------------------------------------------

def expected_states(spec, n):
    """f^k(st0) for k < n, as ids"""
    via = spec.get("via", "direct")
    f = PFNS["count" if via != "direct" else spec.get("fn", "count")]
    s = 0 if via != "direct" else spec.get("st0", 0)
    out = []
    for _ in range(n):
        out.append(sid(s))
        s = f(s)
    return out


def periodic_oracle(case, r, kind, pid="C35", full=True):
    """-> [(signature, message)]; signatures start with `<pid> periodic|<kind>|`; the ones starting with "NOTE " are
    observations outside the statement (the dispatch window).

    Made precise for a real-time scheduler under the controlled clock, for every interleaving:
      * tick k is handed f^k(st0) (interval: the value k)                                         [full]
      * ticks of one subscription never overlap                                                     [full]
      * the first tick starts no earlier than one period after the clock reading at the call, tick k+1 no earlier
        than one period after the start of tick k (">=" only: how much later is scheduling latency)
      * stops once the returned disposable is disposed: tick k+1 must not start if some dispose() of the returned
        disposable had returned (i) before tick k ended, or (ii) at a clock reading before the earliest instant tick
        k+1 may be due (start of tick k + period; call + period for the first) -- the reading C34 gives for one-shot
        actions; and after a dispose() returned at most ONE more tick starts.  NOT demanded: that a dispose() from
        another thread which returns when the tick is already due prevents it (best effort; counted as a NOTE)
      * no tick after one raised                                                                     [full]
      * schedule_periodic raises only on an EventLoopScheduler after dispose() was called, and then nothing ticks
      * it keeps going: when nobody else stops it (no cancel op, no dispose() of the scheduler, no raising action)
        the run ends with the subscription disposed by tick max-1 itself                            [full]"""
    bad = []
    log = r.log
    if r.error:
        return [(f"{pid} periodic|{kind}|controller-error", r.error)]
    pspec = {int(k): v for k, v in case.get("pspec", {}).items()}
    allops = all_ops(case)
    raised_any = any(e[2] in ("araise", "praise") for e in log)
    sched_dispose = any(op[0] == "dispose" for op in allops)
    spawned = [e[4] for e in log if e[2] == "spawn"]
    stuck_other = [t for t in r.stuck if t not in spawned and t != r.clock_tid]
    for op in allops:
        if op[0] != "periodic":
            continue
        p, a = int(op[1]), op[2]
        spec = pspec[a]
        sig = f"{pid} periodic|{kind}|"
        i_call = next((i for i, e in enumerate(log) if e[2] == "call" and e[3] == a), None)
        if i_call is None:
            continue
        c_call = log[i_call][1]
        ticks = [(i, e[1], e[4], e[5]) for i, e in enumerate(log) if e[2] == "pstart" and e[3] == a]
        ends = {e[4]: i for i, e in enumerate(log) if e[2] in ("pend", "praise") and e[3] == a}
        i_raise = next((i for i, e in enumerate(log) if e[2] == "raise" and e[3] == a), None)
        if i_raise is not None:
            if not (kind == "eventloop" and any(e[2] == "disposecall" for e in log[:i_raise])):
                bad.append((sig + "schedule_periodic-raised", "schedule_periodic raised DisposedException although "
                                                              "dispose() of the scheduler had not been called"))
            if ticks:
                bad.append((sig + "ticked-although-schedule_periodic-raised", f"{len(ticks)} ticks"))
            continue
        if full:
            exp = expected_states(spec, len(ticks))
            for j, (i, clk, k, st) in enumerate(ticks):
                if st != exp[j]:
                    bad.append((sig + ("first-state-not-initial" if j == 0 else "state-not-threaded"),
                                f"tick {j} of periodic {a} got state id {st}, expected {exp[j]} "
                                f"(via {spec.get('via', 'direct')})"))
                    break
            for j in range(1, len(ticks)):
                if ends.get(ticks[j - 1][2]) is None or ends[ticks[j - 1][2]] > ticks[j][0]:
                    bad.append((sig + "ticks-overlap", f"tick {j} of periodic {a} started before tick {j - 1} ended"))
            i_pr = next((i for i, e in enumerate(log) if e[2] == "praise" and e[3] == a), None)
            if i_pr is not None and any(i > i_pr for i, _, _, _ in ticks):
                bad.append((sig + "invoked-after-raise", f"a tick of periodic {a} started after one raised"))
        # period
        if ticks and ticks[0][1] < c_call + max(0, p):
            bad.append((sig + "first-call-early", f"periodic {a} scheduled at {c_call} with period {p}: first tick "
                                                  f"at {ticks[0][1]}"))
        for j in range(len(ticks) - 1):
            if ticks[j + 1][1] < ticks[j][1] + p:
                bad.append((sig + "calls-closer-than-period", f"ticks {j}, {j + 1} of periodic {a} at {ticks[j][1]}, "
                                                              f"{ticks[j + 1][1]}; period {p}"))
        # stop
        disps = [(i, e[1], e[0]) for i, e in enumerate(log) if e[2] == "pdisp" and e[3] == a]
        after_first = 0
        for j, (i, clk, k, st) in enumerate(ticks):
            earliest = (c_call if j == 0 else ticks[j - 1][1]) + max(0, p)
            i_prev_end = ends.get(ticks[j - 1][2]) if j >= 1 else None
            verdict = None
            for (i_d, c_d, who) in disps:
                if i_d > i:
                    break
                if j >= 1 and i_prev_end is not None and i_d < i_prev_end:
                    verdict = ("invoked-after-dispose|dispose-returned-before-previous-invocation-ended",
                               f"tick {j} of periodic {a} started at {clk}; dispose() had returned (thread {who}, clock "
                               f"{c_d}) before tick {j - 1} ended")
                    break
                if c_d < earliest:
                    verdict = ("invoked-after-dispose|dispose-returned-before-the-tick-could-be-due",
                               f"tick {j} of periodic {a} started at {clk}; dispose() had returned at clock {c_d} "
                               f"(thread {who}), before the earliest due time {earliest} of that tick")
                    break
                verdict = ("NOTE window", "")
            if verdict is not None:
                if verdict[0] == "NOTE window":
                    bad.append(("NOTE periodic-tick-started-after-a-dispose-that-returned-when-it-was-already-due", ""))
                else:
                    bad.append((sig + verdict[0], verdict[1]))
            if disps and i > disps[0][0]:
                after_first += 1
        if after_first > 1:
            bad.append((sig + "invoked-after-dispose|more-than-one-tick-after-dispose-returned",
                        f"{after_first} ticks of periodic {a} started after dispose() had returned"))
        # keeps going
        foreign_cancel = any(o[0] == "cancel" and o[1] == a for o in allops)
        if full and not foreign_cancel and not sched_dispose and not raised_any and not stuck_other \
                and first_ret(log, a) is not None and not disps:
            bad.append((sig + "stalled", f"periodic {a} (period {p}, max {spec.get('max', 3)}): {len(ticks)} ticks, "
                                         f"final clock {r.final_clock}, never reached its last tick"))
    return bad


def first_ret(log, a):
    return next((i for i, e in enumerate(log) if e[2] == "ret" and e[3] == a), None)
