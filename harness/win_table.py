"""Operator-instance generators, the K2 correspondence loop and the independent
oracles for windows/buffers (C18) and groups/partition (C19).

Driver: harness/k2w.py (extends k2m: the logging subscriber subscribes to the
handed windows/groups by a generated policy).  Model side: Ops/MultiWin.v
(runner), Ops/Windows.v, Ops/Groups.v.

ORACLES never consult the model.  Each one recomputes, from the delivered input
sequence and the operator's parameters, the expected CONTENT of every window /
group (a direct reading of the rule in the property statement), then
`check_expect` compares what each window subscriber saw during the interval it
was subscribed, the hands on the outer, and the plain emissions (buffers)."""
import datetime as _dt

import k2
import k2m
import k2w
from k2 import UserError, err_id
from lib import gz, glist, gbool

POOL = k2.Pool(k2.HASHABLE_POOL)
FALSY_IDS = [i for i, v in enumerate(POOL.values) if not v]


def enc_val(v):
    return gz(POOL.id(v))


def enc_list(l):
    return glist([POOL.id(v) for v in l])


def enc_key(k):
    """keys are compared by the writers dict: python equality classes"""
    return gz(POOL.cls[POOL.id(k)])


WIN = dict(ty_w="Z", ty_b="unit", eqw="Z.eqb", eqb="(fun _ _ => true)", enc_w=enc_val, enc_b=lambda v: "tt")
BUF = dict(ty_w="Z", ty_b="(list Z)", eqw="Z.eqb", eqb="(list_eqb Z.eqb)", enc_w=enc_val, enc_b=enc_list)


def td(ms):
    return _dt.timedelta(milliseconds=ms)


def call_table(rng, n=8, p_raise=0.12, code=71):
    return [("raise", code) if rng.random() < p_raise else ("ok", None) for _ in range(n)]


def g_call_table(ent, ok="Ok tt"):
    es = "; ".join(f"({j}, {'Raise ' + str(e[1]) if e[0] == 'raise' else ok})" for j, e in enumerate(ent))
    return f"(fun j => tbl [{es}] ({ok}) (Z.of_nat j))"


def make_source_mapper(env, ent):
    """j-th call: allocates hot source (numbered next) and returns it, or raises"""
    calls = [0]
    if hasattr(env, "resets"):
        env.resets.append(lambda: calls.__setitem__(0, 0))     # a second subscription starts the count again

    def mapper(*args):
        j = calls[0]
        calls[0] += 1
        src = env.new_source()
        e = ent[j] if j < len(ent) else ("ok", None)
        if e[0] == "raise":
            raise k2.make_error(e[1])
        return src.observable
    return mapper


class CountingSubject:
    """mixin marker: subjects made by a harness factory (so that a shared / reused one would show)"""


def make_subject_factory(env, ent, kind):
    """subject_mapper of group_by / group_by_until: j-th call returns a NEW subject (plain Subject or a
    subclass of it) or raises by the table"""
    from reactivex.subject import Subject

    class MySubject(Subject, CountingSubject):
        pass
    calls = [0]
    if hasattr(env, "resets"):
        env.resets.append(lambda: calls.__setitem__(0, 0))

    def factory():
        j = calls[0]
        calls[0] += 1
        e = ent[j] if j < len(ent) else ("ok", None)
        if e[0] == "raise":
            raise k2.make_error(e[1])
        return MySubject() if kind == "subclass" else Subject()
    return factory


def val_table(rng, kind, p_raise=0.1):
    """finite callback on element ids: kind 'key' (-> pool value used as dict key), 'elem' (-> pool value), 'pred'"""
    ent = {}
    style = rng.choice(["few", "many", "falsy"]) if kind == "key" else None
    for i in range(POOL.K):
        if rng.random() < p_raise / 2:
            ent[i] = ("raise", {"key": 81, "elem": 82, "pred": 83}[kind])
        elif kind == "pred":
            ent[i] = ("ok", rng.random() < 0.5)
        elif kind == "key":
            if style == "few":
                ent[i] = ("ok", rng.choice([0, 1]))          # keys None / 0
            elif style == "falsy":
                ent[i] = ("ok", rng.choice(FALSY_IDS))        # None 0 False '' () 0.0
            else:
                ent[i] = ("ok", rng.randrange(POOL.K))
        else:
            ent[i] = ("ok", rng.randrange(POOL.K))
    if rng.random() < 0.6:
        ent = {i: (e if e[0] == "ok" else ("ok", (False if kind == "pred" else 0))) for i, e in ent.items()}
    return ent


def py_table(ent, kind):
    def f(v):
        e = ent[POOL.id(v)]
        if e[0] == "raise":
            raise k2.make_error(e[1])
        if kind == "pred":
            # same truthiness, not always a bool (user predicates like `lambda x: x % 2` or `re.match`)
            reps = PRED_REPS[sum(ent[j][1] is True for j in ent) % len(PRED_REPS)]
            return reps[0] if e[1] else reps[1]
        return POOL.val(e[1])
    return f


PRED_REPS = [(True, False), (1, 0), ("x", None), ([0], ""), (True, False)]


def g_val_table(ent, kind):
    def r(e):
        if e[0] == "raise":
            return f"Raise {e[1]}"
        if kind == "pred":
            return f"Ok {gbool(e[1])}"
        if kind == "key":
            return f"Ok {gz(POOL.cls[e[1]])}"
        return f"Ok {gz(e[1])}"
    es = "; ".join(f"({i}, {r(e)})" for i, e in sorted(ent.items()))
    return f"(tbl [{es}] ({r(('ok', False if kind == 'pred' else 0))}))"


def table():
    import reactivex as rx
    from reactivex import operators as ops
    T = {}

    # ------------------------------------------------------------------ C18
    def g_count(rng, buf=False):
        count = rng.choice([1, 2, 2, 3, 3, 4, 5])
        skip = rng.choice([None, 1, 2, 3, 4, 5])
        sk = count if skip is None else skip
        op = ops.buffer_with_count if buf else ops.window_with_count
        return dict(build=lambda env, ss: ss[0].pipe(op(count, skip) if skip is not None else op(count)),
                    coq=f"{'x_buffer_count' if buf else 'x_window_count'} {count} {sk}", n_static=1,
                    spec=("count", count, sk), **(BUF if buf else WIN))
    T["window_with_count"] = g_count
    T["buffer_with_count"] = lambda rng: g_count(rng, True)

    def g_time(rng, buf=False):
        span = rng.choice([10, 20, 20, 30, 40])
        shift = rng.choice([None, 10, 20, 30, 15])
        sh = span if shift is None else shift
        op = ops.buffer_with_time if buf else ops.window_with_time
        as_td = rng.random() < 0.5
        pass_sched = rng.random() < 0.4

        def build(env, ss):
            a = td(span) if as_td else span / 1000.0
            b = None if shift is None else (td(shift) if as_td else shift / 1000.0)
            return ss[0].pipe(op(a, b, env.scheduler if pass_sched else None))
        return dict(build=build, coq=f"{'x_buffer_time' if buf else 'x_window_time'} {span} {sh}", n_static=1,
                    spec=("time", span, sh), sched=True, grid=(span, sh), **(BUF if buf else WIN))
    T["window_with_time"] = g_time
    T["buffer_with_time"] = lambda rng: g_time(rng, True)

    def g_toc(rng, buf=False):
        span = rng.choice([10, 20, 30])
        count = rng.choice([1, 2, 3, 4])
        op = ops.buffer_with_time_or_count if buf else ops.window_with_time_or_count
        as_td = rng.random() < 0.5
        pass_sched = rng.random() < 0.4

        def build(env, ss):
            return ss[0].pipe(op(td(span) if as_td else span / 1000.0, count, env.scheduler if pass_sched else None))
        return dict(build=build, coq=f"{'x_buffer_time_or_count' if buf else 'x_window_time_or_count'} {span} {count}",
                    n_static=1, spec=("toc", span, count), sched=True, grid=(span, span), **(BUF if buf else WIN))
    T["window_with_time_or_count"] = g_toc
    T["buffer_with_time_or_count"] = lambda rng: g_toc(rng, True)

    def g_bound(rng, buf=False):
        op = ops.buffer if buf else ops.window
        return dict(build=lambda env, ss: ss[0].pipe(op(ss[1])),
                    coq="x_buffer_boundaries" if buf else "x_window_boundaries", n_static=2,
                    spec=("boundaries",), **(BUF if buf else WIN))
    T["window"] = g_bound
    T["buffer"] = lambda rng: g_bound(rng, True)

    def g_when(rng, buf=False):
        ent = call_table(rng)
        op = ops.buffer_when if buf else ops.window_when
        return dict(build=lambda env, ss: ss[0].pipe(op(make_source_mapper(env, ent))),
                    coq=f"{'x_buffer_when' if buf else 'x_window_when'} {g_call_table(ent)}", n_static=1,
                    spec=("when", ent), dynamic=4, **(BUF if buf else WIN))
    T["window_when"] = g_when
    T["buffer_when"] = lambda rng: g_when(rng, True)

    def g_toggle(rng, buf=False):
        ent = call_table(rng)
        op = ops.buffer_toggle if buf else ops.window_toggle
        return dict(build=lambda env, ss: ss[0].pipe(op(ss[1], make_source_mapper(env, ent))),
                    coq=f"{'x_buffer_toggle' if buf else 'x_window_toggle'} {g_call_table(ent)}", n_static=2,
                    spec=("toggle", ent), dynamic=3, **(BUF if buf else WIN))
    T["window_toggle"] = g_toggle
    T["buffer_toggle"] = lambda rng: g_toggle(rng, True)

    # ------------------------------------------------------------------ C19
    def g_group(rng, until=False):
        kt = val_table(rng, "key")
        with_elem = rng.random() < 0.6
        et = val_table(rng, "elem") if with_elem else {i: ("ok", i) for i in range(POOL.K)}
        dt = call_table(rng, code=84) if until else None
        short = rng.random() < 0.5          # which spelling of the optional arguments (decided here: build may run twice)
        # subject_mapper (4th argument of group_by_until, 3rd of group_by): absent / a plain factory / a
        # factory of a Subject subclass / a factory raising at seeded invocations
        r = rng.random()
        sm = None if r < 0.55 else ("plain" if r < 0.7 else ("subclass" if r < 0.8 else "table"))
        st = None
        if sm is not None:
            st = call_table(rng, p_raise=0.25 if sm == "table" else 0.0, code=85)

        def build(env, ss):
            key, elem = py_table(kt, "key"), (py_table(et, "elem") if with_elem else None)
            fac = make_subject_factory(env, st, sm) if sm is not None else None
            if until:
                if fac is None:
                    return ss[0].pipe(ops.group_by_until(key, elem, make_source_mapper(env, dt)))
                return ss[0].pipe(ops.group_by_until(key, elem, make_source_mapper(env, dt), fac))
            if fac is not None:
                return ss[0].pipe(ops.group_by(key, elem, fac))
            return ss[0].pipe(ops.group_by(key, elem) if with_elem or short else ops.group_by(key))
        dur = g_call_table(dt, "Ok true") if until else "(fun _ => Ok false)"
        subj = g_call_table(st) if st is not None else "(fun _ => Ok tt)"
        return dict(build=build,
                    coq=f"x_group_by_until_sm {g_val_table(kt, 'key')} {g_val_table(et, 'elem')} {dur} {subj}",
                    n_static=1, spec=("group", kt, et, dt, st), dynamic=4 if until else 0, keyed=True,
                    subject_mapper=sm, **WIN)
    T["group_by"] = g_group
    T["group_by_until"] = lambda rng: g_group(rng, True)

    def g_partition(rng, indexed=False):
        pt = val_table(rng, "pred")
        if not indexed:
            return dict(build=lambda env, ss: ss[0].pipe(ops.partition(py_table(pt, "pred"))),
                        coq=f"{g_val_table(pt, 'pred')}", n_static=1, spec=("partition", pt, False), outputs=True,
                        **WIN)
        # predicate_indexed(x, i) = table[(id(x) + i) mod K]: the verdict depends on BOTH arguments
        f = py_table(pt, "pred")
        return dict(build=lambda env, ss: ss[0].pipe(ops.partition_indexed(lambda v, i: f(POOL.val((POOL.id(v) + i) % POOL.K)))),
                    coq=f"(fun x i => {g_val_table(pt, 'pred')} ((x + Z.of_nat i) mod {POOL.K}))", n_static=1,
                    spec=("partition", pt, True), outputs=True, indexed=True, **WIN)
    T["partition"] = g_partition
    T["partition_indexed"] = lambda rng: g_partition(rng, True)
    return T


# ---- timelines ----------------------------------------------------------------

def gen_timeline(rng, nsrc, grid=(), maxlen=6, p_err=0.2, p_none=0.15, nonconforming=0.12):
    """per source a conforming sequence at instants drawn from a small grid (so
    that coincidences with timer edges and with other sources are common)."""
    evs = []
    horizon = 100
    steps = [0, 5, 10, 10, 20]
    edges = sorted({k * g + o for g in grid for k in range(0, 8) for o in (0,)}) if grid else []
    for k in range(nsrc):
        n = rng.choice([0, 1, 2, 3, 4, maxlen, maxlen + 2]) if k == 0 else rng.choice([0, 1, 1, 2, 3])
        times = []
        t = rng.choice([0, 5, 10])
        for _ in range(n):
            t += rng.choice(steps)
            if edges and rng.random() < 0.3:
                t = max(t, rng.choice(edges))
            times.append(t)
        times.sort()
        for ti in times:
            evs.append((ti, k, ("N", POOL.val(rng.randrange(POOL.K)) if rng.random() < 0.7
                                else POOL.val(rng.choice(FALSY_IDS)))))
        tt = (times[-1] if times else rng.choice([0, 10, 20])) + rng.choice(steps + [30])
        r = rng.random()
        if r < p_err:
            evs.append((tt, k, ("E", k2.make_error(rng.choice([11, 12])))))
        elif r < 1 - p_none:
            evs.append((tt, k, ("C",)))
        if rng.random() < nonconforming:
            evs.append((tt + rng.choice(steps), k, rng.choice([("N", POOL.val(9)), ("C",), ("E", UserError(13))])))
    order = {id(e): i for i, e in enumerate(evs)}
    perm = list(range(nsrc))
    rng.shuffle(perm)
    evs.sort(key=lambda e: (e[0], perm[e[1]], order[id(e)]))
    return evs


def gen_output_subs(rng):
    """partition: when the subscriber subscribes to / leaves outputs 0 and 1 (one subscription of an
    output at a time)"""
    acts = []
    for g in (0, 1):
        if rng.random() < 0.1:
            continue
        t = rng.choice([0, 0, 0, 10, 20, 40, 80, 130])
        acts.append((t, "sub", g))
        if rng.random() < 0.35:
            t2 = t + rng.choice([0, 10, 20, 40])
            acts.append((t2, "unsub", g))
            if rng.random() < 0.4:
                acts.append((t2 + rng.choice([0, 10, 30, 60, 130]), "sub", g))
    order = {id(a): i for i, a in enumerate(acts)}
    acts.sort(key=lambda a: (a[0], order[id(a)]))
    return acts


IMPORTS = ("Base.Prelude Base.CaseLib Ops.Machine Ops.MultiWin Ops.MultiWinCase Ops.Windows Ops.Groups "
           "Ops.GroupsSubject Ops.GroupsIndexed")


def run_case(inst, evs, policy, disp, outsubs=None, warm=None):
    horizon = None
    if inst.get("sched"):
        horizon = max([e[0] for e in evs] + [disp or 0]) + 70
    return k2w.run_win(inst["build"], inst["n_static"], evs, policy, use_scheduler=bool(inst.get("sched")),
                       dispose_at=disp, outputs=bool(inst.get("outputs")), sub_outputs=outsubs, horizon=horizon,
                       warmup=warm)


P_WARMUP = 0.35


def make_case(T, seed, name, ci, p_dispose=0.2):
    """the ci-th case of operator `name` under check seed `seed` (re-generated identically by --replay)"""
    import random
    rng = random.Random(f"{seed}|{name}|{ci}")
    inst = T[name](rng)
    nsrc = inst["n_static"] + inst.get("dynamic", 0)
    evs = gen_timeline(rng, nsrc, inst.get("grid", ()))
    policy = k2w.gen_policy(rng)
    if inst["ty_b"] != "unit":
        policy = k2w.ALL_IMM
    disp = None
    outsubs = None
    if inst.get("outputs"):
        outsubs = gen_output_subs(rng)
    elif rng.random() < p_dispose and evs:
        disp = rng.choice(evs)[0] + rng.choice([0, 0, 5])
    # SECOND SUBSCRIPTION: in 35% of the cases the measured subscription is preceded by an abandoned one of the
    # same observable object(s) (drawn last, so that the cases without it are the ones generated before)
    warm = None
    if rng.random() < P_WARMUP:
        if inst.get("outputs"):
            # the published subject is shared by construction: a terminal in the warm-up would stop it for good
            # (modelled as pt_stopped, reached by the measured timeline itself); elements only
            wev = [(0, 0, ("N", POOL.val(rng.randrange(POOL.K)))) for _ in range(rng.choice([1, 2, 3]))]
            warm = dict(events=wev, outputs=rng.choice([(0, 1), (0, 1), (0,), (1,)]))
        else:
            warm = dict(events=gen_timeline(rng, nsrc, inst.get("grid", ()), maxlen=3, nonconforming=0.0),
                        windows=rng.choice(["all", "all", "first", "none"]))
    return inst, evs, policy, disp, outsubs, warm


def replay_case(path):
    """re-run the case recorded in a replay file on the current tree; -> (violation message or None, text)"""
    import json
    d = json.load(open(path))
    rc = d.get("replay_case")
    if not rc:
        return "no replay_case in file", json.dumps(d, indent=1)
    T = table()
    inst, evs, policy, disp, outsubs, warm = make_case(T, rc["seed"], rc["name"], rc["index"])
    res = run_case(inst, evs, policy, disp, outsubs, warm)
    res["dispose_at"] = disp
    v = oracle(rc["name"], inst, res)
    if res["escapes"]:
        v = v or f"exception escaped into the emitter: {[repr(e) for _, e in res['escapes']]}"
    lines = [f"operator      : {rc['name']}   (case {rc['index']} of seed {rc['seed']})",
             f"instance      : {inst['coq']}",
             f"source events : {evs!r}",
             f"policy        : {policy.describe()}",
             f"outer dispose : {disp}   output subscriptions: {outsubs}",
             f"warm-up       : {warm!r}   (an earlier, abandoned subscription of the same observable)",
             f"inputs        : {k2w.g_inputs(res['inputs'], enc_val)}",
             f"observed      : {k2w.g_trace(res, inst['enc_w'], inst['enc_b'], enc_key)}",
             f"oracle        : {v or 'satisfied'}"]
    return v, "\n".join(lines)


def run_ops(chk, pid, names, ncase=None, p_dispose=0.2):
    import lib
    T = table()
    ncase = ncase or (40 if chk.tier == "quick" else 600)
    gal = {}
    per_op = {}
    nontrivial = set()
    hist = {"with_outer_dispose": 0, "same_instant_events": 0, "ticks_delivered": 0, "falsy_elements": 0,
            "falsy_keys": 0, "event_exactly_at_a_timer_edge": 0, "late_window_subscription": 0,
            "never_subscribed_window": 0, "window_unsubscribed_early": 0, "windows_handed": 0,
            "outer_ended_while_window_subscriber_live": 0, "second_subscription_after_warmup": 0}
    for name in names:
        for ci in range(ncase):
            inst, evs, policy, disp, outsubs, warm = make_case(T, chk.seed, name, ci)
            if disp is not None:
                hist["with_outer_dispose"] += 1
            if warm is not None:
                hist["second_subscription_after_warmup"] += 1
            if inst.get("subject_mapper"):
                hist["subject_mapper_" + inst["subject_mapper"]] = hist.get("subject_mapper_" + inst["subject_mapper"], 0) + 1
            res = run_case(inst, evs, policy, disp, outsubs, warm)
            chk.cov["evaluations"] += 1
            per_op[name] = per_op.get(name, 0) + 1
            if res["build_error"] is not None:
                raise RuntimeError(f"{name}: build error {res['build_error']!r}")
            res["dispose_at"] = disp
            stats(res, inst, evs, hist)
            gi = k2w.g_inputs(res["inputs"], enc_val)
            gt = k2w.g_trace(res, inst["enc_w"], inst["enc_b"], enc_key)
            sig = f"{name}|{inst['coq']}|{policy.gallina_imm()}|{gi}"
            v = oracle(name, inst, res)
            vw = res.get("_view")
            if vw and vw["outer_end"] is not None and not inst.get("outputs"):
                t_end = vw["outer_end"][0]
                if any(a <= t_end and (b is None or b > t_end)
                       for g in vw["subs"] for (a, b, how) in k2w.window_sub_intervals(vw, g)):
                    hist["outer_ended_while_window_subscriber_live"] += 1
            if res["escapes"]:
                v = v or f"exception escaped into the emitter: {[repr(e) for _, e in res['escapes']]}"
            if v:
                chk.violation(f"{pid}|{name}|{v.split(':')[0][:80]}",
                              {"operator": name, "machine": inst["coq"], "spec": repr(inst["spec"]),
                               "source events (time_ms, source, notification)": repr(evs),
                               "window subscription policy (per window g)": policy.describe(),
                               "outer dispose_at": disp, "output subscriptions": outsubs,
                               "warm-up (earlier abandoned subscription)": repr(warm),
                               "inputs (now, event)": gi, "observed trace": gt, "what": v,
                               "replay_case": {"name": name, "seed": chk.seed, "index": ci},
                               "how": "harness/win_table.py: run_case(inst, events, policy, dispose_at) -> "
                                      "k2w.run_win(...) with the operator instance named in 'spec'"},
                              size=len(res["inputs"]))
            elif sum(1 for e in res["log"] if e[1] in ("emit", "win")) >= 2:
                nontrivial.add(sig)
            if inst.get("outputs"):
                key = ("partition_indexed",) if inst.get("indexed") else ("partition",)
                gal.setdefault(key, []).append((f"({inst['coq']}, {gi})", gt))
            else:
                key = (inst["ty_b"], inst["eqb"])
                gal.setdefault(key, []).append((f"({policy.gallina_imm()}, {inst['coq']}, {gi})", gt))
    for key, cases in gal.items():
        if key == ("partition",):
            prelude = ("Definition model (c : (Z -> res bool) * list (Z * inp Z)) := "
                       "canon (pt_run (fst c) (snd c)).\n")
            cty = "((Z -> res bool) * list (Z * inp Z)) * list (nat * obs Z unit)"
            eq = "(trace_eqb Z.eqb (fun _ _ => true))"
        elif key == ("partition_indexed",):
            prelude = ("Definition model (c : (Z -> nat -> res bool) * list (Z * inp Z)) := "
                       "canon (pti_run (fst c) (snd c)).\n")
            cty = "((Z -> nat -> res bool) * list (Z * inp Z)) * list (nat * obs Z unit)"
            eq = "(trace_eqb Z.eqb (fun _ _ => true))"
        else:
            ty, eqb = key
            prelude = (f"Definition model (c : (nat -> bool) * machine Z Z {ty} * list (Z * inp Z)) := "
                       f"run_canon (fst (fst c)) (snd (fst c)) (snd c).\n")
            cty = f"((nat -> bool) * machine Z Z {ty} * list (Z * inp Z)) * list (nat * obs Z {ty})"
            eq = f"(trace_eqb Z.eqb {eqb})"
        bad, logs = lib.correspondence(pid, "w_" + str(abs(hash(key)) % 10**6), IMPORTS, cty, "model", eq, cases,
                                       prelude=prelude)
        chk.cov["traces_validated_against_impl"] += len(cases)
        chk.cov["disagreements_checked"] += len(cases)
        if bad:
            firsts = [cases[i] for i in bad if i >= 0][:3]
            d = {"n": len(bad), "first (policy+machine+inputs, implementation trace)": firsts, "logs": logs[:1]}
            if firsts:
                d["model_says"] = lib.coq_show(pid, IMPORTS, f"model {firsts[0][0]}", prelude)
            chk.tie_broken(f"correspondence K2 windows/groups ({key}): machine vs implementation", d)
    chk.cov["distinct_nontrivial"] = len(nontrivial)
    chk.cov["input_distribution"] = {"per_operator": per_op, **hist}
    chk.add_samples([{"case": cs[0][0], "trace": cs[0][1]} for cs in gal.values() if cs][:4])
    return gal


def stats(res, inst, evs, hist):
    if len({e[0] for e in evs}) < len(evs):
        hist["same_instant_events"] += 1
    if any(e[2][0] == "N" and not e[2][1] for e in evs):
        hist["falsy_elements"] += 1
    ticks = [i for i in res["inputs"] if i[1][0] == "tick"]
    hist["ticks_delivered"] += len(ticks)
    tt = {t for t, _ in ticks}
    if any(i[0] == "src" and t in tt for t, i in res["inputs"]):
        hist["event_exactly_at_a_timer_edge"] += 1
    hist["windows_handed"] += res["n_windows"] if not inst.get("outputs") else 0
    pol = res["policy"]
    for (tag, kind, a, b) in res["log"]:
        if kind == "hand":
            p = pol.at(a)
            if not p["imm"] and p["delay"] is None:
                hist["never_subscribed_window"] += 1
            if b is not None and not b[1]:
                hist["falsy_keys"] += 1
    hist["late_window_subscription"] += sum(1 for _, i in res["inputs"] if i[0] == "subwin")
    hist["window_unsubscribed_early"] += sum(1 for _, i in res["inputs"] if i[0] == "unsubwin")


# ==============================================================================
# ORACLES (independent of the model)
# ==============================================================================

class Expect:
    """expected content: windows[g] = dict(hand_tag, key, events=[(tag, kind, value)]) (events after the
    hand, in order, ending with the window's terminal if it has one); outer = [(tag, kind, value)] plain
    emissions and terminal of the outer sequence (hands are implied by windows[g]['hand_tag'])"""

    def __init__(self):
        self.windows = []
        self.outer = []
        self.open = []          # indices of open windows, in opening order
        self.cut = None         # input position from which nothing is demanded any more
        self.src_done = None    # toggle: (input position of the source's completion, windows open then)

    def open_window(self, tag, key=None):
        self.windows.append(dict(hand_tag=tag, key=key, events=[], closed=False))
        self.open.append(len(self.windows) - 1)
        return len(self.windows) - 1

    def to(self, g, tag, kind, val=None):
        w = self.windows[g]
        if w["closed"]:
            return
        w["events"].append((tag, kind, val))
        if kind in "EC":
            w["closed"] = True
            if g in self.open:
                self.open.remove(g)

    def to_all_open(self, tag, kind, val=None):
        for g in list(self.open):
            self.to(g, tag, kind, val)

    def end_outer(self, tag, kind, val=None):
        if not any(k in "EC" for (_, k, _) in self.outer):
            self.outer.append((tag, kind, val))

    def outer_done(self):
        return any(k in "EC" for (_, k, _) in self.outer)


def norm(kind, val):
    return (kind, err_id(val) if kind == "E" else (POOL.id(val) if kind == "N" else None))


def norm_list(kind, val):
    return (kind, err_id(val) if kind == "E" else ([POOL.id(x) for x in val] if kind == "N" else None))


def accepted_inputs(res, v):
    """delivered inputs that reached the operator: source notifications while that source was
    subscribed, timer firings; [(tag, time, input)]"""
    out = []
    for st in v["steps"][1:]:
        i = st["inp"]
        if i[0] == "src" and i[1] in st["live_before"]:
            out.append((st["tag"], st["time"], i))
        elif i[0] == "tick":
            out.append((st["tag"], st["time"], i))
    return out


def check_expect(res, v, exp, keyed=False, buffers=False):
    pol = res["policy"]
    oe = v["outer_end"]            # (tag, 'C'|'E'|'D') or None
    cut = exp.cut if exp.cut is not None else 10**9
    # --- hands: the windows opened while the outer subscription was live, in order
    def outer_live_at(tag, strict):
        if oe is None:
            return True
        return tag < oe[0] if (oe[1] == "D" or strict) else tag <= oe[0]
    if not buffers:
        want = [(w["hand_tag"], w["key"]) for w in exp.windows if outer_live_at(w["hand_tag"], False)]
        # a window opened in the very handler that ends the outer sequence with an error may come before it
        got = [(tag, key) for (_, tag, g, key) in v["hands"] if tag < cut]
        wk = [(t, POOL.cls[POOL.id(k)] if keyed else None) for t, k in want]
        gk = [(t, POOL.cls[POOL.id(k)] if keyed else None) for t, k in got]
        if gk != wk:
            return f"handed windows/groups differ from the rule: (input position, key class) {gk}, expected {wk}"
        for gi, (_, tag, g, key) in enumerate(v["hands"]):
            if g != gi:
                return "hand numbering"
    # --- per window: what its subscriber saw while subscribed
    for g, w in enumerate(exp.windows):
        if buffers:
            break
        if g >= len(v["hands"]):
            break
        p = pol.at(g)
        ivs = k2w.window_sub_intervals(v, g)
        seen = [(tag, *norm(k, val)) for (_, tag, k, val) in v["win"].get(g, []) if tag < cut]
        want = []
        term = next(((t, k, val) for (t, k, val) in w["events"] if k in "EC"), None)
        for (a, b, how) in ivs:
            imm = p["imm"] and a == w["hand_tag"] and not any(i[0] == "subwin" and i[1] == g
                                                              for _, i in res["inputs"][a - 1:a] if a > 0)
            if a >= cut:
                continue
            if term is not None and (term[0] < a):
                want.append((a, *norm(term[1], term[2])))
                continue
            for (t, k, val) in w["events"]:
                if (t >= a if imm else t > a) and (b is None or how == "term" or t < b):
                    want.append((t, *norm(k, val)))
                    if k in "EC":
                        break
        if seen != want:
            return (f"window/group content differs from the rule: window/group {g} (handed at input {w['hand_tag']}, "
                    f"subscriptions {ivs}): subscriber saw "
                    f"{seen}, expected {want} (input position, kind, element id)")
    # --- plain emissions + terminal on the outer
    nl = norm_list if buffers else norm
    got = [(tag, *nl(k, val)) for (_, tag, k, val) in v["em"] if tag < cut]
    want = []
    for (t, k, val) in exp.outer:
        if oe is not None and oe[1] == "D" and t >= oe[0]:
            break
        want.append((t, *nl(k, val)))
    if got != want:
        return f"outer sequence differs from the rule: (input position, kind, value) {got}, expected {want}"
    return None


def common_checks(res, v, outputs=False):
    import re
    # grammar per window subscription and on the outer
    for g, l in v["win"].items():
        ivs = k2w.window_sub_intervals(v, g)
        for (a, b, how) in ivs:
            ks = "".join(k for (_, tag, k, _) in l if tag >= a and (b is None or tag <= b))
            if not re.match(r"^N*[EC]?$", ks):
                return f"window/group notification grammar violated: window {g}, subscription {(a, b)}: {ks}"
        # silence after unsubscribe
        for (a, b, how) in ivs:
            if how == "unsub":
                nxt = min([x[0] for x in ivs if x[0] > b], default=None)
                late = [tag for (_, tag, k, _) in l if tag > b and (nxt is None or tag < nxt)]
                if late:
                    return f"notification after the window/group subscription was disposed: window {g}, input {late[0]}, disposed at {b}"
    ks = "".join(k for (_, _, k, _) in v["em"])
    if not re.match(r"^N*[EC]?$", ks):
        return f"outer grammar violated: {ks}"
    oe = v["outer_end"]
    if oe is not None:
        late = [tag for (_, tag, _, _) in v["em"] if tag > oe[0]] + [tag for (_, tag, _, _) in v["hands"] if tag > oe[0]]
        if oe[1] == "D":
            late += [tag for (_, tag, _, _) in v["em"] if tag == oe[0]] + \
                    [tag for (_, tag, _, _) in v["hands"] if tag == oe[0]]
        if late:
            return f"notification on the outer after it ended: input {late[0]}, ended at {oe}"
    return release_check(res, v, outputs)


def release_check(res, v, outputs):
    """(a) outer ended AND every window subscription ended => no source subscription, no timer left;
       (b) outer live OR some window subscription live => the main source stays subscribed until it
           terminates."""
    ivs = {g: k2w.window_sub_intervals(v, g) for g in v["subs"]}
    oe = v["outer_end"]
    term0 = None
    for st in v["steps"][1:]:
        i = st["inp"]
        if i[0] == "src" and i[1] == 0 and i[2][0] in "EC" and 0 in st["live_before"]:
            term0 = st["tag"]
            break
    ever = False
    released = False        # windows/groups: once everything ended, a later subscription shares nothing any more
    for st in v["steps"]:
        tag = st["tag"]
        outer_live = (not outputs) and (oe is None or tag < oe[0])
        nsub = sum(1 for l in ivs.values() for (a, b, how) in l if a <= tag and (b is None or b > tag))
        ever = ever or 0 in st["live_after"]
        if (not outer_live and nsub == 0) or released:
            released = not outputs
            if st["live_after"]:
                return (f"source subscription left open after everything ended: sources {sorted(st['live_after'])} after input {tag}; the outer "
                        f"subscription ended at {oe} and no window/group subscription is live")
            if st["timers_after"]:
                return (f"timer left pending after everything ended: timers {sorted(st['timers_after'])} after input {tag}; the outer "
                        f"subscription ended at {oe} and no window/group subscription is live")
        elif (not outputs or nsub > 0) and ever and (term0 is None or tag < term0) and 0 not in st["live_after"]:
            return (f"main source released while a subscriber is live: not subscribed after input {tag} although "
                    f"{'the outer subscription' if outer_live else 'a window/group subscription'} is live")
    return None


# ---- expected contents, operator by operator ----------------------------------

def e_count(inst, res, v):
    _, count, skip = inst["spec"]
    exp = Expect()
    acc = accepted_inputs(res, v)
    xs = [(tag, i[2][1]) for (tag, t, i) in acc if i[0] == "src" and i[2][0] == "N"]
    term = next(((tag, i[2]) for (tag, t, i) in acc if i[0] == "src" and i[2][0] in "EC"), None)
    if term is not None:
        xs = [(tag, x) for (tag, x) in xs if tag < term[0]]
    n = len(xs)
    k = 0
    while k * skip <= n:
        # window k == xs[k*skip : k*skip+count], handed right after element k*skip-1
        hand = 0 if k == 0 else xs[k * skip - 1][0]
        g = exp.open_window(hand)
        for (tag, x) in xs[k * skip:k * skip + count]:
            exp.to(g, tag, "N", x)
        if k * skip + count <= n:
            exp.to(g, xs[k * skip + count - 1][0], "C")
        elif term is not None:
            exp.to(g, term[0], term[1][0], term[1][1] if term[1][0] == "E" else None)
        k += 1
    if term is not None:
        exp.end_outer(term[0], term[1][0], term[1][1] if term[1][0] == "E" else None)
    return exp


def e_replay(inst, res, v):
    """rules read off the delivered input sequence, in delivered order (which settles the instants the
    statement leaves open); timer firings are used by their TIME only and must sit on the rule's edges"""
    spec = inst["spec"]
    exp = Expect()
    acc = accepted_inputs(res, v)
    kind = spec[0]
    err = None

    def src_term(tag, ev):
        exp.to_all_open(tag, ev[0], ev[1] if ev[0] == "E" else None)
        exp.end_outer(tag, ev[0], ev[1] if ev[0] == "E" else None)

    if kind == "time":
        _, span, shift = spec
        exp.open_window(0)
        opened, closed = 1, 0          # windows opened / closed so far; window k: [k*shift, k*shift+span]
        for (tag, t, i) in acc:
            # every edge strictly before t must have been processed by a timer firing
            if min(opened * shift, closed * shift + span) < t and not exp.outer_done():
                return f"window edge not served by a timer: window_with_time({span},{shift}), no firing at {min(opened * shift, closed * shift + span)} (next input at {t})"
            if i[0] == "tick":
                if exp.outer_done():
                    continue
                did = False
                if opened * shift == t:
                    exp.open_window(tag)
                    opened += 1
                    did = True
                if closed * shift + span == t:
                    if closed < len(exp.windows):
                        exp.to(closed, tag, "C")
                    closed += 1
                    did = True
                if not did:
                    return f"timer fired off the window edges: window_with_time({span},{shift}) at {t} (edges k*shift / k*shift+span)"
            elif i[2][0] == "N":
                exp.to_all_open(tag, "N", i[2][1])
            else:
                src_term(tag, i[2])
        return exp
    if kind == "toc":
        _, span, count = spec
        cur = exp.open_window(0)
        t_open, n = 0, 0
        for (tag, t, i) in acc:
            if exp.outer_done():
                continue
            if t_open + span < t:
                return f"window not closed at its timespan: window_with_time_or_count({span},{count}), opened at {t_open}, due {t_open + span}"
            if i[0] == "tick":
                if t == t_open + span:
                    exp.to(cur, tag, "C")
                    cur = exp.open_window(tag)
                    t_open, n = t, 0
                # a timer of a window that was closed by count: no effect
            elif i[2][0] == "N":
                exp.to(cur, tag, "N", i[2][1])
                n += 1
                if n == count:
                    exp.to(cur, tag, "C")
                    cur = exp.open_window(tag)
                    t_open, n = t, 0
            else:
                src_term(tag, i[2])
        return exp
    if kind == "boundaries":
        cur = exp.open_window(0)
        for (tag, t, i) in acc:
            if exp.outer_done():
                continue
            k, ev = i[1], i[2]
            if ev[0] != "N":
                src_term(tag, ev)
            elif k == 0:
                exp.to(cur, tag, "N", ev[1])
            else:
                exp.to(cur, tag, "C")
                cur = exp.open_window(tag)
        return exp
    if kind == "when":
        ent = spec[1]
        calls = [0]

        def arm(tag, cur):
            # a raising closing mapper: the CURRENT window (window 0 at the first call, inside subscribe();
            # the window just handed at a later call) ends with the error, then the outer sequence; every
            # earlier window has completed, so nothing is listened to any more (common_checks: source released)
            j = calls[0]
            calls[0] += 1
            e = ent[j] if j < len(ent) else ("ok", None)
            if e[0] == "raise":
                exp.to(cur, tag, "E", UserError(e[1]))
                exp.end_outer(tag, "E", UserError(e[1]))
                return None
            return 1 + j
        cur = exp.open_window(0)
        closing = arm(0, cur)
        for (tag, t, i) in acc:
            k, ev = i[1], i[2]
            if k == 0:
                if ev[0] == "N":
                    exp.to(cur, tag, "N", ev[1])
                else:
                    src_term(tag, ev)
            elif k == closing:
                if ev[0] == "E":
                    src_term(tag, ev)
                else:
                    exp.to(cur, tag, "C")
                    cur = exp.open_window(tag)
                    closing = arm(tag, cur)
        return exp
    if kind == "toggle":
        ent = spec[1]
        calls = 0
        closing = {}                # closing source -> window
        for (tag, t, i) in acc:
            k, ev = i[1], i[2]
            if k == 0:
                if ev[0] == "N":
                    exp.to_all_open(tag, "N", ev[1])
                elif ev[0] == "E":
                    src_term(tag, ev)
                else:
                    # all open windows end with the source's terminal kind; the outer sequence follows the
                    # openings (tests/test_observable/test_window.py::test_window_toggle_basic)
                    exp.src_done = (tag, list(exp.open))
                    exp.to_all_open(tag, "C")
            elif k == 1:
                if ev[0] == "N":
                    g = exp.open_window(tag)
                    e = ent[calls] if calls < len(ent) else ("ok", None)
                    if e[0] == "raise":
                        src_term(tag, ("E", UserError(e[1])))
                    else:
                        closing[2 + calls] = g
                    calls += 1
                elif ev[0] == "E":
                    src_term(tag, ev)
                else:
                    exp.end_outer(tag, "C")
            elif k in closing:
                if ev[0] == "E":
                    src_term(tag, ev)
                else:
                    exp.to(closing.pop(k), tag, "C")
        return exp
    raise AssertionError(kind)


def e_group(inst, res, v):
    _, kt, et, dt, st = inst["spec"]
    exp = Expect()
    acc = accepted_inputs(res, v)
    live = {}            # key class -> group
    durs = {}            # duration source -> key class
    calls = 0            # invocations of the duration mapper
    scalls = 0           # invocations of the subject factory (one per group creation, before the duration mapper)

    def fan(tag, code_or_exc):
        exp.to_all_open(tag, "E", code_or_exc)
        exp.end_outer(tag, "E", code_or_exc)
    for (tag, t, i) in acc:
        k, ev = i[1], i[2]
        if k == 0:
            if ev[0] == "E":
                fan(tag, ev[1])
            elif ev[0] == "C":
                exp.to_all_open(tag, "C")
                exp.end_outer(tag, "C")
            else:
                x = POOL.id(ev[1])
                ke = kt[x]
                if ke[0] == "raise":
                    fan(tag, UserError(ke[1]))
                    continue
                kc = POOL.cls[ke[1]]
                if kc in live and not exp.windows[live[kc]]["closed"]:
                    g = live[kc]
                else:
                    # first time the key is seen, or seen again after its group expired
                    se = (st[scalls] if scalls < len(st) else ("ok", None)) if st is not None else ("ok", None)
                    scalls += 1
                    if se[0] == "raise":
                        # no subject, hence no group: everything errors
                        fan(tag, UserError(se[1]))
                        continue
                    de = (dt[calls] if calls < len(dt) else ("ok", None)) if dt is not None else ("ok", None)
                    calls += 1
                    if de[0] == "raise":
                        # the group is never handed; everything errors
                        fan(tag, UserError(de[1]))
                        continue
                    g = exp.open_window(tag, POOL.val(ke[1]))
                    live[kc] = g
                    if dt is not None:
                        durs[calls] = kc
                ee = et[x]
                if ee[0] == "raise":
                    fan(tag, UserError(ee[1]))
                else:
                    exp.to(g, tag, "N", POOL.val(ee[1]))
        elif k in durs:
            if ev[0] == "E":
                fan(tag, ev[1])
            else:
                kc = durs.pop(k)
                exp.to(live.pop(kc), tag, "C")
    return exp


def o_partition(inst, res, v):
    """each subscription of output g (0: predicate holds, 1: it does not) receives exactly the elements whose
    verdict selects g, in arrival order, and the source's terminal; a raising predicate errors that subscription.
    partition_indexed: the index is the subscription's own element count (operators/_filter.py: `count` lives in
    subscribe; "the predicate is executed once for each subscribed observer").  For a subscriber that joined
    the shared connection late the statement does not say which index is meant: where the reading "position in
    the connected source sequence" gives another verdict, either outcome is accepted."""
    pt, indexed = inst["spec"][1], inst["spec"][2]
    ivs = {g: k2w.window_sub_intervals(v, g) for g in (0, 1)}
    want = {0: [], 1: []}
    seen = {g: [(tag, *norm(k, val)) for (_, tag, k, val) in v["win"].get(g, [])] for g in (0, 1)}
    cnt = {}                         # (g, subscription start) -> elements evaluated without raising
    stopped = None
    conn_idx = 0                     # elements delivered since the present connection was made
    same_index_at = {}               # tag -> both outputs' live subscriptions had the same index
    for st in v["steps"][1:]:
        i, tag = st["inp"], st["tag"]
        if i[0] == "subwin" and stopped is not None:
            want[i[1]].append((tag, *stopped))
        if 0 in st["subs"]:
            conn_idx = 0
        if i[0] != "src" or i[1] != 0 or 0 not in st["live_before"] or stopped is not None:
            continue
        ev = i[2]
        sent = []
        idxs = []
        for g in (0, 1):
            for (a, b, how) in ivs[g]:
                if a < tag and (b is None or b >= tag if how == "term" else (b is None or b > tag)):
                    if ev[0] == "N":
                        c = cnt.get((g, a), 0)
                        idxs.append(c)

                        def outcome(index):
                            pe = pt[(POOL.id(ev[1]) + index) % POOL.K] if indexed else pt[POOL.id(ev[1])]
                            if pe[0] == "raise":
                                return ("E", pe[1])
                            return ("N", POOL.id(ev[1])) if pe[1] == (g == 0) else None
                        out = outcome(c)
                        if indexed and c != conn_idx and outcome(conn_idx) != out:
                            got = next(((k, val) for (t, k, val) in seen[g] if t == tag), None)
                            if got == outcome(conn_idx):
                                out = got
                        if out is None or out[0] == "N":
                            cnt[(g, a)] = c + 1
                        if out is not None:
                            want[g].append((tag, *out))
                            if out[0] == "N":
                                sent.append(g)
                    else:
                        want[g].append((tag, *norm(ev[0], ev[1] if ev[0] == "E" else None)))
        if ev[0] == "N":
            conn_idx += 1
            same_index_at[tag] = len(set(idxs)) <= 1
        if ev[0] == "N" and len(set(sent)) > 1 and not indexed:
            return f"partition oracle inconsistency: input {tag}"
        if ev[0] != "N":
            stopped = norm(ev[0], ev[1] if ev[0] == "E" else None)
    for g in (0, 1):
        if seen[g] != want[g]:
            return (f"partition output differs from the predicate: output {g} (subscriptions {ivs[g]}): subscriber saw {seen[g]}, expected {want[g]} "
                    f"(input position, kind, element id)")
    # each element delivered to at most one output (indexed: when both subscribers are at the same index)
    by_tag = {}
    for g in (0, 1):
        for (_, tag, k, val) in v["win"].get(g, []):
            if k == "N":
                by_tag.setdefault(tag, set()).add(g)
    both = [t for t, s in by_tag.items() if len(s) > 1 and (not indexed or same_index_at.get(t, False))]
    if both:
        return f"partition delivered an element to both outputs: input {both[0]}"
    return None


def buffers_from(exp):
    """buffer_k == contents of window k, emitted when the window completes; a window's error is the
    result's error; the result completes when the outer completed and every window completed"""
    out = Expect()
    out.cut = exp.cut
    events = []
    for g, w in enumerate(exp.windows):
        term = next(((t, k, val) for (t, k, val) in w["events"] if k in "EC"), None)
        if term is not None:
            content = [val for (t, k, val) in w["events"] if k == "N"]
            events.append((term[0], 0, g, term[1], term[2] if term[1] == "E" else content))
    for (t, k, val) in exp.outer:
        events.append((t, 1, -1, k, val))
    events.sort(key=lambda e: e[:3])
    closed = set()
    outer_done = False

    def all_closed(t):
        return all(h in closed for h, w in enumerate(exp.windows) if w["hand_tag"] <= t)
    for (t, _, g, kind, payload) in events:
        if out.outer_done():
            break
        if kind == "E":
            out.end_outer(t, "E", payload)
        elif g >= 0:
            out.outer.append((t, "N", payload))
            closed.add(g)
            if outer_done and all_closed(t):
                out.end_outer(t, "C")
        else:
            outer_done = True
            if all_closed(t):
                out.end_outer(t, "C")
    return out


def oracle(name, inst, res):
    v = k2w.view(res)
    res["_view"] = v
    if inst.get("outputs"):
        return o_partition(inst, res, v) or common_checks(res, v, outputs=True)
    spec = inst["spec"]
    if spec[0] == "count":
        exp = e_count(inst, res, v)
    elif spec[0] == "group":
        exp = e_group(inst, res, v)
    else:
        exp = e_replay(inst, res, v)
    if isinstance(exp, str):
        return exp
    buffers = inst["ty_b"] != "unit"
    toggle_done = exp.src_done
    wexp = exp
    if buffers:
        exp = buffers_from(exp)
        if name == "buffer_with_count":
            exp.outer = [(t, k, val) for (t, k, val) in exp.outer if not (k == "N" and len(val) == 0)]
    c = check_expect(res, v, exp, keyed=bool(inst.get("keyed")), buffers=buffers)
    if c and toggle_done and toggle_done[1]:
        # is it the open-windows-at-source-completion clause that fails?
        t, opened = toggle_done
        oe = v["outer_end"]
        if buffers:
            n_at = sum(1 for (_, tag, k, _) in v["em"] if tag == t and k == "N")
            if (oe is None or oe[0] >= t) and n_at < len(opened):
                return (f"open windows not ended when the source completed: {len(opened)} windows open at input {t}, "
                        f"{n_at} buffers emitted there; {c}")
        else:
            for g in opened:
                live = any(a <= t and (b is None or b >= t) for (a, b, how) in k2w.window_sub_intervals(v, g))
                got = any(tag == t and k == "C" for (_, tag, k, _) in v["win"].get(g, []))
                if live and not got:
                    return f"open windows not ended when the source completed: window {g} at input {t}; {c}"
    return c or common_checks(res, v)
