"""Oracle-only family `derived` of C02: user-made observables DERIVED FROM the operator's own inner observables.

The operators that hand an observable to a user callback -- group_by_until (the duration mapper gets the
group), and the operators downstream of a group/window producer whose mapper gets the group or window as its
ELEMENT (flat_map / switch_map / concat_map / flat_map_latest mappers, delay_with_mapper / timeout_with_mapper /
throttle_with_mapper duration mappers) -- are given callbacks that do what the documentation suggests: the
observable they return is built from the one they received (grp.pipe(skip(n)), grp.pipe(debounce(t)),
grp.pipe(filter(..)), window.pipe(ignore_elements()) ...).  Callbacks that receive no observable (window_when /
buffer_when closings, window_toggle / buffer_toggle closings, join / group_join durations, the *_with_mapper
operators on plain values) derive theirs from the pipeline's OWN source (a second subscription on the main
source that the pipeline has to release as well).  The terminal reaches the subscriber from DOWNSTREAM
(take(n), first(), take_while, take_until(trigger)) or the subscriber disposes, while such derived observables
are still open.

A case is a JSON value, interpreted on the real library under a TestScheduler (created 100 ... subscribed 200):
    sources      [{kind: hot|cold|probe, msgs: [[t, "N", v] | [t, "E", code] | [t, "C"]]}]   source 0 = main (hot)
                 hot/cold = reactivex.testing observables (their `subscriptions` lists are what is judged),
                 probe = a hand-written source (reactivex.Observable over a subscribe function that keeps its
                 observers and counts the dispose calls), fed from the same virtual clock
    stages       the pipeline, see `build_stage`; a derivation is {base: [inner]|[captured]|[src,k]|[never]|
                 [timer,t], ops: [[name, arg]...]}
    subscriber   what the subscriber does with the observables handed to it: subscribes all / every other /
                 none of them; it disposes those subscriptions when it receives its terminal and when it disposes
    dispose_at   the instant the subscriber disposes (1000 = the TestScheduler default)

Judgement (statement of C02).  T = the instant of the subscriber's terminal notification, or of its dispose(),
whichever is first; at T every group/window handed to the subscriber has been unsubscribed (it does that
itself).  Then
  * leak_after_terminal / leak_after_dispose   no subscription on any source, and no subscription the pipeline
        opened on a user-made (derived) observable, is open after T: every entry of xs.subscriptions ends, and
        ends at an instant <= T; a hot/probe source has no observer left;
  * subscribed_after   nothing is subscribed after T;
  * escape   nothing escapes from the library into the scheduler loop / the subscribing / disposing caller;
             a run that does not end within its budget is a violation as well.
Derivations with base [captured] -- the mapper has no observable argument and uses the ref-counted window the
SUBSCRIBER was handed a moment ago -- are run but NOT judged (coverage only): there the window handed to the
subscriber is still subscribed (by the closing the pipeline holds), so the premise of the statement ("every
group or window handed to it has terminated or been unsubscribed") does not hold.
"""
from __future__ import annotations

import json
import random
import sys

T_CREATE, T_SUB, T_DISPOSE, T_STOP = 100, 200, 1000, 3000


class ProbeError(Exception):
    def __init__(self, code):
        super().__init__(code)
        self.code = code

    def __repr__(self):
        return f"ProbeError({self.code})"


def as_obs(x):
    """the observable inside an element: a group, a window, (value, window) of group_join"""
    from reactivex import Observable
    if isinstance(x, Observable):
        return x
    if isinstance(x, tuple):
        for y in x:
            if isinstance(y, Observable):
                return y
    return None


def _show(v):
    if isinstance(v, ProbeError):
        return f"ProbeError({v.code})"
    if isinstance(v, (int, float, str, bool, type(None))):
        return v
    if isinstance(v, (tuple, list)):
        return [_show(x) for x in v]
    return f"<{type(v).__name__}>"


# ---------------------------------------------------------------------------------------------------------
# the world: sources, derivations, stages
# ---------------------------------------------------------------------------------------------------------

class World:
    def __init__(self, case):
        import reactivex
        from reactivex import Observable
        from reactivex.disposable import Disposable
        from reactivex.testing import ReactiveTest, TestScheduler
        self.rx = reactivex
        self.sched = TestScheduler()
        self.case = case
        self.captured = []
        self.drecs = []            # subscriptions the pipeline opened on derived (user-made) observables
        self.sources = []
        W = self

        def notif(m):
            t = m[0]
            if m[1] == "N":
                return ReactiveTest.on_next(t, m[2])
            if m[1] == "E":
                return ReactiveTest.on_error(t, ProbeError(m[2]))
            return ReactiveTest.on_completed(t)

        for k, s in enumerate(case["sources"]):
            if s["kind"] == "hot":
                o = self.sched.create_hot_observable(*[notif(m) for m in s["msgs"]])
                self.sources.append({"kind": "hot", "obs": o})
            elif s["kind"] == "cold":
                o = self.sched.create_cold_observable(*[notif(m) for m in s["msgs"]])
                self.sources.append({"kind": "cold", "obs": o})
            else:
                src = {"kind": "probe", "observers": [], "subs": []}

                def subscribe(observer, scheduler=None, src=src):
                    rec = [W.sched.clock, None]
                    src["subs"].append(rec)
                    src["observers"].append(observer)

                    def dispose():
                        if rec[1] is None:
                            rec[1] = W.sched.clock
                            src["observers"].remove(observer)
                    return Disposable(dispose)
                src["obs"] = Observable(subscribe)
                for m in s["msgs"]:
                    def action(scheduler, state, m=m, src=src):
                        for ob in list(src["observers"]):
                            if m[1] == "N":
                                ob.on_next(m[2])
                            elif m[1] == "E":
                                ob.on_error(ProbeError(m[2]))
                            else:
                                ob.on_completed()
                        return Disposable()
                    self.sched.schedule_absolute(m[0], action)
                self.sources.append(src)

    def subs_of(self, k):
        s = self.sources[k]
        if s["kind"] == "probe":
            return [(a, b) for a, b in s["subs"]]
        return [(x.subscribe, None if x.unsubscribe == sys.maxsize else x.unsubscribe)
                for x in s["obs"].subscriptions]

    def observers_left(self, k):
        s = self.sources[k]
        if s["kind"] == "probe":
            return len(s["observers"])
        if s["kind"] == "hot":
            return len(s["obs"].observers)
        return 0

    # -- derivations ------------------------------------------------------------------------------------
    def d_op(self, op):
        from reactivex import operators as ops
        n, a = op[0], (op[1] if len(op) > 1 else None)
        if n == "skip":
            return ops.skip(a)
        if n == "filter_ge":
            return ops.filter(lambda v: isinstance(v, int) and v >= a)
        if n == "skip_while_lt":
            return ops.skip_while(lambda v: isinstance(v, int) and v < a)
        if n == "debounce":
            return ops.debounce(a)
        if n == "delay":
            return ops.delay(a)
        if n == "ignore_elements":
            return ops.ignore_elements()
        if n == "take_last":
            return ops.take_last(a)
        if n == "count":
            return ops.count()
        if n == "map":
            return ops.map(lambda v: v)
        if n == "distinct_until_changed":
            return ops.distinct_until_changed()
        if n == "pairwise":
            return ops.pairwise()
        if n == "buffer_with_count":
            return ops.buffer_with_count(a)
        if n == "merge_src":
            return ops.merge(self.sources[a % len(self.sources)]["obs"])
        if n == "take_until_src":
            return ops.take_until(self.sources[a % len(self.sources)]["obs"])
        if n == "element_at":
            return ops.element_at_or_default(a, None)
        raise ValueError(op)

    def derive(self, spec, inner, where):
        from reactivex import Observable
        from reactivex.disposable import Disposable
        base = spec["base"]
        kind = base[0]
        if kind == "inner" and inner is None:
            kind, base = "src", ["src", 0]
        if kind == "inner":
            o = inner
        elif kind == "captured":
            o = next((c for c in reversed(self.captured) if c is not None), None)
            if o is None:
                o, kind = self.rx.never(), "never"
        elif kind == "src":
            o = self.sources[base[1] % len(self.sources)]["obs"]
        elif kind == "timer":
            o = self.rx.timer(base[1])
        else:
            o = self.rx.never()
        for op in spec["ops"]:
            o = o.pipe(self.d_op(op))
        W = self

        def subscribe(observer, scheduler=None):
            rec = {"where": where, "from": kind, "open": W.sched.clock, "close": None}
            W.drecs.append(rec)
            d = o.subscribe(observer, scheduler=scheduler)

            def dispose():
                d.dispose()
                if rec["close"] is None:
                    rec["close"] = W.sched.clock
            return Disposable(dispose)
        return Observable(subscribe)

    # -- stages -----------------------------------------------------------------------------------------
    def build_stage(self, st):
        """-> list of operators"""
        from reactivex import operators as ops
        n = st[0]
        S = lambda k: self.sources[k % len(self.sources)]["obs"]          # noqa: E731
        key = lambda m: (lambda x: x % m if isinstance(x, int) else 0)   # noqa: E731
        dv = lambda spec: (lambda x=None, *a: self.derive(spec, as_obs(x), n))   # noqa: E731
        if n == "group_by_until":
            return [ops.group_by_until(key(st[1]), None, lambda g: self.derive(st[2], g, n))]
        if n == "group_by":
            return [ops.group_by(key(st[1]))]
        if n == "window_when":
            return [ops.window_when(lambda: self.derive(st[1], None, n))]
        if n == "window_toggle":
            return [ops.window_toggle(S(st[1]), dv(st[2]))]
        if n == "window":
            return [ops.window(S(st[1]))]
        if n == "window_with_count":
            return [ops.window_with_count(st[1], st[2])]
        if n == "group_join":
            return [ops.group_join(S(st[1]), dv(st[2]), dv(st[3]))]
        if n == "capture":
            return [ops.do_action(lambda x: self.captured.append(as_obs(x)))]
        if n in ("flat_map", "switch_map", "concat_map", "flat_map_latest"):
            return [getattr(ops, n)(dv(st[1]))]
        if n in ("merge_all", "switch_latest", "concat_all"):
            inner = ops.map(lambda x: as_obs(x) if as_obs(x) is not None else self.rx.empty())
            return [inner, {"merge_all": ops.merge_all, "switch_latest": ops.switch_latest,
                            "concat_all": lambda: ops.merge(max_concurrent=1)}[n]()]
        if n == "delay_with_mapper":
            return [ops.delay_with_mapper(dv(st[1]))]
        if n == "timeout_with_mapper":
            return [ops.timeout_with_mapper(self.rx.never(), dv(st[1]),
                                            S(st[2]) if len(st) > 2 and st[2] is not None else None)]
        if n == "throttle_with_mapper":
            return [ops.throttle_with_mapper(dv(st[1]))]
        if n == "join":
            return [ops.join(S(st[1]), dv(st[2]), dv(st[3]))]
        if n == "buffer_when":
            return [ops.buffer_when(lambda: self.derive(st[1], None, n))]
        if n == "buffer_toggle":
            return [ops.buffer_toggle(S(st[1]), dv(st[2]))]
        # terminal stages
        if n == "take":
            return [ops.take(st[1])]
        if n == "first":
            return [ops.first()]
        if n == "take_while":
            cnt = [0]

            def pred(_):
                cnt[0] += 1
                return cnt[0] <= st[1]
            return [ops.take_while(pred)]
        if n == "take_until":
            return [ops.take_until(S(st[1]))]
        if n == "take_until_with_time":
            return [ops.take_until_with_time(st[1])]
        raise ValueError(st)


def run_case(case):
    """-> dict(verdict=(kind, text)|None, judged, got, subs, derived, ...); never raises on account of the library"""
    import lib
    out = {}

    def body():
        out.update(_run_case(case))
    try:
        st, _ = lib.with_timeout(20, body)
    except BaseException as e:          # noqa: BLE001 -- whatever comes out of the library is the finding
        if isinstance(e, KeyboardInterrupt):
            raise
        return {"verdict": ("escape", f"exception escaped from the library into the driver: {e!r}"), "judged": True,
                "got": [], "subs": [], "derived": [], "open_derived_at_T": 0, "T": None, "ended_by": None}
    if st == "timeout":
        return {"verdict": ("escape", "the run did not end within 20 s (virtual time was stopped at 3000)"),
                "judged": True, "got": [], "subs": [], "derived": [], "open_derived_at_T": 0, "T": None,
                "ended_by": None}
    return out


def _run_case(case):
    from reactivex.disposable import Disposable
    W = World(case)
    sched = W.sched
    got, inner_subs = [], []
    state = {"term": None, "disp": None, "outer": None, "handed": 0, "escape": None}
    policy = case["subscriber"]
    captured_only = None

    def release_inners():
        for d in inner_subs:
            d.dispose()

    def on_next(x):
        got.append([sched.clock, "N", _show(x)])
        o = as_obs(x)
        if o is not None:
            state["handed"] += 1
            if policy == "all" or (policy == "alternate" and state["handed"] % 2 == 1):
                inner_subs.append(o.subscribe(lambda v: None, lambda e: None, lambda: None, scheduler=sched))
                if state["term"] is not None or state["disp"] is not None:
                    inner_subs[-1].dispose()

    def on_error(e):
        got.append([sched.clock, "E", _show(e)])
        if state["term"] is None:
            state["term"] = sched.clock
        release_inners()

    def on_completed():
        got.append([sched.clock, "C", None])
        if state["term"] is None:
            state["term"] = sched.clock
        release_inners()

    def do_subscribe(s, st):
        stages = []
        for stg in case["stages"]:
            stages += W.build_stage(stg)
        state["outer"] = W.sources[0]["obs"].pipe(*stages).subscribe(on_next, on_error, on_completed, scheduler=sched)
        return Disposable()

    def do_dispose(s, st):
        if state["outer"] is not None:
            if case.get("inners_first"):
                release_inners()
            state["outer"].dispose()
            release_inners()
        state["disp"] = sched.clock
        return Disposable()

    def do_stop(s, st):
        sched.stop()
        return Disposable()

    sched.schedule_absolute(T_SUB, do_subscribe)
    sched.schedule_absolute(case["dispose_at"], do_dispose)
    sched.schedule_absolute(T_STOP, do_stop)
    verdict = None
    try:
        sched.start()
    except Exception as e:              # noqa: BLE001
        verdict = ("escape", f"exception escaped from the library into the scheduler loop at {sched.clock}: {e!r}")
    ends = [t for t in (state["term"], state["disp"]) if t is not None]
    T = min(ends) if ends else None
    by_terminal = state["term"] is not None and state["term"] == T
    leak = "leak_after_terminal" if by_terminal else "leak_after_dispose"
    how = (f"the subscriber received its terminal notification at {T}" if by_terminal
           else f"the subscriber disposed at {T}")
    subs = [W.subs_of(k) for k in range(len(W.sources))]
    froms = {r["from"] for r in W.drecs}
    judged = "captured" not in froms
    if verdict is None and T is None:
        verdict = ("escape", "the run ended without the dispose action having run")
    if verdict is None:
        for k, ss in enumerate(subs):
            for (a, b) in ss:
                if b is None:
                    verdict = (leak, f"{how} (every group/window handed to it unsubscribed), but the subscription "
                                     f"opened on source {k} at {a} is never disposed")
                elif b > T:
                    verdict = (leak, f"{how}, but the subscription opened on source {k} at {a} was disposed only "
                                     f"at {b}")
                elif a > T:
                    verdict = ("subscribed_after", f"{how}, but source {k} was subscribed at {a}")
                if verdict:
                    break
            if verdict is None and W.observers_left(k):
                verdict = (leak, f"{how}, but source {k} still has {W.observers_left(k)} observer(s)")
            if verdict:
                break
    if verdict is None:
        for r in W.drecs:
            if r["close"] is None or r["close"] > T:
                verdict = (leak, f"{how}, but the subscription the pipeline opened at {r['open']} on the observable "
                                 f"made by the {r['where']} callback (derived from: {r['from']}) "
                                 + ("is never disposed" if r["close"] is None else f"was disposed only at {r['close']}"))
                break
            if r["open"] > T:
                verdict = ("subscribed_after", f"{how}, but an observable made by the {r['where']} callback was "
                                               f"subscribed at {r['open']}")
                break
    open_at_T = 0 if T is None else sum(1 for r in W.drecs if r["open"] < T and r["from"] in ("inner", "src", "captured")
                                        and (r["close"] is None or r["close"] >= T))
    return {"verdict": verdict, "judged": judged or (verdict is not None and verdict[0] == "escape"),
            "got": got, "subs": subs, "T": T, "ended_by": "terminal" if by_terminal else "dispose",
            "terminal_from_downstream": bool(by_terminal and not _upstream_terminal(case, T)),
            "derived": [[r["where"], r["from"], r["open"], r["close"]] for r in W.drecs],
            "open_derived_at_T": open_at_T, "handed": state["handed"]}


def _upstream_terminal(case, T):
    """did the main source deliver a terminal at or before T"""
    return any(m[1] in "EC" and m[0] <= T for m in case["sources"][0]["msgs"])


# ---------------------------------------------------------------------------------------------------------
# generation
# ---------------------------------------------------------------------------------------------------------

D_OPS = [["skip", 1], ["skip", 2], ["skip", 3], ["skip", 10], ["filter_ge", 100], ["filter_ge", 5],
         ["skip_while_lt", 8], ["debounce", 35], ["debounce", 120], ["delay", 60], ["ignore_elements"],
         ["take_last", 1], ["count"], ["map"], ["distinct_until_changed"], ["pairwise"], ["buffer_with_count", 3],
         ["element_at", 4]]


def gen_derivation(rng, nsrc, base=None, p_plain=0.12):
    """a derivation from the callback's own observable (or the pipeline's own source when it gets none)"""
    if base is None:
        r = rng.random()
        base = (["never"] if r < p_plain / 2 else ["timer", rng.choice([30, 90, 250])] if r < p_plain
                else ["inner"])
    opsl = [list(rng.choice(D_OPS)) for _ in range(rng.choice([1, 1, 1, 2]))] if base[0] in ("inner", "captured", "src") \
        else []
    if base[0] in ("inner", "captured", "src") and nsrc > 1 and rng.random() < 0.15:
        opsl.append([rng.choice(["merge_src", "take_until_src"]), rng.randrange(1, nsrc)])
    return {"base": base, "ops": opsl}


def gen_msgs(rng, t0, n, p_term, rel=False):
    t, msgs = t0, []
    for _ in range(n):
        t += rng.choice([5, 10, 10, 20, 30, 50])
        msgs.append([t, "N", rng.randrange(10)])
    if rng.random() < p_term:
        t += rng.choice([10, 40, 200])
        msgs.append([t, "C"] if rng.random() < 0.7 else [t, "E", rng.randrange(3)])
    return msgs


SHAPES = ["gbu_flat", "gbu_flat", "gbu_flat", "gbu_groups", "gbu_groups", "gbu_delay", "win_consumer", "win_consumer",
          "win_delay", "values", "values", "captured"]


def gen_case(seed):
    rng = random.Random(seed)
    nsrc = rng.choice([1, 2, 2, 3])
    sources = [{"kind": rng.choice(["hot", "hot", "probe"]), "msgs": gen_msgs(rng, 200, rng.randint(4, 10), 0.25)}]
    for _ in range(nsrc - 1):
        kind = rng.choice(["hot", "cold", "probe"])
        sources.append({"kind": kind, "msgs": gen_msgs(rng, 0 if kind == "cold" else 200, rng.randint(1, 5), 0.3)})
    aux = lambda: rng.randrange(1, nsrc) if nsrc > 1 else 0          # noqa: E731
    shape = rng.choice(SHAPES)
    D = lambda **kw: gen_derivation(rng, nsrc, **kw)                  # noqa: E731
    flat = lambda: rng.choice([["flat_map", D()], ["flat_map", {"base": ["inner"], "ops": []}], ["switch_map", D()],   # noqa: E731
                               ["concat_map", D()], ["flat_map_latest", D()], ["merge_all"], ["switch_latest"],
                               ["concat_all"]])
    mdelay = lambda: rng.choice([["delay_with_mapper", D()], ["throttle_with_mapper", D()],   # noqa: E731
                                 ["timeout_with_mapper", D(), None]])
    gbu = lambda: ["group_by_until", rng.choice([1, 2, 2, 3]), D()]   # noqa: E731

    def producer():
        r = rng.randrange(7)
        src = {"base": ["src", 0], "ops": [list(rng.choice(D_OPS))]}
        if r == 0:
            return ["group_by", rng.choice([2, 3])]
        if r == 1:
            return ["window_when", rng.choice([src, {"base": ["timer", rng.choice([30, 80])], "ops": []}])]
        if r == 2 and nsrc > 1:
            return ["window_toggle", aux(), rng.choice([src, {"base": ["never"], "ops": []}])]
        if r == 3 and nsrc > 1:
            return ["window", aux()]
        if r == 4 and nsrc > 1:
            return ["group_join", aux(), rng.choice([src, {"base": ["never"], "ops": []}]),
                    rng.choice([src, {"base": ["timer", 40], "ops": []}])]
        if r == 5:
            return gbu()
        return ["window_with_count", rng.choice([2, 3]), rng.choice([1, 2, 3])]

    stages, policy = [], "none"
    if shape == "gbu_flat":
        stages = [gbu(), flat()]
    elif shape == "gbu_groups":
        stages, policy = [gbu()], rng.choice(["all", "all", "alternate", "none"])
    elif shape == "gbu_delay":
        stages = [gbu(), mdelay()]
        if rng.random() < 0.5:
            stages.append(flat())
        else:
            policy = rng.choice(["all", "alternate"])
    elif shape == "win_consumer":
        stages = [producer(), flat()]
    elif shape == "win_delay":
        stages = [producer(), mdelay()]
        if rng.random() < 0.5:
            stages.append(flat())
        else:
            policy = rng.choice(["all", "alternate"])
    elif shape == "values":
        src = lambda: {"base": ["src", 0], "ops": [list(rng.choice(D_OPS))]}       # noqa: E731
        r = rng.randrange(7)
        if r == 0 and nsrc > 1:
            stages = [["join", aux(), src(), rng.choice([src(), {"base": ["timer", 40], "ops": []}])]]
        elif r == 1:
            stages = [["buffer_when", src()]]
        elif r == 2 and nsrc > 1:
            stages = [["buffer_toggle", aux(), src()]]
        elif r == 3:
            stages = [["delay_with_mapper", src()]]
        elif r == 4:
            stages = [["throttle_with_mapper", src()]]
        elif r == 5:
            stages = [["timeout_with_mapper", src(), aux() if nsrc > 1 and rng.random() < 0.5 else None]]
        else:
            stages = [[rng.choice(["flat_map", "switch_map", "concat_map"]), src()]]
    else:       # captured: the closing/duration is made from the window the subscriber was handed last
        cap = lambda: gen_derivation(rng, nsrc, base=["captured"])                 # noqa: E731
        r = rng.randrange(3)
        if r == 0 or nsrc == 1:
            stages = [["window_when", cap()], ["capture"]]
        elif r == 1:
            stages = [["window_toggle", aux(), cap()], ["capture"]]
        else:
            stages = [["group_join", aux(), cap(), {"base": ["never"], "ops": []}], ["capture"]]
        if rng.random() < 0.6:
            stages.append(flat())
        else:
            policy = rng.choice(["all", "alternate"])
    last = sources[0]["msgs"][-1][0]
    r = rng.random()
    dispose_at = T_DISPOSE
    if r < 0.25:
        stages.append(["take", rng.randint(1, 4)])
    elif r < 0.35:
        stages.append(["first"])
    elif r < 0.5:
        stages.append(["take_while", rng.randint(1, 4)])
    elif r < 0.62 and nsrc > 1:
        stages.append(["take_until", aux()])
    elif r < 0.7:
        stages.append(["take_until_with_time", rng.choice([35, 60, 110])])
    else:
        dispose_at = rng.randrange(T_SUB + 5, last + 40)
    if rng.random() < 0.1:
        dispose_at = min(dispose_at, rng.randrange(T_SUB + 5, last + 40))
    return {"family": "derived", "shape": shape, "sources": sources, "stages": stages, "subscriber": policy,
            "inners_first": rng.random() < 0.5, "dispose_at": dispose_at}


# ---------------------------------------------------------------------------------------------------------
# shrinking, family driver, replay
# ---------------------------------------------------------------------------------------------------------

def _size(case):
    return (sum(len(s["msgs"]) for s in case["sources"]) + 3 * len(case["stages"])
            + sum(len(x["ops"]) for st in case["stages"] for x in st if isinstance(x, dict)))


def shrink(case, kind):
    def fails(c):
        r = run_case(c)
        return r["judged"] and r["verdict"] is not None and r["verdict"][0] == kind
    cp = lambda c: json.loads(json.dumps(c))          # noqa: E731
    changed = True
    rounds = 0
    while changed and rounds < 6:
        changed, rounds = False, rounds + 1
        for k in range(len(case["sources"])):
            for i in range(len(case["sources"][k]["msgs"]) - 1, -1, -1):
                c = cp(case)
                del c["sources"][k]["msgs"][i]
                if fails(c):
                    case, changed = c, True
        for si in range(len(case["stages"]) - 1, -1, -1):
            if case["stages"][si][0] in ("group_by_until", "window_when", "window_toggle", "group_join", "window",
                                         "window_with_count", "group_by") and si == 0:
                pass
            else:
                c = cp(case)
                del c["stages"][si]
                if fails(c):
                    case, changed = c, True
                    continue
            for xi, x in enumerate(case["stages"][si]):
                if isinstance(x, dict):
                    for oi in range(len(x["ops"]) - 1, -1, -1):
                        if len(case["stages"][si][xi]["ops"]) <= 1:
                            break
                        c = cp(case)
                        del c["stages"][si][xi]["ops"][oi]
                        if fails(c):
                            case, changed = c, True
        for k in range(len(case["sources"])):
            if case["sources"][k]["kind"] != "hot":
                c = cp(case)
                c["sources"][k]["kind"] = "hot"
                if k == 0 or c["sources"][k]["msgs"] == [] or True:
                    if fails(c):
                        case, changed = c, True
        if case["subscriber"] != "none":
            c = cp(case)
            c["subscriber"] = "none"
            if fails(c):
                case, changed = c, True
    return case


def describe(case, res):
    return dict(case, what=res["verdict"][1] if res["verdict"] else None,
                verdict_kind=res["verdict"][0] if res["verdict"] else None, judged=res["judged"],
                T=res.get("T"), ended_by=res.get("ended_by"),
                **{"subscriber_received (t, kind, value)": res["got"],
                   "source_subscriptions (subscribe, unsubscribe) per source": res["subs"],
                   "derived_subscriptions (callback, derived from, opened, closed)": res["derived"]})


def _first_op(case):
    return "+".join(st[0] for st in case["stages"][:2])


def family(chk, pid, ncase, rng):
    """-> (histogram, set of non-trivial case seeds)"""
    hist = {"cases": 0, "shapes": {}, "ended_by_downstream_terminal": 0, "ended_by_source_terminal": 0,
            "ended_by_dispose": 0, "derived_observable_open_at_the_end": 0,
            "downstream_terminal_with_derived_open": 0, "dispose_with_derived_open": 0,
            "group_by_until_duration_from_group_open_at_downstream_terminal": 0,
            "derived_subscriptions": 0, "source_subscriptions": 0,
            "not_judged:captured_window_derivation": 0, "not_judged:captured_would_flag": 0}
    nontrivial = set()
    for _ in range(ncase):
        seed = rng.getrandbits(48)
        case = gen_case(seed)
        res = run_case(case)
        chk.cov["evaluations"] += 1
        hist["cases"] += 1
        hist["shapes"][case["shape"]] = hist["shapes"].get(case["shape"], 0) + 1
        v = res["verdict"]
        if not res["judged"]:
            hist["not_judged:captured_window_derivation"] += 1
            hist["not_judged:captured_would_flag"] += v is not None
            continue
        if v:
            small = shrink(case, v[0])
            res2 = run_case(small)
            if not res2["verdict"] or res2["verdict"][0] != v[0]:
                small, res2 = case, res
            chk.violation(f"{pid}|derived|{_first_op(small)}|{v[0]}",
                          dict(describe(small, res2), generated_from_case_seed=seed), size=_size(small))
            continue
        hist["derived_subscriptions"] += len(res["derived"])
        hist["source_subscriptions"] += sum(len(s) for s in res["subs"])
        if res["ended_by"] == "dispose":
            hist["ended_by_dispose"] += 1
        elif res["terminal_from_downstream"]:
            hist["ended_by_downstream_terminal"] += 1
        else:
            hist["ended_by_source_terminal"] += 1
        if res["open_derived_at_T"]:
            hist["derived_observable_open_at_the_end"] += 1
            if res["ended_by"] == "dispose":
                hist["dispose_with_derived_open"] += 1
                nontrivial.add(seed)
            elif res["terminal_from_downstream"]:
                hist["downstream_terminal_with_derived_open"] += 1
                nontrivial.add(seed)
                if any(d[0] == "group_by_until" and d[1] == "inner" and d[2] < res["T"] and d[3] == res["T"]
                       for d in res["derived"]):
                    hist["group_by_until_duration_from_group_open_at_downstream_terminal"] += 1
    return hist, nontrivial


def is_replay(d):
    return isinstance(d, dict) and d.get("family") == "derived" and "stages" in d


def replay_main(pid, path):
    d = json.load(open(path))
    case = {k: d[k] for k in ("family", "shape", "sources", "stages", "subscriber", "inners_first", "dispose_at")
            if k in d}
    case.setdefault("inners_first", False)
    res = run_case(case)
    print(json.dumps(describe(case, res), indent=1, default=repr))
    if res["verdict"] and res["judged"]:
        print(f"VIOLATION property={pid} replay={path}")
        return 1
    print(f"[{pid}] replay: the case no longer fails")
    return 0
