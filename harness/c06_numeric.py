"""C06, ORACLE-ONLY family `numeric`: the aggregates over NON-INTEGER numbers.

The single-source table of props/C06.py feeds min / max / min_by / max_by / sum / average with small
integers (they are mirrored in Gallina as Z) and comparers returning integers.  For those inputs int(),
round(), `//` and friends are the identity, so a slip that coerces a key, a comparer result or an accumulator
to an integer is invisible there.  This family runs the same operators over

  floats      a dyadic grid k/8 (neighbours differ by < 1), +0.0 / -0.0, +-inf, wide magnitudes;
              NaN only where the reference is well defined (sum, average, count(pred), reduce / scan,
              sequence_equal with a NaN-aware comparer)
  Fraction    n/d with d in {1..8};  Decimal: quarter steps and different exponents (1.5 / 1.50), mixed with ints
  bool+int    True / False mixed with 0 / 1 / 2 (equal values of different type: the FIRST extremal wins)
  bigint      beyond 2**63 and 2**64, differing by 1
  mixed       int, bool, float, Fraction in one sequence

and with user comparers whose RESULT is fractional (difference / 10.0), a Fraction, a Decimal, a bool mixed
with -1, a negative float / -0.0, or a pure bool (min / max only).

Reference = the same computation written in Python, from the property text:
  min / max         Python's own min(xs) / max(xs) (default comparer) or min / max under
                    functools.cmp_to_key(comparer): the FIRST extremal element, compared by type and repr
  min_by / max_by   every element whose key compares equal to Python's min / max of the keys, in arrival order
                    (judged when no comparison of two keys is NaN, e.g. inf - inf: the text is silent there)
  sum               builtin sum(keys) or the left fold from 0 (CPython >= 3.12 compensates float sums: both accepted)
  average           any of: fold(float(x)) / float(n), fold(x) / float(n), sum(xs) / len(xs), statistics.fmean --
                    compared as numbers (the float path rounds; every usual way of writing it is accepted)
  count(pred)       len([x for x in xs if pred(x)]), predicates returning the raw (falsy -0.0 / Fraction(0) /
                    Decimal('0.0') / False) value included
  reduce / scan     functools.reduce / itertools.accumulate written as a loop, float accumulators, falsy seeds
                    (0.0, -0.0, False, Fraction(0)); an exception of the accumulator (ZeroDivisionError,
                    TypeError Decimal * float) is the error, at that element
  sequence_equal    iterable and (cold) observable second argument with tolerance comparers (bool result,
                    float result used as truth value, NaN-aware equality, math.isclose): False at the first
                    pair that differs or the surplus element, else the length test at completion
Floats are compared exactly (repr): they are the same IEEE operations in the same order.
Termination: aggregates emit at the source's completion (tag n+1), a source error passes at its position,
nothing without a terminal, nothing after the terminal (10% non-conforming tails).

Every case is a pure function of its case seed (replay: family=numeric, case_seed)."""
import functools
import math
import random
import statistics
from decimal import Decimal
from fractions import Fraction

import k2
import lib
from k2 import UserError

INF = float("inf")
NAN = float("nan")

DOMAINS = ["float_close", "float_wide", "fraction", "decimal", "boolint", "bigint", "mixed"]


def draw_value(rng, dom, nan_ok=False):
    if dom == "float_close":
        r = rng.random()
        if r < 0.06:
            return rng.choice([0.0, -0.0])
        if r < 0.10:
            return rng.choice([INF, -INF])
        if nan_ok and r < 0.14:
            return NAN
        return rng.randrange(-12, 13) / 8.0
    if dom == "float_wide":
        r = rng.random()
        if nan_ok and r < 0.05:
            return NAN
        return rng.choice([0.1, 0.2, 0.3, 0.7, 1e-3, 1e16, -1e16, 1.0, 2.5, -2.75, 1e300, -1e300, 0.1 + 0.2,
                           1 / 3.0, 2 / 3.0, 5e-324, 123456.789, -0.0, INF, -INF, 3.0, 2.0 ** 53, 2.0 ** 53 + 2])
    if dom == "fraction":
        if rng.random() < 0.15:
            return rng.randrange(-2, 3)
        return Fraction(rng.randrange(-9, 10), rng.randrange(1, 9))
    if dom == "decimal":
        r = rng.random()
        if r < 0.15:
            return rng.randrange(-2, 3)
        if r < 0.3:
            return rng.choice([Decimal("1.5"), Decimal("1.50"), Decimal("0"), Decimal("0.0"), Decimal("-0.0"),
                               Decimal("1E+1"), Decimal("10")])
        return Decimal(rng.randrange(-10, 11)) / Decimal(4)
    if dom == "boolint":
        return rng.choice([True, False, 0, 1, 2, -1, True, False])
    if dom == "bigint":
        return rng.choice([2 ** 63, -2 ** 63, 2 ** 64]) + rng.randrange(-2, 3) \
            if rng.random() < 0.8 else rng.choice([2 ** 100, -2 ** 100 + 1, 2 ** 53 + 1, 0, 1])
    # mixed
    return draw_value(rng, rng.choice(["float_close", "fraction", "boolint", "float_close"]), nan_ok)


def sign(a, b):
    return (a > b) - (a < b)


# user comparers (three-way) with non-integer results.  `rank`: True = a consistent order of the keys
# (usable as the reference of min_by / max_by); False = only Python's min / max under cmp_to_key is defined
SUB_COMPARERS = {
    "default": (None, True),
    "diff_over_10": (lambda a, b: (a - b) / 10, True),                  # floats / Fractions / Decimals < 1
    "quarter_sign": (lambda a, b: sign(a, b) * 0.25, True),
    "fraction_sign": (lambda a, b: Fraction(sign(a, b), 3), True),
    "decimal_sign": (lambda a, b: Decimal(sign(a, b)) / Decimal(8), True),
    "bool_or_minus1": (lambda a, b: True if a > b else (False if a == b else -1), True),
    "negative_float": (lambda a, b: 0.25 if a > b else (-0.0 if a == b else -0.5), True),
    "reversed_half": (lambda a, b: sign(b, a) / 2.0, True),
    "pure_bool_gt": (lambda a, b: a > b, False),
}

KEY_MAPPERS = {
    "second": lambda x: x[1],
    "quarter": lambda x: x / 4,
    "negated": lambda x: -x,
    "absolute": lambda x: abs(x),
    "identity": lambda x: x,
}

SUM_KEYS = {
    None: None,
    "identity": lambda x: x,
    "quarter": lambda x: x / 4,
    "halved_float": lambda x: float(x) * 0.5,
    "times_fraction": lambda x: x * Fraction(1, 3),
}

PREDICATES = {
    None: None,
    "gt_half": lambda x: x > 0.5,
    "raw_value": lambda x: x,
    "is_nan": lambda x: x != x,
    "whole": lambda x: x % 1 == 0,
    "lt_quarter_abs": lambda x: abs(x) < 0.25,
    "negated_truth": lambda x: -x,
}

ACCUMULATORS = {
    "add": lambda a, x: a + x,
    "sub": lambda a, x: a - x,
    "damped": lambda a, x: a * 0.5 + x,
    "mean2": lambda a, x: (a + x) / 2,
    "larger": lambda a, x: a if a >= x else x,
    "mul": lambda a, x: a * x,
    "div": lambda a, x: a / x,
    "hyp": lambda a, x: math.hypot(a, x),
}

EQ_COMPARERS = {
    "default": None,
    "tolerance_bool": lambda a, b: abs(a - b) <= 0.25,
    "tolerance_float": lambda a, b: max(0.0, 0.25 - abs(a - b)),          # a FLOAT used as truth value
    "nan_aware": lambda a, b: a == b or (a != a and b != b),
    "isclose": lambda a, b: math.isclose(a, b, rel_tol=1e-9, abs_tol=1e-12),
    "exact_float": lambda a, b: float(a) == float(b),
}

OPS = ["min", "max", "min", "max", "min_by", "max_by", "min_by", "max_by", "sum", "average", "count",
       "reduce", "scan", "sequence_equal", "sequence_equal"]


def nm_case(seed):
    """everything about one case from its seed"""
    rng = random.Random(seed)
    op = rng.choice(OPS)
    dom = rng.choice(DOMAINS)
    nan_ok = op in ("sum", "average", "count", "reduce", "scan")
    c = {"seed": seed, "op": op, "dom": dom, "param": None, "second": None, "second_kind": None, "seedval": None,
         "has_seed": False}
    n = rng.choice([0, 1, 1, 2, 2, 3, 3, 4, 4, 5, 6, 8])
    xs = [draw_value(rng, dom, nan_ok) for _ in range(n)]
    if op in ("min", "max", "min_by", "max_by"):
        c["param"] = rng.choice(list(SUB_COMPARERS))
        if op.endswith("_by"):
            if c["param"] == "pure_bool_gt":
                c["param"] = "quarter_sign"
            c["key"] = rng.choice(list(KEY_MAPPERS))
            if c["key"] == "second":
                xs = [(i, x) for i, x in enumerate(xs)]
    elif op in ("sum", "average"):
        c["param"] = rng.choice(list(SUM_KEYS))
    elif op == "count":
        c["param"] = rng.choice(list(PREDICATES))
    elif op in ("reduce", "scan"):
        c["param"] = rng.choice(list(ACCUMULATORS))
        if rng.random() < 0.55:
            c["has_seed"] = True
            c["seedval"] = rng.choice([0.0, -0.0, 0.5, False, Fraction(0), 1.25, INF, 0, Decimal("0.0")]) \
                if rng.random() < 0.7 else draw_value(rng, dom, True)
    else:
        nan_cmp = rng.random() < 0.3
        c["param"] = "nan_aware" if nan_cmp else rng.choice([k for k in EQ_COMPARERS if k != "nan_aware"])
        if nan_cmp and dom.startswith("float"):
            xs = [draw_value(rng, dom, True) for _ in range(n)]
        second = list(xs)
        r = rng.random()
        if second and r < 0.35:                     # one place moved by less / more than the tolerance
            i = rng.randrange(len(second))
            try:
                second[i] = second[i] + rng.choice([0.125, -0.125, 0.25, 0.5, -1, 1e-13, 1])
            except TypeError:                       # Decimal + float
                second[i] = second[i] + rng.choice([Decimal("0.125"), Decimal("0.25"), Decimal("0.5"), 1])
        elif r < 0.47:
            second.append(draw_value(rng, dom))
        elif second and r < 0.6:
            second.pop()
        c["second"] = second
        c["second_kind"] = rng.choice(["list", "tuple", "cold_observable"])
    ins = [("N", x) for x in xs]
    t = rng.random()
    if t < 0.72:
        ins.append(("C",))
        term = "C"
    elif t < 0.87:
        code = rng.choice([11, 12])
        ins.append(("E", code))
        term = ("E", code)
    else:
        term = None
    if term is not None and rng.random() < 0.1:
        ins.append(rng.choice([("N", draw_value(rng, dom)), ("C",), ("E", 13)]))
    c["xs"], c["term"], c["ins"] = xs, term, ins
    return c


def build_for(c):
    import reactivex
    from reactivex import operators as ops
    op, p = c["op"], c["param"]
    if op in ("min", "max"):
        cmp = SUB_COMPARERS[p][0]
        o = getattr(ops, op)() if cmp is None else getattr(ops, op)(cmp)
    elif op in ("min_by", "max_by"):
        cmp = SUB_COMPARERS[p][0]
        key = KEY_MAPPERS[c["key"]]
        o = getattr(ops, op)(key) if cmp is None else getattr(ops, op)(key, cmp)
    elif op in ("sum", "average"):
        k = SUM_KEYS[p]
        o = getattr(ops, op)() if k is None else getattr(ops, op)(k)
    elif op == "count":
        k = PREDICATES[p]
        o = ops.count() if k is None else ops.count(k)
    elif op in ("reduce", "scan"):
        f = ACCUMULATORS[p]
        o = getattr(ops, op)(f, c["seedval"]) if c["has_seed"] else getattr(ops, op)(f)
    else:
        cmp = EQ_COMPARERS[p]
        sec = c["second"]
        second = (list(sec) if c["second_kind"] == "list" else tuple(sec) if c["second_kind"] == "tuple"
                  else reactivex.from_iterable(list(sec)))
        o = ops.sequence_equal(second) if cmp is None else ops.sequence_equal(second, cmp)
    return lambda src: src.pipe(o)


# ---------------------------------------------------------------- canonical forms (exact comparison)

def canon(v):
    if isinstance(v, bool):
        return ("bool", v)
    if isinstance(v, int):
        return ("int", v)
    if isinstance(v, float):
        return ("float", repr(v))
    if isinstance(v, Fraction):
        return ("Fraction", str(v))
    if isinstance(v, Decimal):
        return ("Decimal", str(v))
    if isinstance(v, (list, tuple)):
        return (type(v).__name__, tuple(canon(x) for x in v))
    return ("other", type(v).__name__, repr(v))


def canon_num(v):
    """a number as a number (average: the type of the result is not fixed by the text)"""
    try:
        f = float(v)
    except Exception:
        return canon(v)
    return ("num", repr(f))


def canon_err(e):
    if isinstance(e, UserError):
        return ("UserError", e.code)
    return (type(e).__name__,)


EMPTY = ("SequenceContainsNoElementsError",)


class NotJudged(Exception):
    pass


def reference(c):
    """-> list of acceptable outputs, each [(tag, kind, canonical payload)]; raises NotJudged(reason)"""
    op, p, xs, term = c["op"], c["param"], c["xs"], c["term"]
    n = len(xs)
    tin = n + 1
    cn = canon_num if op == "average" else canon

    def end():
        if term == "C":
            return [(tin, "C", None)]
        if term is None:
            return []
        return [(tin, "E", ("UserError", term[1]))]

    def at_completion(values=None, error=None):
        if term != "C":
            return [end()]
        if error is not None:
            return [[(tin, "E", error)]]
        outs = []
        for v in values:
            o = [(tin, "N", cn(v)), (tin, "C", None)]
            if o not in outs:
                outs.append(o)
        return outs

    if op in ("min", "max", "min_by", "max_by"):
        by = op.endswith("_by")
        cmp, rank = SUB_COMPARERS[p]
        pick = min if op.startswith("min") else max
        try:
            keys = [KEY_MAPPERS[c["key"]](x) for x in xs] if by else list(xs)
        except Exception as e:
            raise NotJudged(f"key mapper raises {type(e).__name__}")
        if not xs:
            return at_completion([[]]) if by else at_completion(error=EMPTY)
        try:
            if cmp is None:
                best = pick(keys)
                same = lambda k: k == best
            else:
                best = pick(keys, key=functools.cmp_to_key(cmp))
                same = lambda k: cmp(k, best) == 0
            if by:
                f = cmp or (lambda a, b: a - b)
                if any(f(a, b) != f(a, b) for a in keys for b in keys):
                    raise NotJudged("a comparison of two keys is NaN (inf - inf)")
                return at_completion([[x for x, k in zip(xs, keys) if same(k)]])
        except NotJudged:
            raise
        except Exception as e:
            raise NotJudged(f"reference raises {type(e).__name__}")
        return at_completion([best])
    if op in ("sum", "average"):
        k = SUM_KEYS[p]
        try:
            keys = [k(x) for x in xs] if k else list(xs)
        except Exception as e:
            raise NotJudged(f"key mapper raises {type(e).__name__}")
        if op == "average" and not xs:
            return at_completion(error=EMPTY)
        if op == "average" and k is not None and any(isinstance(v, Decimal) for v in keys):
            raise NotJudged("average(key) over Decimal keys: Decimal / float is a TypeError, the text is silent")
        cands = []
        fold = lambda vs: functools.reduce(lambda a, b: a + b, vs, 0)
        if op == "sum":
            forms = [lambda: sum(keys), lambda: fold(keys)]
        else:
            forms = [lambda: fold([float(v) for v in keys]) / float(n), lambda: fold(keys) / float(n),
                     lambda: sum(keys) / len(keys), lambda: sum(float(v) for v in keys) / len(keys),
                     lambda: statistics.fmean(keys), lambda: fold(keys) / n]
        for f in forms:
            try:
                cands.append(f())
            except Exception:
                pass
        if not cands:
            raise NotJudged("every way of writing the reference raises")
        return at_completion(cands)
    if op == "count":
        k = PREDICATES[p]
        try:
            return at_completion([len([x for x in xs if k is None or k(x)])])
        except Exception as e:
            raise NotJudged(f"predicate raises {type(e).__name__}")
    if op in ("reduce", "scan"):
        f = ACCUMULATORS[p]
        has, acc = c["has_seed"], c["seedval"]
        outs = []
        for i, x in enumerate(xs):
            if has:
                try:
                    acc = f(acc, x)
                except Exception as e:
                    return [(outs if op == "scan" else []) + [(i + 1, "E", canon_err(e))]]
            else:
                acc, has = x, True
            outs.append((i + 1, "N", canon(acc)))
        if op == "scan":
            return [outs + end()]
        if not has:
            return at_completion(error=EMPTY)
        return at_completion([acc])
    # sequence_equal
    cmp = EQ_COMPARERS[p] or (lambda a, b: a == b)
    second = c["second"]
    if p == "default" and any(v != v for v in list(xs) + list(second)):
        raise NotJudged("NaN under the default comparer")
    for i, x in enumerate(xs):
        if i >= len(second):
            return [[(i + 1, "N", canon(False)), (i + 1, "C", None)]]
        try:
            eq = bool(cmp(second[i], x))
            eq2 = bool(cmp(x, second[i]))
        except Exception as e:
            return [[(i + 1, "E", canon_err(e))]]
        if eq != eq2:
            raise NotJudged("comparer not symmetric on this pair")
        if not eq:
            return [[(i + 1, "N", canon(False)), (i + 1, "C", None)]]
    return at_completion([len(xs) == len(second)])


def run_case(c):
    """-> (observed [(tag, kind, canonical payload)], problem | None)"""
    build = build_for(c)
    ins = [(("E", UserError(ev[1])) if ev[0] == "E" else ev) for ev in c["ins"]]
    try:
        st, res = lib.with_timeout(10, k2.run_hot, build, ins)
    except BaseException as e:                                  # noqa: anything else escaping the library
        if isinstance(e, (KeyboardInterrupt, SystemExit)):
            raise
        return [], f"escaped the driver: {type(e).__name__}: {e}"
    if st != "ok":
        return [], "no answer within 10 s (hang)"
    if res["build_error"] is not None:
        return [], f"building the pipeline raised {type(res['build_error']).__name__}: {res['build_error']}"
    cn = canon_num if c["op"] == "average" else canon
    obs = []
    for (tag, kind, v) in res["out"]:
        try:
            obs.append((tag, kind, cn(v) if kind == "N" else canon_err(v) if kind == "E" else None))
        except BaseException as e:                              # noqa: a payload that cannot even be printed
            obs.append((tag, kind, ("uncanonical", type(e).__name__)))
    if res["escapes"]:
        return obs, "exception escaped into the emitter: " + ", ".join(
            f"@{t} {type(e).__name__}: {e}" for t, e in res["escapes"][:2])
    return obs, None


def judge(c):
    """-> dict(status='ok'|'bad'|'not_judged', what, expected, observed)"""
    obs, problem = run_case(c)
    try:
        exp = reference(c)
    except NotJudged as e:
        return {"status": "not_judged", "what": str(e), "expected": None, "observed": obs}
    if problem is not None:
        return {"status": "bad", "what": problem, "expected": exp, "observed": obs}
    if obs in exp:
        return {"status": "ok", "what": None, "expected": exp, "observed": obs}
    return {"status": "bad", "what": "output differs from the Python computation", "expected": exp, "observed": obs}


def describe(c):
    d = {"op": c["op"], "domain": c["dom"], "parameter": c["param"], "inputs": repr(c["ins"])}
    if "key" in c:
        d["key_mapper"] = c["key"]
    if c["has_seed"]:
        d["seed_value"] = repr(c["seedval"])
    if c["second"] is not None:
        d["second"] = f"{c['second_kind']} {c['second']!r}"
    return d


def signature(c, v):
    exp = v["expected"][0] if v["expected"] else []
    kind = ("error" if any(k == "E" for _, k, _ in v["observed"]) else
            "value" if v["observed"] else "silent")
    return f"numeric|{c['op']}|{c.get('key', '-')}|{c['param']}|{c['dom']}|{kind}|{len(exp)}"


def run_family(chk):
    n = 1500 if chk.tier == "quick" else 20000
    hist = {"op": {}, "domain": {}, "parameter": {}, "not_judged": {}, "termination": {"C": 0, "E": 0, "none": 0},
            "close_keys_lt_1_apart": 0, "with_nan": 0, "with_inf": 0, "with_negative_zero": 0,
            "equal_values_of_different_type": 0, "non_integer_comparer_result": 0, "falsy_seed": 0}
    nontrivial = set()
    judged = bad = 0
    samples = []
    for _ in range(n):
        seed = chk.rng.getrandbits(48)
        c = nm_case(seed)
        v = judge(c)
        chk.cov["evaluations"] += 1
        hist["op"][c["op"]] = hist["op"].get(c["op"], 0) + 1
        hist["domain"][c["dom"]] = hist["domain"].get(c["dom"], 0) + 1
        pk = f"{c['op']}:{c['param']}"
        hist["parameter"][pk] = hist["parameter"].get(pk, 0) + 1
        hist["termination"]["C" if c["term"] == "C" else "none" if c["term"] is None else "E"] += 1
        flat = [x[1] if isinstance(x, tuple) else x for x in c["xs"]]
        fl = [x for x in flat if isinstance(x, float)]
        hist["with_nan"] += any(x != x for x in fl)
        hist["with_inf"] += any(x in (INF, -INF) for x in fl)
        hist["with_negative_zero"] += any(x == 0 and math.copysign(1, x) < 0 for x in fl)
        try:
            close = any(0 < abs(a - b) < 1 for a in flat for b in flat)
        except Exception:
            close = False
        hist["close_keys_lt_1_apart"] += close
        hist["equal_values_of_different_type"] += any(
            a == b and type(a) is not type(b) for i, a in enumerate(flat) for b in flat[i + 1:])
        if c["op"] in ("min", "max", "min_by", "max_by") and c["param"] != "default":
            hist["non_integer_comparer_result"] += 1
        if c["has_seed"] and not c["seedval"]:
            hist["falsy_seed"] += 1
        if v["status"] == "not_judged":
            hist["not_judged"][v["what"]] = hist["not_judged"].get(v["what"], 0) + 1
            continue
        judged += 1
        if v["status"] == "bad":
            bad += 1
            chk.violation(signature(c, v),
                          dict(describe(c), family="numeric", case_seed=seed, what=v["what"],
                               expected_any_of=repr(v["expected"]), implementation=repr(v["observed"]),
                               oracle="the same computation in Python (see harness/c06_numeric.py docstring)"),
                          size=len(c["ins"]))
        elif len(c["xs"]) >= 2 and c["term"] == "C":
            nontrivial.add(repr((c["op"], c.get("key"), c["param"], c["has_seed"], repr(c["seedval"]),
                                 repr(c["ins"]), repr(c["second"]), c["second_kind"])))
            if len(samples) < 2 and close:
                samples.append(dict(describe(c), output=repr(v["observed"])))
    hist["cases"], hist["judged"], hist["failing"] = n, judged, bad
    hist["distinct_nontrivial"] = len(nontrivial)
    chk.add_samples(samples, limit=9)
    return nontrivial, hist


RULE = ("; PLUS oracle-only family `numeric` (harness/c06_numeric.py): min / max / min_by / max_by / sum / average / "
        "count(pred) / reduce / scan / sequence_equal over NON-INTEGER numbers -- floats on a grid k/8 (neighbours "
        "< 1 apart), +-0.0, +-inf, wide magnitudes, NaN where the reference is defined; Fractions; Decimals "
        "(different exponents) mixed with ints; bools mixed with ints; ints beyond 2**63; all of them mixed -- and "
        "user comparers returning fractional floats, Fractions, Decimals, bools, negative floats / -0.0; reference "
        "= the same computation in Python (min / max under functools.cmp_to_key, builtin sum or left fold, "
        "accumulate / reduce loops, pairwise comparison), floats compared exactly by repr, positions included; "
        "non-trivial there = distinct (operator, parameters, inputs) with >= 2 elements, a completion, a judged "
        "reference and the oracle satisfied")


def replay(path, d):
    c = nm_case(d["case_seed"])
    v = judge(c)
    print(f"[C06] replay numeric family  {describe(c)}")
    print("  implementation :", v["observed"])
    print("  expected any of:", v["expected"])
    if v["status"] == "bad":
        print("  what           :", v["what"])
        print(f"VIOLATION property=C06 replay={path}")
        return 1
    print("[C06] the recorded case no longer fails on the current tree"
          + (f" (not judged: {v['what']})" if v["status"] == "not_judged" else ""))
    return 0
