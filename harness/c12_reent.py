"""C12 -- ORACLE-ONLY re-entrant family for switch_latest / switch_map / switch_map_indexed / flat_map_latest.

What the machines and the other C12 families do not reach: a STALE inner that keeps talking after it was replaced.
Replacing an inner disposes its subscription, so normally it is silent from then on.  It is not when the
replacement happens RE-ENTRANTLY: inner A emits synchronously inside its own subscribe() (its subscription object
does not exist yet, so disposing it cannot stop the run), the subscriber reacts to A's element by making the outer
emit a new inner B, and A then goes on to emit, complete or fail -- all of that must be ignored; in particular the
result must not complete at the outer's completion while B is still running.

Scenario (self-contained, JSON):
  operator  "switch_latest" | "switch_map" | "switch_map_indexed" | "flat_map_latest"
  inners    [spec]: {"kind": "sync", "values": [...], "end": "C" | "E" | "open"}  -- emits the list inside subscribe(),
                        then completes / fails / stays open (silent for good)
                    {"kind": "hot"} | {"kind": "hot", "initial": v}  -- a hand-driven hot probe; with "initial" every
                        new subscriber is first handed the probe's current value (initial, or the last one pushed)
                        inside subscribe(); a terminated probe terminates a new subscriber at once
  script    top-level actions, executed one after the other
  reactions [[value, action]]: the first time the subscriber RECEIVES an element equal to value (same repr), it
            executes the action from inside its on_next (every entry fires at most once, entries in table order)
  action    ["arrive", j]  the outer emits inner j (each inner can be sent at most once: a second request is skipped)
            ["push", m, v] | ["complete", m] | ["error", m]  hot probe m emits / completes / fails
            ["outer_complete"] | ["outer_error"] | ["dispose"] (the subscriber disposes its subscription)

Reference (`reference`): the property text executed directly with latest-id semantics -- a notification of an inner
is forwarded only if that inner is, at the moment the notification is made, the most recently received one and still
running; elements, error and completion of any other inner are ignored; the result completes iff the outer has
completed and the latest inner has completed (or there was none); the first error of the outer or of the latest inner
ends it; nothing is delivered after the end or after dispose.  The complete subscriber logs (with the top-level step
number) are compared.  Independently of the reference the driver checks, after every top-level step, that no inner
other than the most recently subscribed one still has a live subscription, and, after the subscriber's end, that
nothing (outer included) is still subscribed.  The outer and the inners are probes written here (not Subjects), so
the family depends on no other part of the library than Observable.subscribe and the operators under test.

TEARDOWN reactions (family reent_teardown, generator `gen_teardown`): an optional scenario key
  teardowns [[m, action, via]]: when the subscription of inner m is DISPOSED WHILE m IS STILL RUNNING (a genuine
            unsubscription, not the clean-up after m's own completion / error) the action is executed from inside the
            dispose call, once; via = "dispose" (the dispose function of the probe's own subscription object runs it)
            or "finally_action" (the inner handed to the operator is probe.pipe(ops.finally_action(hook))).  The hook
            is armed only if m is still the most recently ARRIVED inner when its subscribe() returns (an inner replaced
            re-entrantly during its own subscribe-time run, or superseded before it was subscribed at all, is
            unsubscribed at an implementation-defined moment, or never subscribed: the statement is silent), and it is
            suppressed once the subscriber has ended / asked for dispose (nothing is observable after that).
Reading of the statement used by the reference: "unsubscribe the previous inner as soon as a new inner arrives" --
when the outer emits inner B while inner A holds a subscription, B counts as RECEIVED at that moment and A's
unsubscription (with its teardown action) is the first thing that happens, before B is subscribed.  Whatever the
teardown makes the outer emit (inner X) is received AFTER B: the arrival order is A, B, X, so X is the most recently
received inner; X's elements are forwarded, B -- superseded before it was subscribed -- is stale for good (whether
it is subscribed-and-disposed or never subscribed is left open: only the subscriber log and "no stale inner keeps a
subscription after the step" are compared), and completion needs the outer and X.  The order is not left open by the
statement: received means handed to the operator's on_next, and the nested call starts after B's call started.
"""
import copy
import json

import lib

OPS = ["switch_latest", "switch_map", "switch_map_indexed", "flat_map_latest"]
VALUES = [0, None, "", False, 1, 2, 3, 4, "a", "b"]


# ------------------------------------------------------------------------------------------------ generator
def _gen_action(rng, n, hots, vals, reaction):
    r = rng.random()
    if r < (0.55 if reaction else 0.30):
        return ["arrive", rng.randrange(n)]
    if r < (0.62 if reaction else 0.38):
        return ["outer_complete"]
    if hots and r < 0.80:
        return ["push", rng.choice(hots), rng.choice(vals)]
    if hots and r < 0.90:
        return ["complete", rng.choice(hots)]
    if hots and r < 0.94:
        return ["error", rng.choice(hots)]
    if r < 0.965:
        return ["dispose"]
    if r < 0.98:
        return ["outer_error"]
    return ["arrive", rng.randrange(n)]


def gen(rng):
    op = rng.choice(OPS)
    n = rng.choice([2, 3, 3, 4])
    vals = rng.sample(VALUES, rng.choice([3, 4, 5]))
    inners = []
    for _ in range(n):
        if rng.random() < 0.55:
            inners.append({"kind": "sync", "values": [rng.choice(vals) for _ in range(rng.choice([1, 1, 2, 2, 3]))],
                           "end": rng.choice(["C", "C", "C", "E", "open"])})
        elif rng.random() < 0.3:
            inners.append({"kind": "hot", "initial": rng.choice(vals)})
        else:
            inners.append({"kind": "hot"})
    if not any(s["kind"] == "sync" for s in inners):
        inners[0] = {"kind": "sync", "values": [rng.choice(vals), rng.choice(vals)], "end": rng.choice(["C", "C", "E"])}
    hots = [m for m, s in enumerate(inners) if s["kind"] == "hot"]
    # reactions: keyed by values that can actually be received
    seen_vals = [v for s in inners for v in s.get("values", [])] + [s["initial"] for s in inners if "initial" in s]
    reactions = []
    for _ in range(rng.choice([1, 1, 2, 2, 3])):
        v = rng.choice(seen_vals) if seen_vals and rng.random() < 0.85 else rng.choice(vals)
        reactions.append([v, _gen_action(rng, n, hots, vals, True)])
    syncs = [m for m, s in enumerate(inners) if s["kind"] == "sync"]
    script = [["arrive", rng.choice(syncs) if rng.random() < 0.7 else rng.randrange(n)]]
    length = rng.randint(3, 9)
    outer_over = False
    while len(script) < length:
        a = _gen_action(rng, n, hots, vals, False)
        late = len(script) >= length // 2
        if a[0] in ("outer_complete", "outer_error", "dispose") and not late:
            continue
        if outer_over and hots and rng.random() < 0.8:          # after the outer's end: what the inners still do
            a = rng.choice([["push", rng.choice(hots), rng.choice(vals)], ["push", rng.choice(hots), rng.choice(vals)],
                            ["complete", rng.choice(hots)]])
        if a[0] == "outer_complete":
            outer_over = True
        script.append(a)
    if not outer_over and rng.random() < 0.6:
        script.append(["outer_complete"])
        for _ in range(rng.choice([0, 1, 2])):
            if hots:
                script.append(["push", rng.choice(hots), rng.choice(vals)])
        for m in hots:
            if rng.random() < 0.7:
                script.append(["complete", m])
    return {"operator": op, "inners": inners, "script": script, "reactions": reactions}


TD_VIAS = ["dispose", "finally_action"]


def _gen_td_action(rng, n, hots, vals):
    r = rng.random()
    if r < 0.58 or not hots and r < 0.80:
        return ["arrive", rng.randrange(n)]
    if r < 0.68:
        return ["outer_complete"]
    if hots and r < 0.82:
        return ["push", rng.choice(hots), rng.choice(vals)]
    if hots and r < 0.90:
        return ["complete", rng.choice(hots)]
    if hots and r < 0.93:
        return ["error", rng.choice(hots)]
    if r < 0.96:
        return ["outer_error"]
    return ["dispose"]


def gen_teardown(rng):
    """Scenarios whose inners run reaction ops from their TEARDOWN (see the module docstring)."""
    op = rng.choice(OPS)
    n = rng.choice([3, 3, 4, 4, 5])
    vals = rng.sample(VALUES, rng.choice([3, 4, 5]))
    inners = []
    for m in range(n):
        r = rng.random()
        if r < 0.40 or m == 0 and r < 0.70:
            inners.append({"kind": "hot"})
        elif r < 0.50:
            inners.append({"kind": "hot", "initial": rng.choice(vals)})
        elif r < 0.70 or m == 0:
            inners.append({"kind": "sync", "values": [rng.choice(vals) for _ in range(rng.choice([0, 1, 1, 2]))],
                           "end": "open"})
        else:
            inners.append({"kind": "sync", "values": [rng.choice(vals) for _ in range(rng.choice([1, 1, 2, 2, 3]))],
                           "end": rng.choice(["C", "C", "C", "C", "E"])})
    hots = [m for m, s in enumerate(inners) if s["kind"] == "hot"]
    holdable = [m for m, s in enumerate(inners) if s["kind"] == "hot" or s["end"] == "open"]
    teardowns = [[m, _gen_td_action(rng, n, hots, vals), rng.choice(TD_VIAS)] for m in holdable
                 if m == 0 or rng.random() < 0.7]
    seen_vals = [v for s in inners for v in s.get("values", [])] + [s["initial"] for s in inners if "initial" in s]
    reactions = []
    for _ in range(rng.choice([0, 0, 1, 1, 2])):
        v = rng.choice(seen_vals) if seen_vals and rng.random() < 0.85 else rng.choice(vals)
        reactions.append([v, _gen_action(rng, n, hots, vals, True)])
    script = [["arrive", 0 if rng.random() < 0.7 else rng.choice(holdable)]]
    length = rng.randint(3, 9)
    outer_over = False
    while len(script) < length:
        a = ["arrive", rng.randrange(n)] if rng.random() < 0.35 else _gen_action(rng, n, hots, vals, False)
        if a[0] in ("outer_complete", "outer_error", "dispose") and len(script) < length // 2:
            continue
        if a[0] == "outer_complete":
            outer_over = True
        script.append(a)
    if not outer_over and rng.random() < 0.6:
        script.append(["outer_complete"])
    nested = {a[1] for _m, a, _via in teardowns if a[0] == "arrive"}
    script = [a for k, a in enumerate(script)                  # leave most of the teardowns' inners to the teardowns
              if k == 0 or not (a[0] == "arrive" and a[1] in nested and rng.random() < 0.75)]
    if rng.random() < 0.6:                                     # an early replacement of the first inner
        script.insert(1, ["arrive", rng.choice([j for j in range(n) if j not in nested or rng.random() < 0.2] or [0])])
    for m in hots:                                             # what the inners still do at the end
        if rng.random() < 0.6:
            script.append(["push", m, rng.choice(vals)])
        if rng.random() < 0.6:
            script.append(["complete", m])
    return {"operator": op, "inners": inners, "script": script, "reactions": reactions, "teardowns": teardowns}


# ------------------------------------------------------------------------------------------------ reference
def reference(sc):
    """The property text, executed.  Returns (log [(step, kind, payload)], facts)."""
    inners, reactions = sc["inners"], sc["reactions"]
    log, facts = [], set()
    st = {"step": -1, "latest": None, "live": False, "outer": "open", "finished": False, "held": None}
    tds = {m: a for m, a, _via in sc.get("teardowns", [])}
    td_fired, td_depth = set(), [0]
    hot = {m: {"state": "open", "value": s.get("initial"), "subscribed": False}
           for m, s in enumerate(inners) if s["kind"] == "hot"}
    used = set()                 # inners already sent (or requested to be sent) through the outer
    fired = [False] * len(reactions)
    depth = [0]

    def deliver(kind, payload=None):
        if st["finished"]:
            return
        log.append((st["step"], kind, payload))
        if kind != "N":
            st["finished"] = True
            return
        for i, (v, action) in enumerate(reactions):
            if not fired[i] and repr(v) == repr(payload):
                fired[i] = True
                depth[0] += 1
                facts.add("reaction:" + action[0])
                do(action)
                depth[0] -= 1

    def current(j):
        return st["latest"] == j and st["live"]

    def inner_next(j, v):
        if current(j):
            deliver("N", v)
        elif not st["finished"]:
            facts.add("stale_element")

    def teardown(p):
        """inner p, still running, loses its subscription (a newer inner was received)"""
        st["held"] = None
        if p in tds and p not in td_fired:
            td_fired.add(p)
            facts.add("teardown:" + tds[p][0])
            depth[0] += 1
            td_depth[0] += 1
            do(tds[p])
            td_depth[0] -= 1
            depth[0] -= 1

    def inner_completed(j):
        if current(j):
            st["live"] = False
            st["held"] = None
            if st["outer"] == "C":
                facts.add("completed_by_latest_inner")
                deliver("C")
        elif not st["finished"]:
            facts.add("stale_completion")
            if st["live"]:
                facts.add("stale_completion_while_latest_running")

    def inner_error(j):
        if current(j):
            deliver("E", f"inner{j}")
        elif not st["finished"]:
            facts.add("stale_error")

    def do(a):
        if a[0] == "arrive":
            j = a[1]
            if j in used:
                return
            used.add(j)
            if st["outer"] != "open" or st["finished"]:
                return
            if depth[0] and st["latest"] is not None:
                facts.add("reentrant_replacement")
            prev = st["held"]
            st["latest"], st["live"] = j, True            # j is RECEIVED; the previous inner is stale from here on
            if td_depth[0]:
                facts.add("arrival_during_teardown")
            if prev is not None:                          # ... and is unsubscribed first (its teardown runs now)
                teardown(prev)
                if st["finished"]:
                    return
                if st["latest"] != j:                     # the teardown made the outer emit a newer inner
                    facts.add("superseded_before_subscription")
                    return
            spec = inners[j]
            if spec["kind"] == "sync":
                for v in spec["values"]:
                    inner_next(j, v)
                if spec["end"] == "C":
                    inner_completed(j)
                elif spec["end"] == "E":
                    inner_error(j)
            else:
                h = hot[j]
                if h["state"] == "C":
                    inner_completed(j)
                elif h["state"] == "E":
                    inner_error(j)
                else:
                    h["subscribed"] = True
                    if "initial" in spec:
                        inner_next(j, h["value"])
            if not st["finished"] and st["latest"] == j and st["live"]:
                st["held"] = j                            # still the latest and running when subscribe() returns
        elif a[0] == "push":
            h = hot[a[1]]
            if h["state"] == "open":
                h["value"] = a[2]
                if h["subscribed"]:
                    if st["outer"] == "C" and current(a[1]) and not st["finished"]:
                        facts.add("latest_emits_after_outer_completed")
                    inner_next(a[1], a[2])
        elif a[0] == "complete":
            h = hot[a[1]]
            if h["state"] == "open":
                h["state"] = "C"
                if h["subscribed"]:
                    inner_completed(a[1])
        elif a[0] == "error":
            h = hot[a[1]]
            if h["state"] == "open":
                h["state"] = "E"
                if h["subscribed"]:
                    inner_error(a[1])
        elif a[0] == "outer_complete":
            if st["outer"] == "open":
                st["outer"] = "C"
                if st["live"] and not st["finished"]:
                    facts.add("outer_completed_while_latest_running")
                if not st["live"]:
                    deliver("C")
        elif a[0] == "outer_error":
            if st["outer"] == "open":
                st["outer"] = "E"
                deliver("E", "outer")
        elif a[0] == "dispose":
            st["finished"] = True
        else:
            raise AssertionError(a)

    for k, a in enumerate(sc["script"]):
        st["step"] = k
        do(a)
    return log, facts


# ------------------------------------------------------------------------------------------------ driver
def run_impl(sc):
    """Drive the real operator.  Returns (log, problems [(step, text)], index arguments seen)."""
    import reactivex as rx
    from reactivex import operators as ops
    from reactivex.disposable import Disposable
    inners, reactions = sc["inners"], sc["reactions"]
    log, problems = [], []
    step = [-1]
    live = {}                    # inner id -> number of live subscriptions
    order = []                   # inner ids in the order they were subscribed
    idx_seen = []
    tds = {m: (a, via) for m, a, via in sc.get("teardowns", [])}
    arrivals = []                # inner ids in the order the outer (while open) emitted them
    ended = [False]              # the subscriber got its terminal notification / asked for dispose
    td_done = set()

    def after_dispose(m, rec):
        if (rec is None or not rec["genuine"] or not rec["armed"] or ended[0] or m in td_done or m not in tds
                or rec["hooked"]):
            return
        rec["hooked"] = True
        td_done.add(m)
        guarded(tds[m][0], "teardown")

    def wrap(member):
        base = rx.Observable(member.subscribe)
        if member.m in tds and tds[member.m][1] == "finally_action":
            return base.pipe(ops.finally_action(lambda: after_dispose(member.m, member.last)))
        return base

    def new_rec(observer):
        return {"o": observer, "armed": False, "genuine": False, "hooked": False}

    class Probe:
        """hand-driven hot source (own observer list, remembers its end)"""

        def __init__(self, m, spec):
            self.m, self.spec = m, spec
            self.observers, self.state, self.value = [], "open", spec.get("initial")
            self.last = None
            self.observable = wrap(self)

        def subscribe(self, observer, scheduler=None):
            if self.m is not None:
                order.append(self.m)
            if self.state == "C":
                observer.on_completed()
                return Disposable()
            if self.state == "E":
                observer.on_error(Exception(f"inner{self.m}"))
                return Disposable()
            rec = self.last = new_rec(observer)
            self.observers.append(rec)
            live[self.m] = live.get(self.m, 0) + 1

            def dispose():
                if any(r is rec for r in self.observers):          # not yet removed by the probe's own end
                    self.observers = [r for r in self.observers if r is not rec]
                    live[self.m] -= 1
                    rec["genuine"] = True
                    if self.m in tds and tds[self.m][1] == "dispose":
                        after_dispose(self.m, rec)
            d = Disposable(dispose)                # runs its action once
            if "initial" in self.spec:
                observer.on_next(self.value)
            rec["armed"] = bool(arrivals) and arrivals[-1] == self.m
            return d

        def on_next(self, v):
            if self.state == "open":
                self.value = v
                for rec in list(self.observers):
                    rec["o"].on_next(v)

        def _end(self, state, call):
            if self.state == "open":
                self.state = state
                recs, self.observers = list(self.observers), []
                for rec in recs:
                    live[self.m] -= 1
                    call(rec["o"])

        def on_completed(self):
            self._end("C", lambda o: o.on_completed())

        def on_error(self, label):
            self._end("E", lambda o: o.on_error(Exception(label)))

    class Sync:
        def __init__(self, m, spec):
            self.m, self.spec = m, spec
            self.last = None
            self.observable = wrap(self)

        def subscribe(self, observer, scheduler=None):
            order.append(self.m)
            live[self.m] = live.get(self.m, 0) + 1
            rec = self.last = new_rec(observer)

            def dispose():
                live[self.m] -= 1
                if self.spec["end"] == "open":     # never ends by itself: every dispose is a genuine unsubscription
                    rec["genuine"] = True
                    if self.m in tds and tds[self.m][1] == "dispose":
                        after_dispose(self.m, rec)
            d = Disposable(dispose)
            for v in self.spec["values"]:
                observer.on_next(v)
            if self.spec["end"] == "C":
                observer.on_completed()
            elif self.spec["end"] == "E":
                observer.on_error(Exception(f"inner{self.m}"))
            rec["armed"] = bool(arrivals) and arrivals[-1] == self.m
            return d

    members = [Sync(m, s) if s["kind"] == "sync" else Probe(m, s) for m, s in enumerate(inners)]
    outer = Probe(None, {})
    used = set()
    fired = [False] * len(reactions)
    sub = [None]
    which = sc["operator"]

    def pick_indexed(j, i):
        idx_seen.append(i)
        return members[j].observable

    def do(a):
        if a[0] == "arrive":
            if a[1] in used:
                return
            used.add(a[1])
            if outer.state == "open":
                arrivals.append(a[1])
            outer.on_next(members[a[1]].observable if which == "switch_latest" else a[1])
        elif a[0] == "push":
            members[a[1]].on_next(a[2])
        elif a[0] == "complete":
            members[a[1]].on_completed()
        elif a[0] == "error":
            members[a[1]].on_error(f"inner{a[1]}")
        elif a[0] == "outer_complete":
            outer.on_completed()
        elif a[0] == "outer_error":
            outer.on_error("outer")
        elif a[0] == "dispose":
            ended[0] = True
            sub[0].dispose()
        else:
            raise AssertionError(a)

    def guarded(a, where):
        try:
            do(a)
        except AssertionError:
            raise
        except Exception as e:       # nothing in a scenario raises on a correct tree
            log.append((step[0], "RAISED", f"{where} {a}: {type(e).__name__}: {e}"[:300]))

    def on_next(v):
        log.append((step[0], "N", v))
        for i, (rv, action) in enumerate(reactions):
            if not fired[i] and repr(rv) == repr(v):
                fired[i] = True
                guarded(action, "reaction")

    if which == "switch_latest":
        o = outer.observable.pipe(ops.switch_latest())
    elif which == "switch_map":
        o = outer.observable.pipe(ops.switch_map(lambda j: members[j].observable))
    elif which == "switch_map_indexed":
        o = outer.observable.pipe(ops.switch_map_indexed(pick_indexed))
    elif which == "flat_map_latest":
        o = outer.observable.pipe(ops.flat_map_latest(lambda j: members[j].observable))
    else:
        raise AssertionError(which)
    try:
        def on_error(e):
            ended[0] = True
            log.append((step[0], "E", str(e)))

        def on_completed():
            ended[0] = True
            log.append((step[0], "C", None))
        sub[0] = o.subscribe(on_next, on_error, on_completed)
    except Exception as e:
        log.append((-1, "RAISED", f"subscribe: {type(e).__name__}: {e}"[:300]))
        return log, problems, idx_seen
    disposed = False
    for k, a in enumerate(sc["script"]):
        step[0] = k
        guarded(a, "step")
        disposed = disposed or a[0] == "dispose"
        over = disposed or any(x[1] in ("E", "C") for x in log)
        stale = sorted({m for m in order if arrivals and m != arrivals[-1] and live.get(m, 0) > 0})
        if stale:
            problems.append((k, f"inner(s) {stale} still subscribed although inner {arrivals[-1]} arrived later"))
        multi = sorted(m for m, c in live.items() if m is not None and c > 1)
        if multi:
            problems.append((k, f"inner(s) {multi} subscribed more than once"))
        if over:
            held = sorted(f"inner {m}" for m, c in live.items() if m is not None and c > 0) + \
                (["outer"] if live.get(None, 0) > 0 else [])
            if held:
                problems.append((k, f"still subscribed after the subscriber's end: {held}"))
        if problems:
            break
    return log, problems, idx_seen


def check(sc):
    """None if the implementation agrees with the reference, else (kind, text, got, expected)."""
    e_log, _ = reference(sc)
    exp = {"subscriber log (step, kind, payload)": [list(x) for x in e_log]}
    try:
        status, res = lib.with_timeout(5, run_impl, sc)
    except AssertionError:
        raise
    except Exception as e:           # e.g. RecursionError surfacing outside a guarded call
        return ("raised", f"{type(e).__name__}: {e}"[:300], None, exp)
    if status != "ok":
        return ("timeout", "the scenario did not finish in 5 s", None, exp)
    log, problems, idx_seen = res
    got = {"subscriber log (step, kind, payload)": [list(x) for x in log]}
    raised = [x for x in log if x[1] == "RAISED"]
    if raised:
        return ("raised", f"an exception escaped from the library at step {raised[0][0]}: {raised[0][2]}", got, exp)
    if repr(log) != repr(e_log):           # repr: 0 / False / 0.0 are different elements
        i = next((i for i, (a, b) in enumerate(zip(log, e_log)) if repr(a) != repr(b)), min(len(log), len(e_log)))
        g = log[i] if i < len(log) else "nothing"
        e = e_log[i] if i < len(e_log) else "nothing"
        if i < len(log) and log[i][1] == "C" and (i >= len(e_log) or e_log[i][1] != "C" or e_log[i][0] != log[i][0]):
            kind = "early-completion"
        elif i >= len(log):
            kind = "lost"
        elif log[i][1] == "N":
            kind = "extra-element"
        else:
            kind = "notifications"
        return (kind, f"subscriber's notification #{i}: got {g}, expected {e}", got, exp)
    if problems:
        got["subscription problems (step, what)"] = [list(p) for p in problems]
        return ("leak", f"step {problems[0][0]}: {problems[0][1]}", got, exp)
    if sc["operator"] == "switch_map_indexed" and repr(idx_seen) != repr(list(range(len(idx_seen)))):
        got["index arguments seen by the projection"] = idx_seen
        return ("index", f"the projection was handed the indices {idx_seen}", got, exp)
    return None


def size(sc):
    return (len(sc["script"]) + len(sc["reactions"]) + len(sc["inners"]) + len(sc.get("teardowns", []))
            + sum(len(s.get("values", [])) for s in sc["inners"]))


def shrink(sc, kind):
    """Greedy: drop script steps, reaction entries, inner values while the same kind of mismatch remains."""
    sc = copy.deepcopy(sc)

    def still(c):
        bad = check(c)
        return bad is not None and bad[0] == kind
    again = True
    while again:
        again = False
        cands = []
        for i in range(len(sc["script"])):
            c = copy.deepcopy(sc)
            del c["script"][i]
            cands.append(c)
        for i in range(len(sc["reactions"])):
            c = copy.deepcopy(sc)
            del c["reactions"][i]
            cands.append(c)
        for i in range(len(sc.get("teardowns", []))):
            c = copy.deepcopy(sc)
            del c["teardowns"][i]
            cands.append(c)
            if sc["teardowns"][i][2] != "dispose":
                c = copy.deepcopy(sc)
                c["teardowns"][i][2] = "dispose"
                cands.append(c)
        for m, s in enumerate(sc["inners"]):
            for i in range(len(s.get("values", []))):
                c = copy.deepcopy(sc)
                del c["inners"][m]["values"][i]
                cands.append(c)
            if "initial" in s:
                c = copy.deepcopy(sc)
                del c["inners"][m]["initial"]
                cands.append(c)
            if s.get("end") in ("C", "E"):
                c = copy.deepcopy(sc)
                c["inners"][m]["end"] = "open"
                cands.append(c)
        for c in cands:
            if c["script"] and still(c):
                sc, again = c, True
                break
    return sc


LEGEND = ("inners[j]: sync = emits 'values' inside subscribe() and then completes (C) / fails (E) / stays open; hot = "
          "hand-driven probe (with 'initial': hands its current value to a new subscriber inside subscribe()).  "
          "script = top-level actions; reactions = [value, action]: executed by the subscriber from inside its "
          "on_next the first time it receives that value.  ['arrive', j] = the outer emits inner j (at most once per "
          "inner).  'expected' is the property text executed with latest-id semantics: notifications of an inner that "
          "is not the most recently received one at that moment are ignored (elements, error AND completion); the "
          "result completes only when the outer has completed and the latest inner has completed.  teardowns = "
          "[m, action, via]: executed from inside the dispose call when inner m is unsubscribed while still running "
          "(via 'dispose': the probe's own subscription object; via 'finally_action': m is wrapped in "
          "ops.finally_action); the previous inner is unsubscribed as soon as the new one is received and before the "
          "new one is subscribed, so an inner that the teardown makes the outer emit is received LATER than the inner "
          "whose arrival caused the teardown and supersedes it.")


def scenarios(chk):
    _family(chk, 12000 if chk.tier == "quick" else 120000, gen, "reent_scenarios", "reent", "reentrant_replacement")
    _family(chk, 8000 if chk.tier == "quick" else 80000, gen_teardown, "reent_teardown", "reent_teardown",
            "arrival_during_teardown")
    chk.cov["rule"] += RULE


def _family(chk, n, gen, family, tag, needed_fact):
    hist, fact_hist = {}, {}
    nontrivial = set()
    shrunk, worst = {}, {}
    timeouts = done = 0
    for _ in range(n):
        if timeouts >= 3:                              # a hanging library: three witnesses are enough
            break
        sc = gen(chk.rng)
        chk.cov["evaluations"] += 1
        done += 1
        e_log, facts = reference(sc)
        key = sc["operator"] + "/" + "+".join(
            s["kind"] + (":" + s["end"] if s["kind"] == "sync" else ":initial" if "initial" in s else "")
            for s in sc["inners"])
        hist[key] = hist.get(key, 0) + 1
        for f in facts:
            fact_hist[f] = fact_hist.get(f, 0) + 1
        bad = check(sc)
        if bad:
            sig = f"C12|{tag}|{sc['operator']}|{bad[0]}"
            timeouts += bad[0] == "timeout"
            if shrunk.get(sig, 0) < 3 and bad[0] != "timeout":                 # minimise the first few per signature, keep the smallest
                shrunk[sig] = shrunk.get(sig, 0) + 1
                sc = shrink(sc, bad[0])
                bad = check(sc)
                facts = reference(sc)[1]
            if sig in worst and worst[sig][2] <= size(sc):
                continue
            worst[sig] = (sig, dict(sc, family=family, mismatch=bad[0], what=bad[1], got=bad[2],
                                    expected=bad[3], facts=sorted(facts), legend=LEGEND), size(sc))
        elif needed_fact in facts and len(e_log) >= 2:
            nontrivial.add(json.dumps(sc, sort_keys=True, default=repr))
    for sig, rep, sz in worst.values():
        chk.violation(sig, rep, size=sz)
    chk.cov["distinct_nontrivial"] += len(nontrivial)
    chk.cov["input_distribution"][family] = dict(sorted(hist.items(), key=lambda kv: -kv[1])[:40])
    chk.cov[family] = {"cases": done, "distinct_nontrivial": len(nontrivial),
                                  "distinct_shapes (operator / inner kinds)": len(hist),
                                  "cases_with": dict(sorted(fact_hist.items()))}


RULE = ("; plus oracle-only scenarios (reent_scenarios, harness/c12_reent.py): hand-driven outer probe, "
                        "2-4 inners that are synchronous sources (emit a list and complete / fail / stay open inside "
                        "subscribe()) or hot probes (optionally replaying their current value on subscribe), a seeded "
                        "top-level script and a reaction table executed by the subscriber RE-ENTRANTLY from its "
                        "on_next (make the outer emit a new inner, complete / fail the outer, push / complete / fail a "
                        "hot inner, dispose), so that replaced inners go on emitting, completing and failing; complete "
                        "subscriber logs are compared with an independent latest-id interpreter of the property text, "
                        "and after every top-level step no inner but the most recently received one may hold a "
                        "subscription (nothing at all after the subscriber's end); non-trivial = oracle holds, a "
                        "re-entrant replacement happened, >= 2 notifications"
                        "; plus oracle-only scenarios (reent_teardown, same module and interpreter): 3-5 inners of "
                        "which the ones that can hold a subscription (hot probes, synchronous sources that stay open) "
                        "carry a TEARDOWN reaction executed from inside the dispose call of their subscription (the "
                        "probe's own dispose function, or ops.finally_action around the inner) when they are "
                        "unsubscribed while still running: make the outer emit a further inner, complete / fail the "
                        "outer, push into / complete / fail a hot inner, dispose; the interpreter unsubscribes the "
                        "previous inner as soon as the new one is received and before the new one is subscribed, so an "
                        "inner emitted by the outer during that teardown is the more recently received one; "
                        "non-trivial = oracle holds, an inner arrived during a teardown, >= 2 notifications")


def replay_case(rep, path):
    sc = {k: rep[k] for k in ("operator", "inners", "script", "reactions", "teardowns") if k in rep}
    bad = check(sc)
    if bad:
        print(json.dumps(dict(sc, mismatch=bad[0], what=bad[1], got=bad[2], expected=bad[3]), indent=1, default=repr))
        print(f"VIOLATION property=C12 replay={path}")
        return 1
    print(f"[C12] replay {path}: implementation agrees with the reference semantics on this case")
    return 0
