"""C12 -- ORACLE-ONLY re-entrant family for switch_latest / switch_map / switch_map_indexed / flat_map_latest.

What the machines and the other C12 families do not reach: a STALE inner that keeps talking after it was replaced.
Replacing an inner disposes its subscription, so normally it is silent from then on.  It is not when the
replacement happens RE-ENTRANTLY: inner A emits synchronously inside its own subscribe() (its subscription object
does not exist yet, so disposing it cannot stop the run), the subscriber reacts to A's element by making the outer
emit a new inner B, and A then goes on to emit, complete or fail -- all of that must be ignored; in particular the
result must not complete at the outer's completion while B is still running.

Scenario (self-contained, JSON):
  operator  "switch_latest" | "switch_map" | "switch_map_indexed" | "flat_map_latest"
  inners    [spec]: {"kind": "sync", "values": [...], "end": "C" | "E" | "open"}  -- emits the list inside subscribe(),
                        then completes / fails / stays open (silent for good)
                    {"kind": "hot"} | {"kind": "hot", "initial": v}  -- a hand-driven hot probe; with "initial" every
                        new subscriber is first handed the probe's current value (initial, or the last one pushed)
                        inside subscribe(); a terminated probe terminates a new subscriber at once
  script    top-level actions, executed one after the other
  reactions [[value, action]]: the first time the subscriber RECEIVES an element equal to value (same repr), it
            executes the action from inside its on_next (every entry fires at most once, entries in table order)
  action    ["arrive", j]  the outer emits inner j (each inner can be sent at most once: a second request is skipped)
            ["push", m, v] | ["complete", m] | ["error", m]  hot probe m emits / completes / fails
            ["outer_complete"] | ["outer_error"] | ["dispose"] (the subscriber disposes its subscription)

Reference (`reference`): the property text executed directly with latest-id semantics -- a notification of an inner
is forwarded only if that inner is, at the moment the notification is made, the most recently received one and still
running; elements, error and completion of any other inner are ignored; the result completes iff the outer has
completed and the latest inner has completed (or there was none); the first error of the outer or of the latest inner
ends it; nothing is delivered after the end or after dispose.  The complete subscriber logs (with the top-level step
number) are compared.  Independently of the reference the driver checks, after every top-level step, that no inner
other than the most recently subscribed one still has a live subscription, and, after the subscriber's end, that
nothing (outer included) is still subscribed.  The outer and the inners are probes written here (not Subjects), so
the family depends on no other part of the library than Observable.subscribe and the operators under test.
"""
import copy
import json

import lib

OPS = ["switch_latest", "switch_map", "switch_map_indexed", "flat_map_latest"]
VALUES = [0, None, "", False, 1, 2, 3, 4, "a", "b"]


# ------------------------------------------------------------------------------------------------ generator
def _gen_action(rng, n, hots, vals, reaction):
    r = rng.random()
    if r < (0.55 if reaction else 0.30):
        return ["arrive", rng.randrange(n)]
    if r < (0.62 if reaction else 0.38):
        return ["outer_complete"]
    if hots and r < 0.80:
        return ["push", rng.choice(hots), rng.choice(vals)]
    if hots and r < 0.90:
        return ["complete", rng.choice(hots)]
    if hots and r < 0.94:
        return ["error", rng.choice(hots)]
    if r < 0.965:
        return ["dispose"]
    if r < 0.98:
        return ["outer_error"]
    return ["arrive", rng.randrange(n)]


def gen(rng):
    op = rng.choice(OPS)
    n = rng.choice([2, 3, 3, 4])
    vals = rng.sample(VALUES, rng.choice([3, 4, 5]))
    inners = []
    for _ in range(n):
        if rng.random() < 0.55:
            inners.append({"kind": "sync", "values": [rng.choice(vals) for _ in range(rng.choice([1, 1, 2, 2, 3]))],
                           "end": rng.choice(["C", "C", "C", "E", "open"])})
        elif rng.random() < 0.3:
            inners.append({"kind": "hot", "initial": rng.choice(vals)})
        else:
            inners.append({"kind": "hot"})
    if not any(s["kind"] == "sync" for s in inners):
        inners[0] = {"kind": "sync", "values": [rng.choice(vals), rng.choice(vals)], "end": rng.choice(["C", "C", "E"])}
    hots = [m for m, s in enumerate(inners) if s["kind"] == "hot"]
    # reactions: keyed by values that can actually be received
    seen_vals = [v for s in inners for v in s.get("values", [])] + [s["initial"] for s in inners if "initial" in s]
    reactions = []
    for _ in range(rng.choice([1, 1, 2, 2, 3])):
        v = rng.choice(seen_vals) if seen_vals and rng.random() < 0.85 else rng.choice(vals)
        reactions.append([v, _gen_action(rng, n, hots, vals, True)])
    syncs = [m for m, s in enumerate(inners) if s["kind"] == "sync"]
    script = [["arrive", rng.choice(syncs) if rng.random() < 0.7 else rng.randrange(n)]]
    length = rng.randint(3, 9)
    outer_over = False
    while len(script) < length:
        a = _gen_action(rng, n, hots, vals, False)
        late = len(script) >= length // 2
        if a[0] in ("outer_complete", "outer_error", "dispose") and not late:
            continue
        if outer_over and hots and rng.random() < 0.8:          # after the outer's end: what the inners still do
            a = rng.choice([["push", rng.choice(hots), rng.choice(vals)], ["push", rng.choice(hots), rng.choice(vals)],
                            ["complete", rng.choice(hots)]])
        if a[0] == "outer_complete":
            outer_over = True
        script.append(a)
    if not outer_over and rng.random() < 0.6:
        script.append(["outer_complete"])
        for _ in range(rng.choice([0, 1, 2])):
            if hots:
                script.append(["push", rng.choice(hots), rng.choice(vals)])
        for m in hots:
            if rng.random() < 0.7:
                script.append(["complete", m])
    return {"operator": op, "inners": inners, "script": script, "reactions": reactions}


# ------------------------------------------------------------------------------------------------ reference
def reference(sc):
    """The property text, executed.  Returns (log [(step, kind, payload)], facts)."""
    inners, reactions = sc["inners"], sc["reactions"]
    log, facts = [], set()
    st = {"step": -1, "latest": None, "live": False, "outer": "open", "finished": False}
    hot = {m: {"state": "open", "value": s.get("initial"), "subscribed": False}
           for m, s in enumerate(inners) if s["kind"] == "hot"}
    used = set()                 # inners already sent (or requested to be sent) through the outer
    fired = [False] * len(reactions)
    depth = [0]

    def deliver(kind, payload=None):
        if st["finished"]:
            return
        log.append((st["step"], kind, payload))
        if kind != "N":
            st["finished"] = True
            return
        for i, (v, action) in enumerate(reactions):
            if not fired[i] and repr(v) == repr(payload):
                fired[i] = True
                depth[0] += 1
                facts.add("reaction:" + action[0])
                do(action)
                depth[0] -= 1

    def current(j):
        return st["latest"] == j and st["live"]

    def inner_next(j, v):
        if current(j):
            deliver("N", v)
        elif not st["finished"]:
            facts.add("stale_element")

    def inner_completed(j):
        if current(j):
            st["live"] = False
            if st["outer"] == "C":
                facts.add("completed_by_latest_inner")
                deliver("C")
        elif not st["finished"]:
            facts.add("stale_completion")
            if st["live"]:
                facts.add("stale_completion_while_latest_running")

    def inner_error(j):
        if current(j):
            deliver("E", f"inner{j}")
        elif not st["finished"]:
            facts.add("stale_error")

    def do(a):
        if a[0] == "arrive":
            j = a[1]
            if j in used:
                return
            used.add(j)
            if st["outer"] != "open" or st["finished"]:
                return
            if depth[0] and st["latest"] is not None:
                facts.add("reentrant_replacement")
            st["latest"], st["live"] = j, True            # the previous inner is stale from here on
            spec = inners[j]
            if spec["kind"] == "sync":
                for v in spec["values"]:
                    inner_next(j, v)
                if spec["end"] == "C":
                    inner_completed(j)
                elif spec["end"] == "E":
                    inner_error(j)
            else:
                h = hot[j]
                if h["state"] == "C":
                    inner_completed(j)
                elif h["state"] == "E":
                    inner_error(j)
                else:
                    h["subscribed"] = True
                    if "initial" in spec:
                        inner_next(j, h["value"])
        elif a[0] == "push":
            h = hot[a[1]]
            if h["state"] == "open":
                h["value"] = a[2]
                if h["subscribed"]:
                    if st["outer"] == "C" and current(a[1]) and not st["finished"]:
                        facts.add("latest_emits_after_outer_completed")
                    inner_next(a[1], a[2])
        elif a[0] == "complete":
            h = hot[a[1]]
            if h["state"] == "open":
                h["state"] = "C"
                if h["subscribed"]:
                    inner_completed(a[1])
        elif a[0] == "error":
            h = hot[a[1]]
            if h["state"] == "open":
                h["state"] = "E"
                if h["subscribed"]:
                    inner_error(a[1])
        elif a[0] == "outer_complete":
            if st["outer"] == "open":
                st["outer"] = "C"
                if st["live"] and not st["finished"]:
                    facts.add("outer_completed_while_latest_running")
                if not st["live"]:
                    deliver("C")
        elif a[0] == "outer_error":
            if st["outer"] == "open":
                st["outer"] = "E"
                deliver("E", "outer")
        elif a[0] == "dispose":
            st["finished"] = True
        else:
            raise AssertionError(a)

    for k, a in enumerate(sc["script"]):
        st["step"] = k
        do(a)
    return log, facts


# ------------------------------------------------------------------------------------------------ driver
def run_impl(sc):
    """Drive the real operator.  Returns (log, problems [(step, text)], index arguments seen)."""
    import reactivex as rx
    from reactivex import operators as ops
    from reactivex.disposable import Disposable
    inners, reactions = sc["inners"], sc["reactions"]
    log, problems = [], []
    step = [-1]
    live = {}                    # inner id -> number of live subscriptions
    order = []                   # inner ids in the order they were subscribed
    idx_seen = []

    class Probe:
        """hand-driven hot source (own observer list, remembers its end)"""

        def __init__(self, m, spec):
            self.m, self.spec = m, spec
            self.observers, self.state, self.value = [], "open", spec.get("initial")
            self.observable = rx.Observable(self.subscribe)

        def subscribe(self, observer, scheduler=None):
            if self.m is not None:
                order.append(self.m)
            if self.state == "C":
                observer.on_completed()
                return Disposable()
            if self.state == "E":
                observer.on_error(Exception(f"inner{self.m}"))
                return Disposable()
            rec = [observer]
            self.observers.append(rec)
            live[self.m] = live.get(self.m, 0) + 1

            def dispose():
                if rec in self.observers:          # not yet removed by the probe's own end
                    self.observers.remove(rec)
                    live[self.m] -= 1
            d = Disposable(dispose)                # runs its action once
            if "initial" in self.spec:
                observer.on_next(self.value)
            return d

        def on_next(self, v):
            if self.state == "open":
                self.value = v
                for rec in list(self.observers):
                    rec[0].on_next(v)

        def _end(self, state, call):
            if self.state == "open":
                self.state = state
                recs, self.observers = list(self.observers), []
                for rec in recs:
                    live[self.m] -= 1
                    call(rec[0])

        def on_completed(self):
            self._end("C", lambda o: o.on_completed())

        def on_error(self, label):
            self._end("E", lambda o: o.on_error(Exception(label)))

    class Sync:
        def __init__(self, m, spec):
            self.m, self.spec = m, spec
            self.observable = rx.Observable(self.subscribe)

        def subscribe(self, observer, scheduler=None):
            order.append(self.m)
            live[self.m] = live.get(self.m, 0) + 1

            def dispose():
                live[self.m] -= 1
            d = Disposable(dispose)
            for v in self.spec["values"]:
                observer.on_next(v)
            if self.spec["end"] == "C":
                observer.on_completed()
            elif self.spec["end"] == "E":
                observer.on_error(Exception(f"inner{self.m}"))
            return d

    members = [Sync(m, s) if s["kind"] == "sync" else Probe(m, s) for m, s in enumerate(inners)]
    outer = Probe(None, {})
    used = set()
    fired = [False] * len(reactions)
    sub = [None]
    which = sc["operator"]

    def pick_indexed(j, i):
        idx_seen.append(i)
        return members[j].observable

    def do(a):
        if a[0] == "arrive":
            if a[1] in used:
                return
            used.add(a[1])
            outer.on_next(members[a[1]].observable if which == "switch_latest" else a[1])
        elif a[0] == "push":
            members[a[1]].on_next(a[2])
        elif a[0] == "complete":
            members[a[1]].on_completed()
        elif a[0] == "error":
            members[a[1]].on_error(f"inner{a[1]}")
        elif a[0] == "outer_complete":
            outer.on_completed()
        elif a[0] == "outer_error":
            outer.on_error("outer")
        elif a[0] == "dispose":
            sub[0].dispose()
        else:
            raise AssertionError(a)

    def guarded(a, where):
        try:
            do(a)
        except AssertionError:
            raise
        except Exception as e:       # nothing in a scenario raises on a correct tree
            log.append((step[0], "RAISED", f"{where} {a}: {type(e).__name__}: {e}"[:300]))

    def on_next(v):
        log.append((step[0], "N", v))
        for i, (rv, action) in enumerate(reactions):
            if not fired[i] and repr(rv) == repr(v):
                fired[i] = True
                guarded(action, "reaction")

    if which == "switch_latest":
        o = outer.observable.pipe(ops.switch_latest())
    elif which == "switch_map":
        o = outer.observable.pipe(ops.switch_map(lambda j: members[j].observable))
    elif which == "switch_map_indexed":
        o = outer.observable.pipe(ops.switch_map_indexed(pick_indexed))
    elif which == "flat_map_latest":
        o = outer.observable.pipe(ops.flat_map_latest(lambda j: members[j].observable))
    else:
        raise AssertionError(which)
    try:
        sub[0] = o.subscribe(on_next, lambda e: log.append((step[0], "E", str(e))),
                             lambda: log.append((step[0], "C", None)))
    except Exception as e:
        log.append((-1, "RAISED", f"subscribe: {type(e).__name__}: {e}"[:300]))
        return log, problems, idx_seen
    disposed = False
    for k, a in enumerate(sc["script"]):
        step[0] = k
        guarded(a, "step")
        disposed = disposed or a[0] == "dispose"
        over = disposed or any(x[1] in ("E", "C") for x in log)
        stale = sorted({m for m in order[:-1] if m != order[-1] and live.get(m, 0) > 0})
        if stale:
            problems.append((k, f"inner(s) {stale} still subscribed although inner {order[-1]} arrived later"))
        multi = sorted(m for m, c in live.items() if m is not None and c > 1)
        if multi:
            problems.append((k, f"inner(s) {multi} subscribed more than once"))
        if over:
            held = sorted(f"inner {m}" for m, c in live.items() if m is not None and c > 0) + \
                (["outer"] if live.get(None, 0) > 0 else [])
            if held:
                problems.append((k, f"still subscribed after the subscriber's end: {held}"))
        if problems:
            break
    return log, problems, idx_seen


def check(sc):
    """None if the implementation agrees with the reference, else (kind, text, got, expected)."""
    e_log, _ = reference(sc)
    exp = {"subscriber log (step, kind, payload)": [list(x) for x in e_log]}
    try:
        status, res = lib.with_timeout(5, run_impl, sc)
    except AssertionError:
        raise
    except Exception as e:           # e.g. RecursionError surfacing outside a guarded call
        return ("raised", f"{type(e).__name__}: {e}"[:300], None, exp)
    if status != "ok":
        return ("timeout", "the scenario did not finish in 5 s", None, exp)
    log, problems, idx_seen = res
    got = {"subscriber log (step, kind, payload)": [list(x) for x in log]}
    raised = [x for x in log if x[1] == "RAISED"]
    if raised:
        return ("raised", f"an exception escaped from the library at step {raised[0][0]}: {raised[0][2]}", got, exp)
    if repr(log) != repr(e_log):           # repr: 0 / False / 0.0 are different elements
        i = next((i for i, (a, b) in enumerate(zip(log, e_log)) if repr(a) != repr(b)), min(len(log), len(e_log)))
        g = log[i] if i < len(log) else "nothing"
        e = e_log[i] if i < len(e_log) else "nothing"
        if i < len(log) and log[i][1] == "C" and (i >= len(e_log) or e_log[i][1] != "C" or e_log[i][0] != log[i][0]):
            kind = "early-completion"
        elif i >= len(log):
            kind = "lost"
        elif log[i][1] == "N":
            kind = "extra-element"
        else:
            kind = "notifications"
        return (kind, f"subscriber's notification #{i}: got {g}, expected {e}", got, exp)
    if problems:
        got["subscription problems (step, what)"] = [list(p) for p in problems]
        return ("leak", f"step {problems[0][0]}: {problems[0][1]}", got, exp)
    if sc["operator"] == "switch_map_indexed" and repr(idx_seen) != repr(list(range(len(idx_seen)))):
        got["index arguments seen by the projection"] = idx_seen
        return ("index", f"the projection was handed the indices {idx_seen}", got, exp)
    return None


def size(sc):
    return (len(sc["script"]) + len(sc["reactions"]) + len(sc["inners"])
            + sum(len(s.get("values", [])) for s in sc["inners"]))


def shrink(sc, kind):
    """Greedy: drop script steps, reaction entries, inner values while the same kind of mismatch remains."""
    sc = copy.deepcopy(sc)

    def still(c):
        bad = check(c)
        return bad is not None and bad[0] == kind
    again = True
    while again:
        again = False
        cands = []
        for i in range(len(sc["script"])):
            c = copy.deepcopy(sc)
            del c["script"][i]
            cands.append(c)
        for i in range(len(sc["reactions"])):
            c = copy.deepcopy(sc)
            del c["reactions"][i]
            cands.append(c)
        for m, s in enumerate(sc["inners"]):
            for i in range(len(s.get("values", []))):
                c = copy.deepcopy(sc)
                del c["inners"][m]["values"][i]
                cands.append(c)
            if "initial" in s:
                c = copy.deepcopy(sc)
                del c["inners"][m]["initial"]
                cands.append(c)
            if s.get("end") in ("C", "E"):
                c = copy.deepcopy(sc)
                c["inners"][m]["end"] = "open"
                cands.append(c)
        for c in cands:
            if c["script"] and still(c):
                sc, again = c, True
                break
    return sc


LEGEND = ("inners[j]: sync = emits 'values' inside subscribe() and then completes (C) / fails (E) / stays open; hot = "
          "hand-driven probe (with 'initial': hands its current value to a new subscriber inside subscribe()).  "
          "script = top-level actions; reactions = [value, action]: executed by the subscriber from inside its "
          "on_next the first time it receives that value.  ['arrive', j] = the outer emits inner j (at most once per "
          "inner).  'expected' is the property text executed with latest-id semantics: notifications of an inner that "
          "is not the most recently received one at that moment are ignored (elements, error AND completion); the "
          "result completes only when the outer has completed and the latest inner has completed.")


def scenarios(chk):
    n = 12000 if chk.tier == "quick" else 120000
    hist, fact_hist = {}, {}
    nontrivial = set()
    shrunk, worst = {}, {}
    timeouts = done = 0
    for _ in range(n):
        if timeouts >= 3:                              # a hanging library: three witnesses are enough
            break
        sc = gen(chk.rng)
        chk.cov["evaluations"] += 1
        done += 1
        e_log, facts = reference(sc)
        key = sc["operator"] + "/" + "+".join(
            s["kind"] + (":" + s["end"] if s["kind"] == "sync" else ":initial" if "initial" in s else "")
            for s in sc["inners"])
        hist[key] = hist.get(key, 0) + 1
        for f in facts:
            fact_hist[f] = fact_hist.get(f, 0) + 1
        bad = check(sc)
        if bad:
            sig = f"C12|reent|{sc['operator']}|{bad[0]}"
            timeouts += bad[0] == "timeout"
            if shrunk.get(sig, 0) < 3 and bad[0] != "timeout":                 # minimise the first few per signature, keep the smallest
                shrunk[sig] = shrunk.get(sig, 0) + 1
                sc = shrink(sc, bad[0])
                bad = check(sc)
                facts = reference(sc)[1]
            if sig in worst and worst[sig][2] <= size(sc):
                continue
            worst[sig] = (sig, dict(sc, family="reent_scenarios", mismatch=bad[0], what=bad[1], got=bad[2],
                                    expected=bad[3], facts=sorted(facts), legend=LEGEND), size(sc))
        elif "reentrant_replacement" in facts and len(e_log) >= 2:
            nontrivial.add(json.dumps(sc, sort_keys=True, default=repr))
    for sig, rep, sz in worst.values():
        chk.violation(sig, rep, size=sz)
    chk.cov["distinct_nontrivial"] += len(nontrivial)
    chk.cov["input_distribution"]["reent_scenarios"] = dict(sorted(hist.items(), key=lambda kv: -kv[1])[:40])
    chk.cov["reent_scenarios"] = {"cases": done, "distinct_nontrivial": len(nontrivial),
                                  "distinct_shapes (operator / inner kinds)": len(hist),
                                  "cases_with": dict(sorted(fact_hist.items()))}
    chk.cov["rule"] += ("; plus oracle-only scenarios (reent_scenarios, harness/c12_reent.py): hand-driven outer probe, "
                        "2-4 inners that are synchronous sources (emit a list and complete / fail / stay open inside "
                        "subscribe()) or hot probes (optionally replaying their current value on subscribe), a seeded "
                        "top-level script and a reaction table executed by the subscriber RE-ENTRANTLY from its "
                        "on_next (make the outer emit a new inner, complete / fail the outer, push / complete / fail a "
                        "hot inner, dispose), so that replaced inners go on emitting, completing and failing; complete "
                        "subscriber logs are compared with an independent latest-id interpreter of the property text, "
                        "and after every top-level step no inner but the most recently subscribed one may hold a "
                        "subscription (nothing at all after the subscriber's end); non-trivial = oracle holds, a "
                        "re-entrant replacement happened, >= 2 notifications")


def replay_case(rep, path):
    sc = {k: rep[k] for k in ("operator", "inners", "script", "reactions")}
    bad = check(sc)
    if bad:
        print(json.dumps(dict(sc, mismatch=bad[0], what=bad[1], got=bad[2], expected=bad[3]), indent=1, default=repr))
        print(f"VIOLATION property=C12 replay={path}")
        return 1
    print(f"[C12] replay {path}: implementation agrees with the reference semantics on this case")
    return 0
