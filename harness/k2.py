"""K2: port-level trace replay for single-source operators.

The operator is mounted between a harness-made hot source (the harness holds
the observer the operator subscribed with and pushes notifications into it
after subscribe() returned) and a logging observer.  Every downstream
notification is tagged with the position of the input during which it arrived
(0 = inside subscribe(), k+1 = during the k-th input) -- the same tagging as
Ops/Machine.v:exec."""
from __future__ import annotations

import random

import lib
from lib import gz, glist

# element pool: ids are positions.  Falsy values first (C08).
POOL = [None, 0, False, "", (), 0.0, [], {}, 1, 2, "a", (1, 2), -1, 7, "b", True]
HASHABLE_POOL = [None, 0, False, "", (), 0.0, 1, 2, "a", (1, 2), -1, 7, "b", True]


class Pool:
    def __init__(self, values):
        self.values = list(values)
        self.K = len(self.values)
        self._ids = {(type(v).__name__, repr(v)): i for i, v in enumerate(self.values)}
        # python-equality classes (False == 0 == 0.0, True == 1)
        self.cls = []
        for i, v in enumerate(self.values):
            c = i
            for j in range(i):
                try:
                    if self.values[j] == v:
                        c = self.cls[j]
                        break
                except Exception:
                    pass
            self.cls.append(c)

    def id(self, v):
        return self._ids[(type(v).__name__, repr(v))]

    def val(self, i):
        return self.values[i]


CURRENT_TAG = [0]
CALLS = []           # tag of every user-callback invocation made through a Table
RAISED = []          # (tag, code) of every callback exception (codes >= 20) created during a run


class UserError(Exception):
    def __init__(self, code):
        super().__init__(f"user-error-{code}")
        self.code = code
        if code >= 20:
            RAISED.append((CURRENT_TAG[0], code))


class FalsyUserError(UserError):
    """an exception object that is FALSY (defines __len__ == 0, like an aggregate error with no sub-errors):
    library code must test a caught/stored exception for identity (`is not None`), never for truth"""

    def __len__(self):
        return 0


def make_error(code):
    """what a raising callback table raises: even codes raise the falsy flavour"""
    return FalsyUserError(code) if code % 2 == 0 else UserError(code)


LIB_ERRORS = {"ArgumentOutOfRangeException": -1, "SequenceContainsNoElementsError": -2,
              "Exception:Sequence contains more than one element": -3,
              "Exception:The input sequence was empty": -4, "KeyError": -5, "TypeError": -6,
              "AttributeError": -7, "IndexError": -8, "ZeroDivisionError": -9, "WouldBlockException": -10,
              "DisposedException": -11, "TimeoutError": -12, "Exception:Timeout": -12}
ESCAPED = -999


def err_id(e):
    if isinstance(e, UserError):
        return e.code
    name = type(e).__name__
    if name in LIB_ERRORS:
        return LIB_ERRORS[name]
    k = f"{name}:{e}"
    if k in LIB_ERRORS:
        return LIB_ERRORS[k]
    return -100  # unknown library error


class SubscriberError(Exception):
    """raised by run_hot's logging subscriber from its terminal callbacks when asked to (subscriber_raises)"""


class HotSource:
    """Observable whose observers the harness drives by hand; logs subscribe /
    dispose instants (input positions).  A notification is pushed to every
    subscription that has not been disposed.
    `sync` (optional, armed by run_hot(sync_prefix=p)): events the source delivers INSIDE subscribe() to the
    next subscriber, before subscribe() returns -- a source that emits a prefix and/or terminates in its own
    subscribe().  The clock reads k+1 while the k-th of them is delivered (the tag Ops/Machine.v:exec gives the
    k-th input) and keeps the last reading until the first pushed input: work the prefix set off that runs when
    subscribe() unwinds (trampolined continuations, the release of the subscription) belongs to that input."""

    def __init__(self, clock):
        import reactivex
        from reactivex.disposable import Disposable
        self.observers = []    # [observer, live]
        self.log = []          # ('sub', idx, tag) / ('unsub', idx, tag)
        self.clock = clock
        self.sync = None       # list of events for the NEXT subscription only
        self.sync_escapes = []

        def subscribe(observer, scheduler=None):
            idx = len(self.observers)
            rec = [observer, True]
            self.observers.append(rec)
            self.log.append(("sub", idx, clock[0]))

            def dispose():
                rec[1] = False
                self.log.append(("unsub", idx, clock[0]))
            if self.sync is not None:
                evs, self.sync = self.sync, None
                for k, ev in enumerate(evs):
                    clock[0] = k + 1
                    if not rec[1]:
                        continue
                    try:
                        if ev[0] == "N":
                            observer.on_next(ev[1])
                        elif ev[0] == "E":
                            observer.on_error(ev[1])
                        else:
                            observer.on_completed()
                    except SubscriberError:
                        pass
                    except Exception as e:
                        self.sync_escapes.append((k + 1, e))
            return Disposable(dispose)
        self.observable = reactivex.Observable(subscribe)

    def push(self, ev, idx=None):
        for rec in list(self.observers):
            if not rec[1]:
                continue
            o = rec[0]
            if ev[0] == "N":
                o.on_next(ev[1])
            elif ev[0] == "E":
                o.on_error(ev[1])
            else:
                o.on_completed()


def run_hot(build, inputs, dispose_at=None, warmup=None, subscriber_raises=False, dispose_in_on_next=None,
            sync_prefix=0):
    """inputs: list of ('N', value) | ('E', exception) | ('C',).
    warmup: optional list of events for an EARLIER subscription of the same
    observable object, which is disposed before the measured subscription starts
    (cold re-subscription: per-subscription state must start fresh).
    Optional, all off by default (the defaults reproduce the behaviour every existing caller relies on):
      subscriber_raises   the logging subscriber's on_error / on_completed raise SubscriberError after logging
      dispose_in_on_next  k >= 1: the subscriber calls dispose() on its own subscription from INSIDE its k-th
                          on_next (only if subscribe() has returned by then); the result carries
                          inner_dispose = dict(tag, out, sublog, calls) = the lengths of the three append-only
                          logs at the moment dispose() RETURNED (anything behind these positions happened
                          after it) -- or None when it was never issued
      sync_prefix         p: the source delivers inputs[:p] inside its own subscribe() (first measured
                          subscription), tagged 1..p like the same inputs delivered later; the rest is pushed as usual
    -> dict(out=[(tag, kind, payload)], escapes=[(tag, exc)], sublog=[...], build_error=None|exc)"""
    clock = CURRENT_TAG
    clock[0] = 0
    del RAISED[:]
    del CALLS[:]
    src = HotSource(clock)
    out, escapes = [], []
    try:
        obs = build(src.observable)
    except Exception as e:
        return {"out": [], "escapes": [], "sublog": [], "build_error": e}
    if warmup is not None:
        try:
            w = obs.subscribe(lambda v: None, lambda e: None, lambda: None)
            for ev in warmup:
                try:
                    src.push(ev)
                except Exception:
                    pass
            w.dispose()
        except Exception:
            pass
        del src.log[:]
        del RAISED[:]
        del CALLS[:]
        base = len(src.observers)
    else:
        base = 0
    holder = [None]           # the subscription, once subscribe() has returned
    nexts = [0]
    inner = [None]

    def on_next(v):
        out.append((clock[0], "N", v))
        if dispose_in_on_next is not None:
            nexts[0] += 1
            if nexts[0] == dispose_in_on_next and holder[0] is not None and inner[0] is None:
                holder[0].dispose()
                inner[0] = {"tag": clock[0], "out": len(out), "sublog": len(src.log), "calls": len(CALLS)}

    def on_error(e):
        out.append((clock[0], "E", e))
        if subscriber_raises:
            raise SubscriberError()

    def on_completed():
        out.append((clock[0], "C", None))
        if subscriber_raises:
            raise SubscriberError()
    if sync_prefix:
        src.sync = list(inputs[:sync_prefix])
    try:
        sub = obs.subscribe(on_next, on_error, on_completed)
    except SubscriberError:
        sub = None
    except Exception as e:   # raised out of subscribe()
        escapes.append((0, e))
        sub = None
    src.sync = None
    escapes.extend(src.sync_escapes)
    holder[0] = sub
    disposed_at = None
    for k, ev in enumerate(inputs):
        if k < sync_prefix:
            continue
        clock[0] = k + 1
        if dispose_at is not None and dispose_at == k and sub is not None:
            sub.dispose()
            disposed_at = len(out)
        try:
            src.push(ev)
        except SubscriberError:
            pass             # the subscriber's own terminal callback raised: expected to reach the emitter
        except Exception as e:
            escapes.append((k + 1, e))
    sublog = [(w, i - base, t) for (w, i, t) in src.log]
    return {"out": out, "escapes": escapes, "sublog": sublog, "build_error": None,
            "disposed_at": disposed_at, "n_subscriptions": len(src.observers) - base, "raised": list(RAISED),
            "calls": list(CALLS), "inner_dispose": inner[0]}


def g_ev(kind, payload, enc):
    if kind == "N":
        return f"Next {enc(payload)}"
    if kind == "E":
        return f"Err {gz(err_id(payload))}"
    return "Done"


def g_out(res, enc):
    """Gallina list (nat * ev B) of the implementation's tagged output; an
    exception escaping into the emitter is rendered as Err ESCAPED at its tag
    (no model ever produces it, so it always shows up as a disagreement)."""
    items = [(t, g_ev(k, p, enc)) for (t, k, p) in res["out"]]
    items += [(t, f"Err {gz(ESCAPED)}") for (t, e) in res["escapes"]]
    items.sort(key=lambda x: x[0])  # stable: escapes after outputs of the same tag
    return "[" + "; ".join(f"({t}%nat, {e})" for t, e in items) + "]"


def g_inputs(inputs, pool):
    def one(ev):
        if ev[0] == "N":
            return f"Next {gz(pool.id(ev[1]))}"
        if ev[0] == "E":
            return f"Err {gz(err_id(ev[1]))}"
        return "Done"
    return "[" + "; ".join(one(e) for e in inputs) + "]"


def gen_warmup(rng, pool, values=None):
    """events of an earlier, abandoned subscription: some elements, then an error,
    a completion, or nothing (the subscription is disposed afterwards)"""
    vals = values if values is not None else list(range(pool.K))
    w = [("N", pool.val(rng.choice(vals))) for _ in range(rng.choice([1, 2, 3, 4]))]
    r = rng.random()
    if r < 0.35:
        w.append(("E", UserError(14)))
    elif r < 0.5:
        w.append(("C",))
    return w


def gen_inputs(rng, pool, maxlen=7, conforming=None, values=None):
    """mostly well-formed: elements then a terminal; sometimes no terminal;
    sometimes non-conforming (events after the terminal, double terminal)."""
    n = rng.choice([0, 1, 1, 2, 2, 3, 3, 4, 5, maxlen])
    vals = values if values is not None else list(range(pool.K))
    if values is None and rng.random() < 0.2:
        vals = vals + [0] * len(vals)      # a None-heavy input (id 0 is None in both pools): `is None` sentinels
    ins = []
    sticky = rng.random() < 0.5            # runs of equal consecutive values (distinct_until_changed, pairwise ...)
    for _ in range(n):
        if ins and sticky and rng.random() < 0.5:
            ins.append(ins[-1])
        else:
            ins.append(("N", pool.val(rng.choice(vals))))
    t = rng.random()
    if t < 0.55:
        ins.append(("C",))
    elif t < 0.85:
        ins.append(("E", make_error(rng.choice([11, 12]))))
    if conforming is None:
        conforming = rng.random() < 0.8
    if not conforming:
        for _ in range(rng.randint(1, 3)):
            ins.append(rng.choice([("N", pool.val(rng.choice(vals))), ("C",), ("E", UserError(13))]))
    return ins


# ---- callbacks defined on ids, mirrored in Gallina --------------------------

def g_res(r, enc_ok):
    return f"Raise {gz(r[1])}" if r[0] == "raise" else f"Ok {enc_ok(r[1])}"


class Table:
    """a finite function id -> ('ok', v) | ('raise', code), total by a default;
    python callable over pool values and Gallina text `tbl [...] d`."""

    def __init__(self, pool, entries, default, enc_ok, post=None):
        self.pool, self.entries, self.default, self.enc_ok = pool, dict(entries), default, enc_ok
        self.calls = []
        self.post = post or (lambda v: v)

    def at(self, i):
        return self.entries.get(i, self.default)

    def __call__(self, v):
        i = self.pool.id(v)
        self.calls.append(i)
        CALLS.append(CURRENT_TAG[0])
        r = self.at(i)
        if r[0] == "raise":
            raise make_error(r[1])
        return self.post(r[1])

    def gallina(self):
        es = "; ".join(f"({gz(i)}, {g_res(r, self.enc_ok)})" for i, r in sorted(self.entries.items()))
        return f"(tbl [{es}] ({g_res(self.default, self.enc_ok)}))"


def rand_pred(rng, pool, p_raise=0.15):
    entries = {}
    for i in range(pool.K):
        r = rng.random()
        entries[i] = ("raise", rng.choice([21, 22])) if r < p_raise / 2 else ("ok", rng.random() < 0.5)
    if rng.random() > p_raise * 3:
        entries = {i: r for i, r in entries.items() if r[0] == "ok"} or entries
    # the verdict handed back to the operator: a real bool, or (half of the tables) another object with the
    # same truthiness -- 1/0, "x"/None, [0]/"" -- as user predicates like `lambda x: x % 2` or `re.match` return
    style = rng.choice(["bool", "bool", "int", "none", "container"])
    reps = {"bool": (True, False), "int": (1, 0), "none": ("x", None), "container": ([0], "")}[style]
    t = Table(pool, entries, ("ok", False), lib.gbool, post=lambda b: reps[0] if b else reps[1])
    t.verdict_style = style
    return t


def rand_map(rng, pool, p_raise=0.15):
    entries = {}
    for i in range(pool.K):
        entries[i] = ("ok", rng.randrange(pool.K))
    if rng.random() < p_raise * 3:
        for i in rng.sample(range(pool.K), 2):
            entries[i] = ("raise", rng.choice([31, 32]))
    t = Table(pool, entries, ("ok", 0), gz, post=lambda i: pool.val(i))
    return t
