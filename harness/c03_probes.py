"""C03, oracle-only family `probes`: operators that subscribe to USER-MADE observables -- one per element (delay /
throttle / timeout duration mappers, flat_map / switch_map / concat_map projections, buffer_when / window_when /
*_toggle closings, group_by_until / join / group_join durations, observables that are the elements themselves) or one
per subscription (sample's sampler, take_until / skip_until other, boundaries, openings, first timeout, fallback,
subscription delay, the second source of a combinator).

Every such observable is a PROBE that keeps its own observer list.  Kinds (mixed inside one case):

    gate       emits one value SYNCHRONOUSLY inside subscribe() and stays open        (BehaviorSubject-like)
    gate2      emits two values inside subscribe() and stays open                     (ReplaySubject-like)
    late       emits nothing inside subscribe(); the script pushes into it later
    done       completes inside subscribe()                                            (empty-like)
    val_done   emits one value and completes inside subscribe()                        (return_value-like)
    err        fails inside subscribe()                                                (rare)
    behavior   the library's BehaviorSubject;  replay  the library's ReplaySubject with two buffered values

optionally followed by map / do_action / filter with spy callbacks (user callbacks placed on the probe's pipeline).
A mapper hands out a fresh probe per call, or (share = 1 / 2) the same one / two probes again and again.

A case = one operator, its probes, a script of pushes (source elements and terminals, pushes into the probes) and
ONE point at which the subscriber lets go:
    between   dispose() between two steps of the script (position 0 = right after subscribe() returned)
    inner     dispose() from INSIDE the subscriber's k-th on_next (k drawn from an undisturbed run)
    end       dispose() after the whole script
or, before that point is reached, the TERMINAL the subscriber received (the subscription is then closed by the
library itself).  Windows / groups handed to the subscriber are subscribed (or not: a flag), and "the subscriber lets
go" means the outer subscription and every window / group subscription (in either order), so that nothing stays
"shared with a live group or window subscriber".

One append-only log records, with the step number: every notification to the subscriber (and to its window
subscribers), every user callback (mappers, key mapper, spies on the probes' pipelines), every subscribe to / unsubscribe
from a probe.  After the point above the harness pushes two elements and a terminal into EVERY probe and into the
source.  Statement of C03, read directly:

    * when the step of the dispose() / of the terminal ends, NO probe (and not the source) has an observer left;
    * behind the log position at which dispose() returned: no notification and no user callback;
    * in later steps (the pushes into the probes): no notification, no user callback, no probe subscribed;
    * at the very end still no probe has an observer.
(A probe subscribed behind an in-callback dispose() but inside the same step is counted, not judged -- as in
harness/relcases.py; within the step of a terminal only the first clause is judged; within the step of an in-callback
dispose() the spies on the pipeline of a probe that was subscribed in that very step are not judged: what a probe hands
over while the operator is still inside its subscribe() call to it -- a second element of `gate2`, a ReplaySubject
replaying through the trampoline that call drains -- cannot be stopped by an operator that does not hold the probe's
disposable yet.  An in-callback dispose() is drawn among the elements delivered after subscribe() returned.)

Each case is a function of one integer, so replay files hold (family, case_seed)."""
from __future__ import annotations

import random

import lib

KINDS = ["gate", "gate", "gate", "gate2", "late", "late", "late", "done", "val_done", "behavior", "replay", "err"]
KINDS_NOERR = [k for k in KINDS if k != "err"]
DECOR = ["none", "none", "map", "do_action", "filter"]
MAX_MAPPER_PROBES = 7          # mapper calls beyond this always get a fresh `late` probe (no unbounded recursion)
SRC_VALUES = [0, 1, 2, 3, 4, 5]


class SpyError(Exception):
    pass


# name -> (number of per-subscription probes, hands windows/groups to the subscriber)
OPERATORS = {
    "delay_with_mapper": (0, False), "delay_with_mapper_subdelay": (1, False),
    "throttle_with_mapper": (0, False),
    "timeout_with_mapper": (2, False), "timeout_with_mapper_nofirst": (1, False),
    "flat_map": (0, False), "flat_map_indexed": (0, False), "flat_map_latest": (0, False),
    "switch_map": (0, False), "switch_map_indexed": (0, False), "concat_map": (0, False),
    "map_merge_all": (0, False), "map_switch_latest": (0, False), "map_merge_mc": (0, False),
    "expand": (0, False),
    "buffer": (1, False), "buffer_when": (0, False), "buffer_toggle": (1, False),
    "window": (1, True), "window_when": (0, True), "window_toggle": (1, True),
    "group_by_until": (0, True), "join": (1, False), "group_join": (1, True),
    "sample": (1, False), "take_until": (1, False), "skip_until": (1, False),
    "with_latest_from": (1, False), "combine_latest": (1, False), "zip": (1, False), "amb": (1, False),
    "merge": (1, False), "concat": (1, False), "catch": (1, False), "on_error_resume_next": (1, False),
    "sequence_equal": (1, False),
}
# the operators the family is about are drawn more often than the plain two-source combinators
WEIGHTS = {n: (1 if n in ("with_latest_from", "combine_latest", "zip", "amb", "merge", "concat", "catch",
                          "on_error_resume_next", "sequence_equal") else 3) for n in OPERATORS}


def gen_case(case_seed):
    rng = random.Random(case_seed)
    names = sorted(OPERATORS)
    op = rng.choices(names, weights=[WEIGHTS[n] for n in names])[0]
    nfixed, windows = OPERATORS[op]
    kinds = [rng.choice(KINDS if rng.random() < 0.5 else KINDS_NOERR) for _ in range(rng.randrange(1, MAX_MAPPER_PROBES))]
    if rng.random() < 0.25:                       # the plain demo shape: every per-element probe an open gate
        kinds = [rng.choice(["gate", "behavior", "gate2", "replay"])] * len(kinds)
    fixed = [rng.choice(KINDS_NOERR + ["late", "late"]) for _ in range(nfixed)]
    c = {"op": op, "kinds": kinds, "fixed": fixed, "decor": [rng.choice(DECOR) for _ in range(4)],
         "share": rng.choice([0, 0, 0, 1, 2]), "raise_call": rng.choice([None] * 9 + [0, 1, 3]),
         "tail": rng.choice([None] * 5 + [1, 2, 3]), "subscribe_windows": rng.random() < 0.7,
         "inner_first": rng.random() < 0.5, "mode": rng.choice(["between", "between", "inner", "inner", "end"]),
         "u": rng.random()}
    script = []
    nprobes = nfixed + len(kinds)
    for _ in range(rng.randrange(1, 9)):
        r = rng.random()
        if r < 0.55:
            script.append(["s", rng.choice(SRC_VALUES)])
        elif r < 0.92:
            script.append(["p", rng.randrange(nprobes + 1), rng.choice(["n", "n", "n", "n", "c", "e"])])
        elif r < 0.97:
            script.append(["sc"])
        else:
            script.append(["se"])
    if rng.random() < 0.3:
        script.append(["sc"])
    c["script"] = script
    return c


class Env:
    def __init__(self, c):
        self.c = c
        self.log = []                 # (what, a, step)
        self.step = 0
        self.probes = []              # creation order; fixed ones first
        self.shared = {}
        self.calls = 0
        self.mark = None              # log position of the point judged
        self.mark_step = None
        self.mark_kind = None
        self.leak_at_mark = None
        self.outer = None             # the subscriber's subscription ...
        self.inner = []               # ... and its subscriptions to the windows / groups it was handed
        self.nexts = 0
        self.nexts_in_subscribe = 0
        self.escapes = []

    def rec(self, what, a):
        self.log.append((what, a, self.step))


def make_probe(env, kind, decor):
    """-> Probe record with .obs (what is handed to the operator), .live() and .push(what, v)"""
    lib.import_repo()
    from reactivex import Observable, operators as ops
    from reactivex.disposable import Disposable
    from reactivex.subject import BehaviorSubject, ReplaySubject
    pid = len(env.probes)

    class P:
        pass
    p = P()
    p.pid, p.kind, p.entries = pid, kind, []
    if kind in ("behavior", "replay"):
        if kind == "behavior":
            subj = BehaviorSubject(("b", pid))
        else:
            subj = ReplaySubject()
            subj.on_next(("r", pid, 0))
            subj.on_next(("r", pid, 1))
        p.live = lambda: len(subj.observers)

        def push(what, v):
            if what == "n":
                subj.on_next(v)
            elif what == "c":
                subj.on_completed()
            else:
                subj.on_error(SpyError(f"probe{pid}"))
        p.push = push

        class Wrapped(Observable):            # only to see the subscribe / unsubscribe calls in the log
            def _subscribe_core(self, observer, scheduler=None):
                env.rec("sub", pid)
                d = subj.subscribe(observer, scheduler=scheduler)

                def dispose():
                    env.rec("unsub", pid)
                    d.dispose()
                return Disposable(dispose)
        base = Wrapped()
    else:
        class Hand(Observable):
            def _subscribe_core(self, observer, scheduler=None):
                entry = [observer]
                p.entries.append(entry)
                env.rec("sub", pid)

                def dispose():
                    if entry in p.entries:
                        p.entries.remove(entry)
                        env.rec("unsub", pid)
                if kind in ("gate", "gate2", "val_done"):
                    observer.on_next(("g", pid, 0))
                if kind == "gate2":
                    observer.on_next(("g", pid, 1))
                if kind in ("done", "val_done"):
                    observer.on_completed()
                if kind == "err":
                    observer.on_error(SpyError(f"probe{pid} in subscribe"))
                return Disposable(dispose)
        p.live = lambda: len(p.entries)

        def push(what, v):
            for entry in list(p.entries):
                o = entry[0]
                if what == "n":
                    o.on_next(v)
                elif what == "c":
                    o.on_completed()
                else:
                    o.on_error(SpyError(f"probe{pid}"))
        p.push = push
        base = Hand()

    def spy(name, f):
        def g(x):
            env.rec("cb", ("probe", pid, name))
            return f(x)
        return g
    if decor == "map":
        base = base.pipe(ops.map(spy("map", lambda x: ("m", x))))
    elif decor == "do_action":
        base = base.pipe(ops.do_action(spy("do_action", lambda x: None)))
    elif decor == "filter":
        base = base.pipe(ops.filter(spy("filter", lambda x: True)))
    p.obs = base
    env.probes.append(p)
    return p


def build(env):
    """-> (source probe, pipeline observable)"""
    lib.import_repo()
    from reactivex import operators as ops
    c = env.c
    decor = c["decor"]
    src = make_probe(env, "late", "none")                       # probe 0 is the source
    fixed = [make_probe(env, k, decor[(i + 1) % len(decor)]) for i, k in enumerate(c["fixed"])]
    nfix = 1 + len(fixed)

    def mk(*a):
        env.rec("cb", "mapper")
        i = env.calls
        env.calls += 1
        if c["raise_call"] is not None and i == c["raise_call"]:
            raise SpyError(f"mapper call {i}")
        if i >= len(c["kinds"]) or len(env.probes) - nfix >= MAX_MAPPER_PROBES + 4:
            return make_probe(env, "late", "none").obs
        if c["share"]:
            slot = i % c["share"]
            if slot not in env.shared:
                env.shared[slot] = make_probe(env, c["kinds"][slot % len(c["kinds"])], decor[slot % len(decor)])
            return env.shared[slot].obs
        return make_probe(env, c["kinds"][i], decor[i % len(decor)]).obs

    def key(x):
        env.rec("cb", "key_mapper")
        return x % 2
    f0 = fixed[0].obs if fixed else None
    f1 = fixed[1].obs if len(fixed) > 1 else None
    op = c["op"]
    table = {
        "delay_with_mapper": lambda: [ops.delay_with_mapper(mk)],
        "delay_with_mapper_subdelay": lambda: [ops.delay_with_mapper(f0, mk)],
        "throttle_with_mapper": lambda: [ops.throttle_with_mapper(mk)],
        "timeout_with_mapper": lambda: [ops.timeout_with_mapper(f0, mk, f1)],
        "timeout_with_mapper_nofirst": lambda: [ops.timeout_with_mapper(None, mk, f0)],
        "flat_map": lambda: [ops.flat_map(mk)],
        "flat_map_indexed": lambda: [ops.flat_map_indexed(lambda x, i: mk(x))],
        "flat_map_latest": lambda: [ops.flat_map_latest(mk)],
        "switch_map": lambda: [ops.switch_map(mk)],
        "switch_map_indexed": lambda: [ops.switch_map_indexed(lambda x, i: mk(x))],
        "concat_map": lambda: [ops.concat_map(mk)],
        "map_merge_all": lambda: [ops.map(mk), ops.merge_all()],
        "map_switch_latest": lambda: [ops.map(mk), ops.switch_latest()],
        "map_merge_mc": lambda: [ops.map(mk), ops.merge(max_concurrent=2)],
        "expand": lambda: [ops.expand(mk)],
        "buffer": lambda: [ops.buffer(f0)],
        "buffer_when": lambda: [ops.buffer_when(mk)],
        "buffer_toggle": lambda: [ops.buffer_toggle(f0, mk)],
        "window": lambda: [ops.window(f0)],
        "window_when": lambda: [ops.window_when(mk)],
        "window_toggle": lambda: [ops.window_toggle(f0, mk)],
        "group_by_until": lambda: [ops.group_by_until(key, None, mk)],
        "join": lambda: [ops.join(f0, mk, mk)],
        "group_join": lambda: [ops.group_join(f0, mk, mk)],
        "sample": lambda: [ops.sample(f0)],
        "take_until": lambda: [ops.take_until(f0)],
        "skip_until": lambda: [ops.skip_until(f0)],
        "with_latest_from": lambda: [ops.with_latest_from(f0)],
        "combine_latest": lambda: [ops.combine_latest(f0)],
        "zip": lambda: [ops.zip(f0)],
        "amb": lambda: [ops.amb(f0)],
        "merge": lambda: [ops.merge(f0)],
        "concat": lambda: [ops.concat(f0)],
        "catch": lambda: [ops.catch(f0)],
        "on_error_resume_next": lambda: [ops.on_error_resume_next(f0)],
        "sequence_equal": lambda: [ops.sequence_equal(f0)],
    }
    stages = table[op]()
    if c["tail"] is not None:
        stages.append(ops.take(c["tail"]))
    return src, src.obs.pipe(*stages)


def run_case(c, dispose=True):
    """-> Env after the run (log, mark, leaks).  dispose=False: the undisturbed run used to fix the dispose point."""
    lib.import_repo()
    from reactivex import Observable
    from reactivex.disposable import Disposable
    env = Env(c)
    windows = OPERATORS[c["op"]][1]

    def live():
        return {p.pid: p.live() for p in env.probes if p.live()}

    def let_go(kind):
        """the subscriber disposes everything it holds; the first such point (or terminal) is the one judged"""
        subs = list(env.inner) + [env.outer] if c["inner_first"] else [env.outer] + list(env.inner)
        for s in subs:
            s.dispose()
        if env.mark is None:
            env.mark, env.mark_step, env.mark_kind = len(env.log), env.step, kind

    def note(what, v):
        env.rec(what, v)
        if what == "next":
            env.nexts += 1
            if env.outer is None:
                env.nexts_in_subscribe += 1
            if dispose and c["mode"] == "inner" and env.nexts == c.get("k") and env.mark is None:
                let_go("dispose-inner")
                return True
        elif what in ("error", "completed") and v[0] == "outer" and env.mark is None:
            env.mark, env.mark_step, env.mark_kind = len(env.log), env.step, "terminal"
        return False

    def on_next(v):
        wobs = None
        if windows:
            wobs = v[1] if c["op"] == "group_join" else v
            shown = ("window", v[0]) if c["op"] == "group_join" else ("window", getattr(v, "key", None))
        else:
            shown = v
        if note("next", ("outer", repr(shown))):
            return
        if wobs is not None and c["subscribe_windows"] and isinstance(wobs, Observable):
            wid = len(env.inner)
            env.inner.append(wobs.subscribe(lambda x: note("next", ("w", wid, repr(x))),
                                           lambda e: note("error", ("w", wid, type(e).__name__)),
                                           lambda: note("completed", ("w", wid))))

    src, pipeline = build(env)

    def guarded(f, *a):
        try:
            f(*a)
        except Exception as e:            # an exception that escapes into the pusher: recorded, not judged here
            env.escapes.append((env.step, repr(e)))

    def end_of_step():
        if env.mark is not None and env.mark_step == env.step and env.leak_at_mark is None:
            if env.mark_kind == "terminal":
                for s in env.inner:               # no window / group subscriber stays alive
                    s.dispose()
            env.leak_at_mark = live()

    def subscribe():
        env.outer = pipeline.subscribe(on_next, lambda e: note("error", ("outer", type(e).__name__)),
                                       lambda: note("completed", ("outer",)))
    # (an in-callback dispose() is only drawn among the elements delivered after subscribe() returned: before that
    # the subscriber does not hold its subscription)
    guarded(subscribe)
    if env.outer is None:
        env.outer = Disposable()
    end_of_step()
    pos = c.get("pos")
    for j, stp in enumerate(c["script"]):
        if dispose and c["mode"] == "between" and pos == j and env.mark is None:
            env.step += 1
            let_go("dispose-between")
            end_of_step()
        env.step += 1
        if stp[0] == "s":
            guarded(src.push, "n", stp[1])
        elif stp[0] == "sc":
            guarded(src.push, "c", None)
        elif stp[0] == "se":
            guarded(src.push, "e", None)
        else:
            i = stp[1]
            if 1 <= i < len(env.probes):
                guarded(env.probes[i].push, stp[2], ("pushed", i, j))
        end_of_step()
    if dispose and env.mark is None:
        env.step += 1
        let_go("dispose-between" if c["mode"] == "between" else "dispose-end")
        end_of_step()
    elif dispose:
        env.step += 1
        for s in [env.outer] + list(env.inner):   # a subscriber may always dispose again (idempotent)
            s.dispose()
    if dispose:
        # afterwards: push into every probe and the source; nothing of it may reach the subscriber or a user callback
        for what in ("n", "n", "c"):
            for p in list(env.probes):
                env.step += 1
                guarded(p.push, what, ("after", p.pid))
        env.leak_at_end = live()
    return env


def prepare(c):
    dry = run_case(c, dispose=False)
    nexts, n0 = dry.nexts, dry.nexts_in_subscribe
    if c["mode"] == "inner":
        c["k"] = min(nexts, n0 + 1 + int(c["u"] * (nexts - n0))) if nexts > n0 else None
    elif c["mode"] == "between":
        c["pos"] = int(c["u"] * (len(c["script"]) + 1))
    c["dry_log_len"] = len(dry.log)
    return c


def verdict(c, env):
    """-> (class, text) or None"""
    if env.mark is None:
        return None
    what_point = {"dispose-between": "dispose() returned", "dispose-end": "dispose() returned",
                  "dispose-inner": "dispose() returned (called inside on_next)",
                  "terminal": "the subscriber received its terminal"}[env.mark_kind]
    after = env.log[env.mark:]
    judged_in_step = env.mark_kind != "terminal"
    if env.leak_at_mark:
        return ("open", f"when the step in which {what_point} ended, probes (0 = source) still had observers "
                        f"{{probe: count}} = {env.leak_at_mark}")
    for (what, a, st) in after:
        if st == env.mark_step and not judged_in_step:
            continue
        if what in ("next", "error", "completed"):
            return ("notification", f"notification {what} {a!r} in step {st} after {what_point} in step {env.mark_step}")
    # What a probe hands over while the operator is still inside its subscribe() call to it is the probe's doing: the
    # operator does not hold the probe's disposable yet (and a ReplaySubject replays through the trampoline which that
    # very call drains).  So, within the step of an in-callback dispose(), the spies on the pipeline of a probe that
    # was SUBSCRIBED in that step are not judged; in every later step they are.
    subscribed_in_mark_step = {a for (what, a, st) in env.log if what == "sub" and st == env.mark_step}
    for (what, a, st) in after:
        if st == env.mark_step and not judged_in_step:
            continue
        if what == "cb" and st == env.mark_step and isinstance(a, tuple) and a[1] in subscribed_in_mark_step:
            continue
        if what == "cb":
            name = a if isinstance(a, str) else f"{a[2]} spy on the pipeline of probe {a[1]}"
            return ("callback", f"user callback `{name}` ran in step {st} after {what_point} in step {env.mark_step}")
    for (what, a, st) in after:
        if what == "sub" and st > env.mark_step:
            return ("subscribed", f"probe {a} subscribed in step {st}, after {what_point} in step {env.mark_step}")
    if getattr(env, "leak_at_end", None):
        return ("open_at_end", f"after the pushes that follow, probes (0 = source) have observers {env.leak_at_end}")
    return None


def run_one(seed):
    c = prepare(gen_case(seed))
    env = run_case(c)
    return c, env, verdict(c, env)


def describe(c, env, v):
    return {"case": c, "probe kinds (0 = source)": {p.pid: p.kind for p in env.probes},
            "log (what, detail, step)": env.log, "judged point": env.mark_kind, "its log position": env.mark,
            "its step": env.mark_step, "observers left at that step's end": env.leak_at_mark,
            "observers left at the end": getattr(env, "leak_at_end", None), "escapes": env.escapes,
            "what": v[1] if v else None}


def family(chk, pid, n, rng):
    hist = {"cases": 0, "operator": {}, "mode": {}, "judged_point": {}, "probe_kinds_subscribed": {},
            "cases with a probe that emitted inside subscribe() and stayed open": 0,
            "cases with such a probe AND a late one AND one that completed inside subscribe()": 0,
            "probe subscribed behind an in-callback dispose within the same step (counted, not judged)": 0,
            "escaped exceptions (counted, not judged)": 0, "timeouts": 0, "windows_subscribed": 0}
    nontrivial = set()
    for _ in range(n):
        seed = rng.getrandbits(48)
        status, out = lib.with_timeout(10, run_one, seed)
        chk.cov["evaluations"] += 1
        hist["cases"] += 1
        if status != "ok":
            hist["timeouts"] += 1
            chk.violation(f"{pid}|probes|timeout", {"family": "probes", "case_seed": seed, "case": gen_case(seed),
                                                    "what": "the case did not finish within 10 s"}, size=99)
            continue
        c, env, v = out
        hist["operator"][c["op"]] = hist["operator"].get(c["op"], 0) + 1
        hist["mode"][c["mode"]] = hist["mode"].get(c["mode"], 0) + 1
        hist["judged_point"][str(env.mark_kind)] = hist["judged_point"].get(str(env.mark_kind), 0) + 1
        subscribed = {a for (w, a, s) in env.log if w == "sub"}
        kinds = set()
        for p in env.probes[1:]:
            if p.pid in subscribed:
                kinds.add(p.kind)
                hist["probe_kinds_subscribed"][p.kind] = hist["probe_kinds_subscribed"].get(p.kind, 0) + 1
        gate = kinds & {"gate", "gate2", "behavior", "replay"}
        if gate:
            hist["cases with a probe that emitted inside subscribe() and stayed open"] += 1
            if "late" in kinds and kinds & {"done", "val_done"}:
                hist["cases with such a probe AND a late one AND one that completed inside subscribe()"] += 1
        if env.mark_kind == "dispose-inner" and any(w == "sub" and s == env.mark_step for (w, a, s) in env.log[env.mark:]):
            hist["probe subscribed behind an in-callback dispose within the same step (counted, not judged)"] += 1
        hist["escaped exceptions (counted, not judged)"] += len(env.escapes)
        hist["windows_subscribed"] += len(env.inner)
        if v:
            chk.violation(f"{pid}|probes|{c['op']}|{env.mark_kind}|{v[0]}",
                          dict(describe(c, env, v), family="probes", case_seed=seed),
                          # reported first: the smallest cases of the most direct clause (an observer left behind)
                          size=len(c["script"]) + len(c["kinds"]) + len(env.log) / 100.0
                          + (0 if v[0] in ("open", "open_at_end") else 50))
        elif env.mark is not None and len(subscribed) > 1:
            nontrivial.add(seed)
    return hist, nontrivial


def is_replay(d):
    return isinstance(d, dict) and d.get("family") == "probes" and "case_seed" in d


def replay_main(pid, path):
    import json
    d = json.load(open(path))
    c, env, v = run_one(d["case_seed"])
    print(json.dumps(describe(c, env, v), indent=1, default=repr))
    if v:
        print(f"VIOLATION property={pid} replay={path}")
        return 1
    print(f"[{pid}] replay: the case no longer fails")
    return 0
