"""Drivers shared by the checks C25, C26, C27 (disposables).

Sequential (K1): `run_seq(kind, init, history)` drives a real object with spy
items and returns one list of observations per call; `gal_*` render histories
and observations as Gallina literals for Core/Disposables.v.

Concurrent (K3): `conc_run(kind, setup, progs, chooser, fine)` runs the real
object under harness/k3.py; one scheduled step = one action of Core/DispConc.v.

Operations are tuples: ('add', i) ('remove', i) ('dispose',) ('clear',)
('contains', i) ('len',) ('to_list',) ('is_disposed',) ('set', i) ('get',)
('run_one',) ('getdep',) ('disp_dep', k).
Observations are tuples: ('disp', i) ('run',) ('raise',) ('rej', i) ('sched',)
('bool', b) ('item', i|None) ('items', [...]) ('nat', n) and ('exc', repr) for an
exception the models do not know (always a disagreement).
"""
from __future__ import annotations

import os

import k3
import lib
from lib import gnat, glist, gbool

ALREADY = "Disposable has already been assigned"

DISP_MODULES = ["reactivex.disposable.disposable", "reactivex.disposable.booleandisposable",
                "reactivex.disposable.scheduleddisposable", "reactivex.disposable.compositedisposable",
                "reactivex.disposable.serialdisposable", "reactivex.disposable.singleassignmentdisposable",
                "reactivex.disposable.multipleassignmentdisposable", "reactivex.disposable.refcountdisposable"]


# --------------------------------------------------------------------------
# spies
# --------------------------------------------------------------------------

class Env:
    """where the spies of one run log to"""

    def __init__(self):
        self.sink = None           # sequential: the list of the call in progress
        self.ctl = None            # concurrent: the k3.Controller
        self.flags = []            # oracle probes that fired (never compared with the model)
        self.begun = []            # (tid, op) of every call begun so far, in time order
        self.ended = []            # (tid, op, length of the log when the call returned)
        self.dep_begun = []        # refcount: (tid, k) of every dispose() begun on the k-th handle handed out
        self.release_calls = []    # refcount: (tid, k) of every parent.release() made by a dispose() of handle k

    def emit(self, *ev):
        if self.ctl is not None:
            self.ctl.emit(*ev)
        else:
            self.sink.append(tuple(ev))

    def yield_point(self):
        if self.ctl is not None:
            self.ctl.yield_point("call")


class Spy:
    """a disposable item that only logs the dispose() calls it receives; `probe`, if set, is asked at
    the moment of the call whether the property's side condition holds (the answer goes to env.flags,
    which is never compared with the model)"""

    def __init__(self, env, ident):
        self.env, self.ident = env, ident
        self.probe = None
        self.script = None         # re-entrant histories: calls made on the container from inside dispose(),
        self.world = None          # the first time this item is disposed

    def dispose(self):
        self.env.yield_point()
        if self.probe is not None:
            bad = self.probe(self)
            if bad:
                self.env.flags.append(bad)
        self.env.emit("disp", self.ident)
        if self.script:
            script, self.script = self.script, None
            for op in script:
                self.world.call(op)

    def __repr__(self):
        return f"<spy {self.ident}>"


class FalsySpy(Spy):
    """falsy like an empty CompositeDisposable (defines __len__ == 0)"""

    def __len__(self):
        return 0


def make_items(env, n, falsy=()):
    return [FalsySpy(env, i) if i in falsy else Spy(env, i) for i in range(n)]


class SpyScheduler:
    """the only thing ScheduledDisposable asks of its scheduler: schedule(action)"""

    def __init__(self, env):
        self.env = env
        self.queue = []

    def schedule(self, action, state=None):
        self.env.yield_point()
        self.queue.append((action, state))
        self.env.emit("sched")
        return Spy(self.env, 99)

    def run_one(self):
        self.env.yield_point()
        if not self.queue:
            return
        action, state = self.queue.pop(0)
        self.env.emit("run")
        action(self, state)


# --------------------------------------------------------------------------
# building the object under test, performing one call
# --------------------------------------------------------------------------

KINDS = ("disposable", "boolean", "scheduled", "composite", "serial", "single", "multiple", "refcount")
N_ITEMS = 5


class World:
    def __init__(self, kind, init=None, falsy=(), n_items=N_ITEMS, scripts=None):
        """init: composite -> (ctor style 'args'|'list', [item ids]); scheduled/refcount -> wrapped item id.
        scripts: {item id (or 'action'): [calls]} made re-entrantly from inside that item's first dispose()"""
        import reactivex.disposable as D
        self.kind = kind
        self.env = Env()
        self.items = make_items(self.env, n_items, falsy)
        self.handles = []
        env = self.env
        scripts = dict(scripts or {})
        for it in self.items:
            it.world = self
            it.script = list(scripts.get(it.ident) or []) or None
        if kind == "disposable":
            pending = [list(scripts.get("action") or [])]

            def action():
                env.yield_point()
                env.emit("run")
                script, pending[0] = pending[0], []
                for op in script:
                    self.call(op)
            self.obj = D.Disposable(action)
        elif kind == "boolean":
            self.obj = D.BooleanDisposable()
        elif kind == "scheduled":
            self.sched = SpyScheduler(env)
            self.obj = D.ScheduledDisposable(self.sched, self.items[init if init is not None else 0])
        elif kind == "composite":
            style, ids = init if init is not None else ("args", [])
            objs = [self.items[i] for i in ids]
            self.obj = D.CompositeDisposable(objs) if style == "list" and objs else D.CompositeDisposable(*objs)
        elif kind == "serial":
            self.obj = D.SerialDisposable()
        elif kind == "single":
            self.obj = D.SingleAssignmentDisposable()
        elif kind == "multiple":
            self.obj = D.MultipleAssignmentDisposable()
        elif kind == "refcount":
            self.obj = D.RefCountDisposable(self.items[0])
            release = self.obj.release

            def spy_release():
                # a spy on the public method RefCountDisposable.release (harness code: no yield point, not traced):
                # which dispose() of which handle called it -- the last one this thread began
                tid = env.ctl.tid() if env.ctl is not None else 0
                ks = [k for (t, k) in env.dep_begun if t == tid]
                env.release_calls.append((tid, ks[-1] if ks else -1))
                return release()
            self.obj.release = spy_release
        else:
            raise ValueError(kind)

    def ident(self, x):
        return None if x is None else getattr(x, "ident", -1)

    def is_dependent(self, h):
        """refcount: is the handle a dependent (an InnerDisposable) rather than the inert plain Disposable()
        that the property hands out once the resource is released?  Decided on the returned object's class."""
        inner = getattr(type(self.obj), "InnerDisposable", None)
        return inner is not None and isinstance(h, inner)

    def snapshot(self):
        """public state of the object, read through its public API (oracle input only)"""
        o, k = self.obj, self.kind
        snap = {"is_disposed": bool(o.is_disposed)}
        if k == "composite":
            snap["held"] = [self.ident(x) for x in o.to_list()]
        elif k in ("serial", "single", "multiple"):
            c = o.disposable
            snap["held"] = [] if c is None else [self.ident(c)]
        return snap

    def call(self, op):
        """perform one call; observations go to env (spies) and to env.emit (results)"""
        env, obj, k = self.env, self.obj, op[0]
        conc = env.ctl is not None
        tid = env.ctl.tid() if conc else 0
        env.begun.append((tid, op))
        try:
            self._call(op)
        finally:
            env.ended.append((tid, op, len(env.ctl.log) if conc else -1))

    def _call(self, op):
        env, obj, k = self.env, self.obj, op[0]
        conc = env.ctl is not None
        try:
            if k == "dispose":
                obj.dispose()
            elif k == "is_disposed":
                env.yield_point()
                env.emit("bool", bool(obj.is_disposed))
            elif k == "add":
                obj.add(self.items[op[1]])
            elif k == "remove":
                r = obj.remove(self.items[op[1]])
                env.emit("bool", bool(r))
            elif k == "clear":
                obj.clear()
            elif k == "contains":
                env.yield_point()
                env.emit("bool", bool(obj.contains(self.items[op[1]])))
            elif k == "len":
                env.yield_point()
                n1, n2 = len(obj), obj.length
                env.emit("nat", n1 if n1 == n2 else -1)
            elif k == "to_list":
                env.yield_point()
                env.emit("items", [self.ident(x) for x in obj.to_list()])
            elif k == "set":
                obj.disposable = self.items[op[1]]
            elif k == "get":
                env.yield_point()
                env.emit("item", self.ident(obj.disposable))
            elif k == "run_one":
                self.sched.run_one()
            elif k == "getdep":
                self.handles.append(obj.disposable)
            elif k == "disp_dep":
                if conc:
                    env.yield_point()          # the lookup happens at the action, not at the end of the previous one
                    if op[1] < len(self.handles):
                        t = env.ctl.me()
                        if t is not None:
                            t.skip = 1         # the handle's own lock acquisition is this same action
                        env.dep_begun.append((env.ctl.tid(), op[1]))
                        self.handles[op[1]].dispose()
                elif op[1] < len(self.handles):
                    env.dep_begun.append((0, op[1]))
                    self.handles[op[1]].dispose()
            else:
                raise ValueError(op)
        except Exception as e:  # noqa
            if str(e) == ALREADY and type(e) is Exception:
                if conc:
                    env.emit("rej", op[1])
                else:
                    env.emit("raise")
            else:
                env.emit("exc", f"{type(e).__name__}: {e}")


def run_seq(kind, init, history, falsy=(), snaps=None, scripts=None, begun=None):
    """-> list (one per call) of lists of observations; if `snaps` is a list, the public state
    after construction and after every call is appended to it; `begun` receives every call begun
    (top-level and re-entrant)"""
    w = World(kind, init, falsy, scripts=scripts)
    if begun is not None:
        w.env.begun = begun
    outs = []
    if snaps is not None:
        snaps.append(w.snapshot())
    for op in history:
        w.env.sink = []
        w.call(op)
        outs.append(w.env.sink)
        if snaps is not None:
            w.env.sink = []            # a snapshot must not disturb the log
            snaps.append(w.snapshot())
    return outs


# --------------------------------------------------------------------------
# Gallina rendering
# --------------------------------------------------------------------------

def gal_obs(o):
    k = o[0]
    if k == "disp":
        return f"ODisp {gnat(o[1])}"
    if k == "run":
        return "ORun"
    if k == "raise":
        return "ORaise"
    if k == "rej":
        return f"ORej {gnat(o[1])}"
    if k == "sched":
        return "OSched"
    if k == "bool":
        return f"OBool {gbool(o[1])}"
    if k == "item":
        return "OItem None" if o[1] is None else f"OItem (Some {gnat(o[1])})"
    if k == "items":
        return f"OItems {glist(o[1], gnat)}"
    if k == "nat":
        return f"ONat {gnat(o[1])}" if o[1] >= 0 else "ONat 999999%nat"
    # unknown exception: something no model produces
    return "OItems [999999%nat]"


def gal_outs(outs):
    return glist(outs, lambda l: glist(l, gal_obs))


def gal_clog(log):
    return glist(log, lambda e: f"({gnat(e[0])}, {gal_obs(e[1:])})")


OPS = {
    "d": {"dispose": "DDispose", "is_disposed": "DIsDisposed"},
    "c": {"add": "CAdd", "remove": "CRemove", "dispose": "CDispose", "clear": "CClear",
          "contains": "CContains", "len": "CLen", "to_list": "CToList", "is_disposed": "CIsDisposed"},
    "s": {"set": "SSet", "dispose": "SDispose", "get": "SGet", "is_disposed": "SIsDisposed"},
    "h": {"dispose": "SchDispose", "run_one": "SchRunOne", "is_disposed": "SchIsDisposed"},
    "r": {"getdep": "RGet", "disp_dep": "RDispDep", "dispose": "RDispose", "is_disposed": "RIsDisposed"},
}
FAMILY = {"disposable": "d", "boolean": "d", "scheduled": "h", "composite": "c", "serial": "s",
          "single": "s", "multiple": "s", "refcount": "r"}
OP_TY = {"d": "dop", "c": "cop", "s": "sop", "h": "schop", "r": "rop"}


def gal_op(kind, op):
    name = OPS[FAMILY[kind]][op[0]]
    return f"({name} {gnat(op[1])})" if len(op) > 1 else name


def gal_hist(kind, h):
    return glist(h, lambda o: gal_op(kind, o))


# sequential model entry points: kind -> Gallina function  (init, history) -> list (list obs)
SEQ_MODEL = {
    "disposable": "(fun c : unit * list dop => outs d_step d_init (snd c))",
    "boolean": "(fun c : unit * list dop => outs b_step d_init (snd c))",
    "scheduled": "(fun c : nat * list schop => outs sch_step (sch_init (fst c)) (snd c))",
    "composite": "(fun c : list nat * list cop => outs c_step (c_init (fst c)) (snd c))",
    "serial": "(fun c : unit * list sop => outs ser_step s_init (snd c))",
    "single": "(fun c : unit * list sop => outs sad_step s_init (snd c))",
    "multiple": "(fun c : unit * list sop => outs mad_step s_init (snd c))",
    "refcount": "(fun c : unit * list rop => outs r_step r_init (snd c))",
}
SEQ_INIT_TY = {"disposable": "unit", "boolean": "unit", "scheduled": "nat", "composite": "list nat",
               "serial": "unit", "single": "unit", "multiple": "unit", "refcount": "unit"}


def gal_init(kind, init):
    if kind == "composite":
        return glist((init or ("args", []))[1], gnat)
    if kind == "scheduled":
        return gnat(init if init is not None else 0)
    return "tt"


def seq_correspondence(pid, kind, cases):
    """cases: [(init, history, outs)] -> (bad indices, logs)"""
    fam = FAMILY[kind]
    ty = f"({SEQ_INIT_TY[kind]} * list {OP_TY[fam]}) * list (list obs)"
    gal = [(f"({gal_init(kind, i)}, {gal_hist(kind, h)})", gal_outs(o)) for (i, h, o) in cases]
    return lib.correspondence(pid, f"seq_{kind}_", "Base.Prelude Core.Disposables", ty,
                              SEQ_MODEL[kind], "outs_eqb", gal, shard=500)


def seq_model_show(pid, kind, init, h):
    return lib.coq_show(pid, "Base.Prelude Core.Disposables",
                        f"{SEQ_MODEL[kind]} ({gal_init(kind, init)}, {gal_hist(kind, h)})")


# --------------------------------------------------------------------------
# concurrent runs
# --------------------------------------------------------------------------

# (file, class, method) -> expected atomicity structure (mirrors the *_start / *_act definitions of
# Core/DispConc.v: one entry = one action kind, in source order)
def _f(name):
    return os.path.join(lib.REPO, "reactivex", "disposable", name + ".py")


EXPECTED_SHAPES = {
    ("disposable", "Disposable", "dispose"): ["LOCK", "CALL:self.action"],
    ("booleandisposable", "BooleanDisposable", "dispose"): ["W:is_disposed"],
    ("scheduleddisposable", "ScheduledDisposable", "dispose"): ["CALL:self.scheduler.schedule"],
    ("compositedisposable", "CompositeDisposable", "add"): ["LOCK", "CALL:item.dispose"],
    ("compositedisposable", "CompositeDisposable", "remove"): ["R:is_disposed", "LOCK", "CALL:item.dispose"],
    ("compositedisposable", "CompositeDisposable", "dispose"): ["R:is_disposed", "LOCK", "CALL:disp.dispose"],
    ("compositedisposable", "CompositeDisposable", "clear"): ["LOCK", "CALL:disposable.dispose"],
    ("serialdisposable", "SerialDisposable", "set_disposable"): ["LOCK", "CALL:old.dispose", "CALL:value.dispose"],
    ("serialdisposable", "SerialDisposable", "dispose"): ["LOCK", "CALL:old.dispose"],
    ("singleassignmentdisposable", "SingleAssignmentDisposable", "set_disposable"): ["LOCK", "CALL:value.dispose"],
    ("singleassignmentdisposable", "SingleAssignmentDisposable", "dispose"): ["LOCK", "CALL:old.dispose"],
    ("multipleassignmentdisposable", "MultipleAssignmentDisposable", "set_disposable"):
        ["LOCK", "CALL:value.dispose"],
    ("multipleassignmentdisposable", "MultipleAssignmentDisposable", "dispose"): ["LOCK", "CALL:old.dispose"],
    ("refcountdisposable", "RefCountDisposable.InnerDisposable", "dispose"): ["LOCK", "CALL:parent.release"],
    ("refcountdisposable", "RefCountDisposable", "dispose"):
        ["R:is_disposed", "LOCK", "CALL:underlying_disposable.dispose"],
    ("refcountdisposable", "RefCountDisposable", "release"):
        ["R:is_disposed", "LOCK", "CALL:self.underlying_disposable.dispose"],
    ("refcountdisposable", "RefCountDisposable", "disposable"): ["LOCK"],
}
KIND_FILES = {
    "disposable": ["disposable"], "boolean": ["booleandisposable"],
    "scheduled": ["scheduleddisposable", "singleassignmentdisposable"],
    "composite": ["compositedisposable"], "serial": ["serialdisposable"],
    "single": ["singleassignmentdisposable"], "multiple": ["multipleassignmentdisposable"],
    "refcount": ["refcountdisposable", "disposable"],
}


def check_shapes(files=None):
    """AST pass over the current tree.  -> (targets for the tracer, list of mismatches, assumptions list)"""
    targets, bad, notes = {}, [], []
    for (fn, cls, meth), exp in EXPECTED_SHAPES.items():
        if files is not None and fn not in files:
            continue
        path = _f(fn)
        try:
            shape, lines, writes = k3.shape_of(path, cls, meth)
        except Exception as e:  # fail closed
            bad.append({"where": f"{fn}.py:{cls}.{meth}", "error": f"{type(e).__name__}: {e}"})
            continue
        if shape != exp:
            bad.append({"where": f"{fn}.py:{cls}.{meth}", "expected": exp, "found": shape})
        for w in writes:
            if any(n > 1 for n in w.values()):
                bad.append({"where": f"{fn}.py:{cls}.{meth}", "error": f"a locked block writes an attribute twice: {w}"})
        d = targets.setdefault(os.path.abspath(path), {})
        d[meth] = set(d.get(meth) or ()) | set(lines)
    return targets, bad, notes


_TARGETS = None


def targets():
    global _TARGETS
    if _TARGETS is None:
        _TARGETS = check_shapes()[0]
    return _TARGETS


class Rebound:
    """context manager: controlled locks in all disposable modules"""

    def __enter__(self):
        self.undo = k3.rebind_locks(DISP_MODULES)
        return self

    def __exit__(self, *a):
        k3.restore_locks(self.undo)


def conc_run(kind, init, setup, progs, chooser, fine=False, falsy=()):
    """Runs thread 0 = setup to completion, then the threads of `progs` under `chooser`.
    Must be called inside `with Rebound():`.  -> (controller, world)"""
    w = World(kind, init, falsy)
    c = k3.Controller(targets(), fine=fine)
    w.env.ctl = c

    def mk(prog):
        def body():
            for op in prog:
                w.call(op)
        return body
    c.spawn(mk(setup))
    for p in progs:
        c.spawn(mk(p))
    c.run(chooser, setup=0)
    w.env.ctl = None
    return c, w


CONC_MODEL = {
    "disposable": ("dop", "crun dd_start dd_act (cinit d_init (fst c)) (snd c)"),
    "boolean": ("dop", "crun bd_start bd_act (cinit d_init (fst c)) (snd c)"),
    "scheduled": ("schop", "crun hc_start hc_act (cinit (sch_init 0%nat) (fst c)) (snd c)"),
    "composite": ("cop", "crun cc_start cc_act (cinit (c_init []) (fst c)) (snd c)"),
    "serial": ("sop", "crun sc_start (sc_act KSerial) (cinit x_init (fst c)) (snd c)"),
    "single": ("sop", "crun sc_start (sc_act KSingle) (cinit x_init (fst c)) (snd c)"),
    "multiple": ("sop", "crun sc_start (sc_act KMultiple) (cinit x_init (fst c)) (snd c)"),
    "refcount": ("rop", "crun rc_start rc_act (cinit r_init (fst c)) (snd c)"),
}


def conc_correspondence(pid, kind, cases):
    """cases: [(setup, progs, setup_steps, schedule, log)]; the model schedule is
    setup_steps times thread 0 followed by the schedule."""
    opty, run = CONC_MODEL[kind]
    ty = f"(list (list {opty}) * list nat) * list (nat * obs)"
    model = f"(fun c : list (list {opty}) * list nat => c_log ({run}))"
    gal = []
    for (setup, progs, nsetup, sched, log) in cases:
        ps = glist([setup] + list(progs), lambda p: gal_hist(kind, p))
        sc = glist([0] * nsetup + list(sched), gnat)
        gal.append((f"({ps}, {sc})", gal_clog(log)))
    return lib.correspondence(pid, f"conc_{kind}_", "Base.Prelude Core.Disposables Core.DispConc", ty,
                              model, "clog_eqb", gal, shard=400)


def release_profile(world):
    """refcount: number of parent.release() calls made on behalf of each handle, in hand-out order"""
    prof = [0] * len(world.handles)
    for (_, k) in world.env.release_calls:
        if 0 <= k < len(prof):
            prof[k] += 1
    return prof


def release_correspondence(pid, cases):
    """cases: [(setup, progs, setup_steps, schedule, release profile)] -- Core/RefCountOnce.v rc_release_profile
    (the ghost counter the theorem C27_release_at_most_once_per_dependent is about) under the same schedule"""
    ty = "(list (list rop) * list nat * nat) * list nat"
    model = ("(fun c : list (list rop) * list nat * nat => "
             "rc_release_profile (fst (fst c)) (snd (fst c)) (snd c))")
    gal = []
    for (setup, progs, nsetup, sched, prof) in cases:
        ps = glist([setup] + list(progs), lambda p: gal_hist("refcount", p))
        sc = glist([0] * nsetup + list(sched), gnat)
        gal.append((f"({ps}, {sc}, {gnat(len(prof))})", glist(prof, gnat)))
    return lib.correspondence(pid, "conc_refcount_release_", "Base.Prelude Core.Disposables Core.DispConc "
                              "Core.RefCountOnce", ty, model, "(list_eqb Nat.eqb)", gal, shard=400)


def conc_model_show(pid, kind, setup, progs, nsetup, sched):
    opty, run = CONC_MODEL[kind]
    ps = glist([setup] + list(progs), lambda p: gal_hist(kind, p))
    sc = glist([0] * nsetup + list(sched), gnat)
    return lib.coq_show(pid, "Base.Prelude Core.Disposables Core.DispConc",
                        f"(fun c : list (list {opty}) * list nat => c_log ({run})) ({ps}, {sc})")


def explore_conc(kind, init, setup, progs, bound, fine=False, falsy=(), limit=None):
    """all schedules with at most `bound` preemptions: yields (schedule, setup_steps, log, world)"""
    box = {}

    def run_once(chooser):
        c, w = conc_run(kind, init, setup, progs, chooser, fine=fine, falsy=falsy)
        box["c"], box["w"] = c, w
        return c.trace, None
    for sched, _ in k3.explore(run_once, bound, limit=limit):
        c = box["c"]
        yield sched, c.setup_steps, list(c.log), box["w"]
