"""C37, oracle-only family `calls`: generate / generate_with_relative_time are the while-loop

    s = initial
    while condition(s):
        [d = time_mapper(s); wait d]
        emit(s)
        s = iterate(s)
    complete                                    (a raising callback: on_error instead, loop over)

not only in what they emit but in WHICH user callbacks they call, with which argument, in which order,
interleaved with the emissions.  The callbacks of this family make every deviation visible:

* PARTIAL callbacks: dict / list lookups defined exactly on the states the loop hands them (condition: every
  visited state; iterate and time_mapper: only the states that PASS the condition), an integer division that is
  undefined on the terminal state, an assertion.  One extra call -- e.g. time_mapper on the state that fails
  the condition -- raises KeyError / IndexError / ZeroDivisionError / AssertionError and the sequence ends with
  on_error instead of on_completed.
* callbacks WITH SIDE EFFECTS: a condition that counts its own calls, a condition that reads how many elements
  the subscriber has received so far, iterate / time_mapper that pop from a queue (an extra call shifts every
  later state / delay, a missing one too).
* an optional fault: the j-th call of one callback raises.

Every callback records (name, argument) into one log, the subscriber records its notifications into the same
log (and counts the elements, which the `emitted` condition reads).  The reference is the literal loop above
run on a FRESH copy of the same callbacks; the library's log must equal the reference log (full runs) or be a
prefix of it (runs disposed after k timer firings / from inside the k-th on_next), the errors must be the very
exceptions the reference loop got (type and args), and on virtual time every notification must arrive at the
accumulated delay.  Runs: proxy scheduler of harness/k2m.py (timers fired in due order), the default
trampoline (generate), TestScheduler (generate_with_relative_time); the same observable object subscribed a
second time after a full first run (the callbacks' state carries over, in the reference too); and the
observable wrapped in rx.defer / rx.create, whose factory / subscribe function must be called exactly once per
subscription, with the subscription's scheduler, before any other callback.

States are arbitrary hashable payloads (None, 0, '', () ... -- distinct under ==) or the integers 0..k."""
import datetime as dt
import itertools

import k2m
import lib

NAMES = ["generate", "generate_with_relative_time"]
# distinct under ==, falsy ones first
POOL = [None, 0, "", (), "a", (1, 2), 2.5, -3, "zz", 7, frozenset(), "0"]
VERDICTS = {"bool": (True, False), "int": (1, 0), "str": ("x", ""), "none": ("x", None), "container": ([0], [])}
MAX_EMIT = 60          # the reference loop is cut there (cases are finite by construction; a guard only)
MAX_FIRINGS = 80


class CallError(Exception):
    """raised by the j-th call of a callback when the case says so"""


def enc(v):
    return f"{type(v).__name__}:{v!r}"


def enc_err(e):
    return f"{type(e).__name__}:{e.args!r}"


def secs(ms, how):
    if how == "timedelta":
        return dt.timedelta(milliseconds=ms)
    if how == "int" and ms % 1000 == 0:
        return ms // 1000
    return ms / 1000.0


# ---- cases --------------------------------------------------------------------------------------------

COND = ["dict", "count", "bound", "emitted", "assert"]
ITER = ["dict", "pop", "succ", "list"]
TM = ["list", "dict", "pop", "div", "const", "assert"]
INT_ONLY = {"cond": {"bound"}, "iter": {"succ", "list"}, "tm": {"list", "div"}}
# styles that do not look at the state: the only ones under which a state may repeat along the path
BLIND = {"cond": {"count", "emitted"}, "iter": {"pop"}, "tm": {"pop", "const"}}


def gen_case(rng, name):
    timed = name == "generate_with_relative_time"
    k = rng.choice([0, 0, 1, 1, 2, 3, 3, 4, 6])           # number of states that pass the condition
    ints = rng.random() < 0.5
    pick = lambda kind, styles: rng.choice([s for s in styles if ints or s not in INT_ONLY[kind]])
    c = {"family": "calls", "name": name, "k": k, "ints": ints, "cond": pick("cond", COND),
         "iter": pick("iter", ITER), "verdict": rng.choice(list(VERDICTS)), "fault": None, "wrap": None,
         "dispose_after": None, "budget": None, "twice": False}
    if timed:
        c["tm"] = pick("tm", TM)
        c["delays"] = [rng.choice([0, 0, 5, 10, 20, 35, 1000]) for _ in range(k)]
        c["unit"] = rng.choice(["float", "timedelta", "int"])
    if ints:
        path = list(range(k + 1))
    else:
        blind = all(c[kind] in BLIND[kind] for kind in (("cond", "iter", "tm") if timed else ("cond", "iter")))
        if blind and rng.random() < 0.5:
            path = [rng.randrange(len(POOL)) for _ in range(k + 1)]       # states may repeat
        else:
            path = rng.sample(range(len(POOL)), k + 1)
    c["path"] = path
    if rng.random() < 0.2:
        cb = rng.choice(["cond", "iter"] + (["tm"] if timed else []))
        c["fault"] = [cb, rng.randint(0, k)]
    r = rng.random()
    if r < 0.15:
        c["dispose_after"] = rng.randint(0, k + 1)
    elif r < 0.3 and k:
        c["budget"] = rng.randint(1, k)
    elif r < 0.5:
        c["twice"] = True
    if rng.random() < 0.3:
        c["wrap"] = rng.choice(["defer", "create"])
    return c


def states_of(case):
    return list(case["path"]) if case["ints"] else [POOL[i] for i in case["path"]]


class Callbacks:
    """one fresh set of recording callbacks for a case; `log` receives every call BEFORE its body runs"""

    def __init__(self, case):
        self.case = case
        self.log = []
        self.world = {"emitted": 0}
        S = states_of(case)
        k = case["k"]
        self.init = S[0]
        vt, vf = VERDICTS[case["verdict"]]
        calls = {"cond": 0, "iter": 0, "tm": 0}
        fault = case.get("fault")
        world = self.world

        def recording(name, body):
            def f(s):
                self.log.append((name, enc(s)))
                j = calls[name]
                calls[name] += 1
                if fault and fault[0] == name and fault[1] == j:
                    raise CallError(name, j)
                return body(s, j)
            return f

        # -- condition: defined on every state the loop visits
        cs = case["cond"]
        if cs in ("dict", "assert"):
            table = {}
            for i, s in enumerate(S):
                table.setdefault(s, i < k)

            def cond(s, j):
                if cs == "assert":
                    assert s in table, "condition called outside its domain"
                return table[s]                     # KeyError outside the visited states
        elif cs == "count":
            cond = lambda s, j: j < k               # the first k calls pass, whatever the state (j counts over
            #                                         the callback object's whole life, re-subscriptions included)
        elif cs == "bound":
            cond = lambda s, j: s < k
        else:                                       # "emitted": reads what the subscriber has received so far
            cond = lambda s, j: world["emitted"] < k
        self.cond = recording("cond", lambda s, j: vt if cond(s, j) else vf)

        # -- iterate: defined only on the states that PASS the condition
        its = case["iter"]
        if its == "dict":
            nxt = {}
            for i in range(k):
                nxt.setdefault(S[i], S[i + 1])
            it = lambda s, j: nxt[s]                # KeyError on the terminal state
        elif its == "pop":
            queue = list(S[1:])
            it = lambda s, j: queue.pop(0)          # IndexError once exhausted; an extra call shifts the states
        elif its == "succ":
            it = lambda s, j: s + 1
        else:                                       # "list"
            after = list(S[1:])

            def it(s, j):
                if s < 0:
                    raise IndexError("negative state")
                return after[s]                     # IndexError on the terminal state k
        self.iter = recording("iter", it)

        # -- time_mapper (milliseconds here; converted to the case's unit for the library): defined only on
        #    the states that PASS the condition
        if "tm" in case:
            ts = case["tm"]
            delays = list(case["delays"])
            if ts == "list":
                def tm(s, j):
                    if s < 0:
                        raise IndexError("negative state")
                    return delays[s]                # IndexError on the terminal state k
            elif ts in ("dict", "assert"):
                dmap = {}
                for i in range(k):
                    dmap.setdefault(S[i], delays[i])

                def tm(s, j):
                    if ts == "assert":
                        assert s in dmap, "time_mapper called outside its domain"
                    return dmap[s]                  # KeyError on the terminal state
            elif ts == "pop":
                dq = list(delays)
                tm = lambda s, j: dq.pop(0)         # IndexError once exhausted; an extra call shifts the delays
            elif ts == "div":
                tm = lambda s, j: 10 * (12 // (k - s))      # ZeroDivisionError on the terminal state k
            else:
                tm = lambda s, j: 10
            self.tm_ms = recording("tm", tm)
            self.tm = lambda s: secs(self.tm_ms(s), case["unit"])

    # the subscriber's side of the log
    def on_next(self, v):
        self.log.append(("emit", enc(v)))
        self.world["emitted"] += 1

    def on_error(self, e):
        self.log.append(("error", enc_err(e)))

    def on_completed(self):
        self.log.append(("completed", None))


def reference(cb, timed, subscriptions=1, wrap=None):
    """the literal while-loop on the callbacks cb, once per subscription
    -> [notes per subscription], notes = [(ms since subscribe, kind, payload)]; cb.log holds the call sequence"""
    out = []
    for _ in range(subscriptions):
        notes, t = [], 0
        if wrap:
            cb.log.append((wrap, "scheduler"))
        s = cb.init
        try:
            while cb.cond(s):
                if timed:
                    t += cb.tm_ms(s)
                cb.on_next(s)
                notes.append((t, "N", enc(s)))
                if len(notes) > MAX_EMIT:
                    raise AssertionError("harness: the reference loop of a `calls` case must be finite")
                s = cb.iter(s)
            cb.on_completed()
            notes.append((t, "C", None))
        except AssertionError as e:
            if e.args and str(e.args[0]).startswith("harness:"):
                raise
            cb.on_error(e)
            notes.append((t, "E", enc_err(e)))
        except Exception as e:                  # the library catches Exception too
            cb.on_error(e)
            notes.append((t, "E", enc_err(e)))
        out.append(notes)
    return out


def build(case, cb, holder):
    """the observable under test; holder['sched'] = the scheduler the subscription is made with (what a
    defer factory / create subscribe function must be handed; None: no scheduler was given to subscribe())"""
    import reactivex as rx
    if case["name"] == "generate":
        core = rx.generate(cb.init, cb.cond, cb.iter)
    else:
        core = rx.generate_with_relative_time(cb.init, cb.cond, cb.iter, cb.tm)
    w = case.get("wrap")
    if w == "defer":
        def factory(scheduler):
            # defer hands the factory the subscription's scheduler (an ImmediateScheduler when there is none)
            ok = scheduler is holder["sched"] if holder["sched"] is not None else scheduler is not None
            cb.log.append(("defer", "scheduler" if ok else f"WRONG:{scheduler!r}"))
            return core
        return rx.defer(factory)
    if w == "create":
        def subscribe(observer, scheduler=None):
            ok = scheduler is holder["sched"]
            cb.log.append(("create", "scheduler" if ok else f"WRONG:{scheduler!r}"))
            return core.subscribe(observer, scheduler=scheduler)
        return rx.create(subscribe)
    return core


# ---- runs ---------------------------------------------------------------------------------------------

def run_proxy(case):
    """proxy scheduler, timers fired in due order; dispose after k firings / inside the k-th on_next; optionally
    a second subscription of the same object after a full first run
    -> {'log', 'notes': [per subscription], 'disposed', 'escapes', 'capped'}"""
    cb = Callbacks(case)
    env = k2m.Env()
    sched = k2m.make_scheduler(env)
    holder = {"sched": sched}
    obs = build(case, cb, holder)
    res = {"log": cb.log, "notes": [], "disposed": False, "escapes": [], "capped": False}
    for n_sub in range(2 if case["twice"] else 1):
        notes, t0 = [], env.now
        sub_box, seen = [], [0]
        budget = case["budget"]

        def on_next(v, notes=notes, t0=t0, seen=seen, sub_box=sub_box):
            cb.on_next(v)
            notes.append((env.now - t0, "N", enc(v)))
            seen[0] += 1
            if budget is not None and seen[0] == budget:
                res["disposed"] = True
                sub_box[0].dispose()

        def on_error(e, notes=notes, t0=t0):
            cb.on_error(e)
            notes.append((env.now - t0, "E", enc_err(e)))

        def on_completed(notes=notes, t0=t0):
            cb.on_completed()
            notes.append((env.now - t0, "C", None))
        try:
            sub_box.append(obs.subscribe(on_next, on_error, on_completed, scheduler=sched))
        except Exception as e:
            res["escapes"].append(repr(e))
            sub_box.append(None)
        fired = 0
        while True:
            if case["dispose_after"] is not None and not res["disposed"] and fired >= case["dispose_after"]:
                res["disposed"] = True
                if sub_box[0] is not None:
                    sub_box[0].dispose()
                continue
            if not env.timers:
                break
            if fired >= MAX_FIRINGS:
                res["capped"] = True
                break
            tag = min(env.timers, key=lambda t: (env.timers[t][0], t))
            env.now = max(env.now, env.timers[tag][0])
            fired += 1
            try:
                sched.fire(tag)
            except Exception as e:
                res["escapes"].append(repr(e))
        res["notes"].append(notes)
        if res["disposed"] or res["capped"] or res["escapes"]:
            break
    return res


def run_plain(case, immediate=False):
    """generate on its default scheduler (the trampoline), no scheduler given to subscribe(); immediate=True: the
    subscription is made with an ImmediateScheduler, whose schedule() runs the action inside the call"""
    def go():
        from reactivex.scheduler import ImmediateScheduler
        cb = Callbacks(case)
        holder = {"sched": ImmediateScheduler() if immediate else None}
        obs = build(case, cb, holder)
        all_notes = []
        for _ in range(2 if case["twice"] else 1):
            notes = []
            try:
                obs.subscribe(lambda v, n=notes: (cb.on_next(v), n.append((0, "N", enc(v)))),
                              lambda e, n=notes: (cb.on_error(e), n.append((0, "E", enc_err(e)))),
                              lambda n=notes: (cb.on_completed(), n.append((0, "C", None))),
                              **({"scheduler": holder["sched"]} if immediate else {}))
            except Exception as e:      # noqa: BLE001  (e.g. RecursionError of a run that never ends)
                notes.append((0, "X", "escaped from subscribe(): " + type(e).__name__))
                cb.log.append(("escaped", type(e).__name__))
            all_notes.append(notes)
        return {"log": cb.log, "notes": all_notes}
    return lib.with_timeout(5, go)


def run_testscheduler(case):
    """generate_with_relative_time on reactivex.testing.TestScheduler (one subscription at 200.0)"""
    from reactivex.scheduler import VirtualTimeScheduler
    from reactivex.testing import TestScheduler

    def go():
        cb = Callbacks(case)
        ts = TestScheduler()
        holder = {"sched": ts}
        obs = build(case, cb, holder)
        notes = []
        now = lambda: int(round((float(ts.clock) - 200.0) * 1000))
        ts.schedule_absolute(200.0, lambda *_: obs.subscribe(
            lambda v: (cb.on_next(v), notes.append((now(), "N", enc(v)))),
            lambda e: (cb.on_error(e), notes.append((now(), "E", enc_err(e)))),
            lambda: (cb.on_completed(), notes.append((now(), "C", None))), scheduler=ts))
        VirtualTimeScheduler.start(ts)         # TestScheduler.start() would add its own never() subscription
        return {"log": cb.log, "notes": [notes]}
    return lib.with_timeout(10, go)


# ---- oracle -------------------------------------------------------------------------------------------

def first_diff(got, exp):
    for i, (a, b) in enumerate(itertools.zip_longest(got, exp)):
        if a != b:
            return i, a, b
    return None


def show(log):
    return [f"{a}({b})" if b is not None else a for (a, b) in log]


def compare(where, case, got_log, got_notes, full, check_times):
    """the library's call/notification log against the reference loop's -> None | (signature key, text)"""
    timed = case["name"] == "generate_with_relative_time"
    ref = Callbacks(case)
    ref_notes = reference(ref, timed, subscriptions=len(got_notes) if full else 1, wrap=case.get("wrap"))
    exp_log = ref.log
    exp = exp_log if full else exp_log[:len(got_log)]
    d = first_diff(got_log, exp)
    if d:
        i, a, b = d
        tail = "" if full else " (disposed midway)"
        an = "nothing" if not a else (a[0] + " (handed another scheduler)" if str(a[1]).startswith("WRONG") else a[0])
        key = f"{where}{tail}: {an} where the while-loop has {b[0] if b else 'nothing more'}"
        return key, (f"{where}{tail}: call/notification #{i + 1} is {show([a])[0] if a else 'missing'}, the "
                     f"while-loop has {show([b])[0] if b else 'nothing more'} | got {show(got_log)} | "
                     f"loop {show(exp_log)}")
    if check_times:
        for gn, rn in zip(got_notes, ref_notes):
            if (gn != rn) if full else (gn != rn[:len(gn)]):
                return (f"{where}: notification instants",
                        f"{where}: notifications (ms since subscribe, kind, payload) {gn}, the while-loop gives {rn}")
    return None


def check_case(case):
    """-> (None | (signature key, text), stats)"""
    timed = case["name"] == "generate_with_relative_time"
    stats = {}
    res = run_proxy(case)
    if res["escapes"]:
        return ("exception escaped into the scheduler",
                f"exception escaped into the scheduler: {res['escapes']}"), stats
    if res["capped"]:
        return ("does not stop", f"still scheduling after {MAX_FIRINGS} timer firings; the while-loop is finite"), stats
    full = not res["disposed"]
    v = compare("proxy scheduler", case, res["log"], res["notes"], full, check_times=True)
    stats["full_run"] = full
    stats["ended_with_error"] = any(a == "error" for (a, _) in res["log"])
    stats["ended_with_lookup_error_in_loop"] = any(a == "error" and b.split(":")[0] in (
        "KeyError", "IndexError", "ZeroDivisionError", "AssertionError") for (a, b) in res["log"])
    stats["emitted"] = sum(a == "emit" for (a, _) in res["log"])
    stats["callback_calls"] = sum(a in ("cond", "iter", "tm", "defer", "create") for (a, _) in res["log"])
    if v or not full:
        return v, stats
    if not timed:
        st, out = run_plain(case)
        if st == "timeout":
            return ("default scheduler: no return", "default scheduler: did not return within 5 s"), stats
        v = compare("default scheduler", case, out["log"], out["notes"], True, check_times=False)
        if not v:
            # the same finite run with the subscription made on an ImmediateScheduler (every schedule() call of
            # the factory runs its action synchronously, i.e. recursively)
            st, out = run_plain(case, immediate=True)
            stats["immediate_scheduler_run"] = True
            if st == "timeout":
                return ("ImmediateScheduler: no return", "ImmediateScheduler: did not return within 5 s"), stats
            v = compare("ImmediateScheduler", case, out["log"], out["notes"], True, check_times=False)
    else:
        one = dict(case, twice=False)
        st, out = run_testscheduler(one)
        if st == "timeout":
            return ("TestScheduler: no return", "TestScheduler: did not return within 10 s"), stats
        v = compare("TestScheduler", one, out["log"], out["notes"], True, check_times=True)
    return v, stats


def signature(case, v):
    return "C37|" + case["name"] + "|calls|" + (case["wrap"] + "|" if case.get("wrap") else "") + v[0][:90]


def size(case):
    return case["k"] + (2 if case.get("wrap") else 0) + (2 if case["twice"] else 0) + (1 if case["fault"] else 0) + \
        (0 if case["ints"] else 1)
