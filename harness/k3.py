"""K3 -- deterministic thread controller (controlled-interleaving replay).

Every logical thread is a real Python thread gated by a baton: exactly one of
{controller, one logical thread} runs at any time.  A logical thread gives the
baton back at its *yield points*:

  * before acquiring a controlled lock (the names RLock/Lock of the already
    imported target modules are rebound to `CLock`, so every `self.lock` of an
    object created afterwards is controlled),
  * before executing a traced source line of a modelled method
    (sys.settrace line events restricted to the target files/functions),
  * at the entry of every call out of the object into a harness spy
    (`Controller.yield_point()` called by the spy).

Two granularities:
  coarse (fine=False): only the lines that the AST pass `shape_of` classifies as
      an unlocked access to a shared mutable attribute are yield points, and a
      thread never yields while it holds a controlled lock.  One scheduled step
      is then exactly one *action* of the Coq transition system of
      Core/DispConc.v (unlocked access | one whole `with self.lock:` block |
      one call out), so the implementation and the model can be run under the
      SAME schedule.
  fine (fine=True): every line of the modelled methods is a yield point, also
      inside locked blocks; a thread waiting for a held lock is *blocked* and is
      never picked.  Used for the direct oracle and the self-test.

All threads are advanced to their first yield point before the schedule starts
(only thread-local computation happens before the first action), the optional
setup thread 0 runs to completion first.  A schedule is the list of thread ids
chosen at each step; `explore` enumerates all schedules with at most `bound`
preemptions (a switch away from a thread that could have continued) by
stateless re-execution, `random_chooser` gives seeded random ones.
"""
from __future__ import annotations

import ast
import importlib
import os
import sys
import threading

_Sem = threading.Semaphore          # captured before anything is rebound
_get_ident = threading.get_ident
_Thread = threading.Thread

CURRENT = None                      # the Controller of the run in progress


class ControllerError(BaseException):
    """machinery failure (hang, lost baton); BaseException: library code must not swallow it"""


class Deadlock(Exception):
    pass


class _Abort(BaseException):
    """raised inside a logical thread to unwind it when a run is abandoned"""


# --------------------------------------------------------------------------
# controlled lock
# --------------------------------------------------------------------------

class CLock:
    """Re-entrant lock whose acquisition is a yield point.  Threads that are not
    logical threads of the running controller (the main thread building objects
    or reading results) use it as an uncontended re-entrant lock."""

    def __init__(self):
        self.owner = None
        self.depth = 0

    def _me(self):
        c = CURRENT
        t = c.by_ident.get(_get_ident()) if c is not None else None
        return c, t

    def acquire(self, blocking=True, timeout=-1):
        c, t = self._me()
        who = t if t is not None else ("ext", _get_ident())
        if self.owner is not None and self.owner == who:
            self.depth += 1
            return True
        if t is None:
            if self.owner is not None:
                raise ControllerError("uncontrolled thread met a held controlled lock")
            self.owner, self.depth = who, 1
            return True
        if c.fine or t.held == 0:
            t.wants = self
            c.yield_point("lock")
            t.wants = None
        if self.owner is not None:
            # only reachable if a lock is taken while another one is held in coarse mode
            raise ControllerError("acquire of a held lock was scheduled")
        self.owner, self.depth = who, 1
        t.held += 1
        return True

    def release(self):
        c, t = self._me()
        self.depth -= 1
        if self.depth == 0:
            self.owner = None
            if t is not None:
                t.held -= 1

    def __enter__(self):
        self.acquire()
        return self

    def __exit__(self, *a):
        self.release()
        return False

    def locked(self):
        return self.owner is not None


def rebind_locks(module_names):
    """Rebind RLock/Lock in the (already imported) target modules.  Returns the
    list of (module, name, old) so that `restore_locks` can undo it."""
    undo = []
    for mn in module_names:
        m = importlib.import_module(mn)
        for name in ("RLock", "Lock"):
            if hasattr(m, name):
                undo.append((m, name, getattr(m, name)))
                setattr(m, name, CLock)
    return undo


def restore_locks(undo):
    for m, name, old in undo:
        setattr(m, name, old)


# --------------------------------------------------------------------------
# AST pass: atomicity structure of a method
# --------------------------------------------------------------------------

def _is_self_attr(node, attrs=None):
    return (isinstance(node, ast.Attribute) and isinstance(node.value, ast.Name)
            and node.value.id == "self" and (attrs is None or node.attr in attrs))


def _class_node(tree, qual):
    node = tree
    for part in qual.split("."):
        found = None
        for ch in node.body:
            if isinstance(ch, ast.ClassDef) and ch.name == part:
                found = ch
        if found is None:
            raise ValueError(f"class {qual} not found")
        node = found
    return node


def shared_attrs(cls_node):
    """attributes of self stored (or aug-assigned/deleted) in a method other than __init__"""
    out = set()
    for fn in cls_node.body:
        if isinstance(fn, ast.FunctionDef) and fn.name != "__init__":
            for n in ast.walk(fn):
                if _is_self_attr(n) and isinstance(n.ctx, (ast.Store, ast.Del)):
                    out.add(n.attr)
    return out


def shape_of(path, cls, method):
    """Atomicity structure of `cls.method` in file `path`:
    (shape, yield_lines) where shape is the list, in source order, of
      'LOCK'                    a `with self.lock:` block (one atomic action)
      'R:attr' / 'W:attr'       a line outside any locked block that reads / writes the shared attribute
      'CALL:expr'               a call made outside any locked block on something other than a local helper
    and yield_lines the set of line numbers of the R/W entries.
    Fail-closed: raises ValueError on anything it cannot classify."""
    src = open(path).read()
    tree = ast.parse(src)
    cn = _class_node(tree, cls)
    shared = shared_attrs(cn)
    fn = None
    for ch in cn.body:
        if isinstance(ch, ast.FunctionDef) and ch.name == method:
            fn = ch            # the last definition wins (property setter/getter pairs are named apart here)
    if fn is None:
        raise ValueError(f"{cls}.{method} not found in {path}")
    shape, lines, per_block_writes = [], set(), []

    def is_lock_with(st):
        return (isinstance(st, ast.With) and len(st.items) == 1
                and _is_self_attr(st.items[0].context_expr, {"lock"}))

    def expr_accesses(e, lineno):
        acc = []
        for n in ast.walk(e):
            if _is_self_attr(n, shared):
                if n.lineno != lineno:
                    raise ValueError(f"{path}:{n.lineno}: shared access on a continuation line")
                acc.append(("W:" if isinstance(n.ctx, (ast.Store, ast.Del)) else "R:") + n.attr)
        calls = []
        for n in ast.walk(e):
            if isinstance(n, ast.Call):
                calls.append("CALL:" + ast.unparse(n.func))
        return acc, calls

    def visit_stmt(st):
        if is_lock_with(st):
            shape.append("LOCK")
            writes = {}
            for n in ast.walk(st):
                if _is_self_attr(n, shared) and isinstance(n.ctx, (ast.Store, ast.Del)):
                    writes[n.attr] = writes.get(n.attr, 0) + 1
                if isinstance(n, ast.Call) and not _is_self_attr(n.func) and \
                        ast.unparse(n.func) not in ("Disposable", "self.InnerDisposable", "len"):
                    f = ast.unparse(n.func)
                    if not (f.startswith("self.disposable.") or f in ("Exception",)):
                        raise ValueError(f"{path}:{n.lineno}: call {f} inside a locked block")
            per_block_writes.append(writes)
            return
        if isinstance(st, (ast.With, ast.Try, ast.While, ast.AsyncWith, ast.Match)):
            raise ValueError(f"{path}:{st.lineno}: unsupported statement {type(st).__name__}")
        if isinstance(st, ast.FunctionDef):
            return            # nested def (ScheduledDisposable.dispose.action): runs elsewhere
        heads = []            # the expressions evaluated on the statement's own line
        if isinstance(st, ast.If):
            heads = [st.test]
        elif isinstance(st, ast.For):
            heads = [st.iter]
        else:
            heads = [st]
        for h in heads:
            acc, calls = expr_accesses(h, st.lineno)
            if len(acc) > 1 and not (len(acc) == 2 and acc[0][2:] == acc[1][2:]):
                raise ValueError(f"{path}:{st.lineno}: more than one shared access on one line: {acc}")
            if acc:
                shape.append(acc[-1] if len(acc) == 1 else "W:" + acc[0][2:])
                lines.add(st.lineno)
            for c in calls:
                if c not in ("Exception",):
                    shape.append(c)
        if isinstance(st, ast.If):
            for s in st.body:
                visit_stmt(s)
            for s in st.orelse:
                visit_stmt(s)
        elif isinstance(st, ast.For):
            for s in st.body:
                visit_stmt(s)

    for st in fn.body:
        if isinstance(st, ast.Expr) and isinstance(st.value, ast.Constant):
            continue          # docstring
        visit_stmt(st)
    return shape, lines, per_block_writes


# --------------------------------------------------------------------------
# controller
# --------------------------------------------------------------------------

class LThread:
    def __init__(self, tid, fn):
        self.tid, self.fn = tid, fn
        self.sem = _Sem(0)
        self.state = "new"         # new | parked | finished
        self.wants = None          # lock it is about to acquire
        self.held = 0
        self.steps = 0
        self.skip = 0              # number of upcoming lock yield points that belong to the current action
        self.error = None
        self.thread = None


class Controller:
    """One run.  `targets`: {filename: {function name: set of yield lines or None}};
    in fine mode every line of the listed functions yields."""

    HANG_S = 20.0

    def __init__(self, targets, fine=False, max_steps=2000):
        self.targets = {os.path.abspath(k): v for k, v in targets.items()}
        self.fine = fine
        self.max_steps = max_steps
        self.threads = []
        self.by_ident = {}
        self.main_sem = _Sem(0)
        self.log = []              # observable events appended by spies / drivers: (tid, ...)
        self.trace = []            # (chosen tid, tuple of runnable tids)
        self.aborting = False

    # -- called from logical threads ---------------------------------------
    def me(self):
        return self.by_ident.get(_get_ident())

    def tid(self):
        t = self.me()
        return t.tid if t is not None else -1

    def yield_point(self, kind="call"):
        t = self.me()
        if t is None:
            return                  # main thread (setup outside the controller / result queries)
        if not self.fine and t.held > 0 and kind != "lock":
            return
        if kind == "lock" and t.skip > 0 and not self.fine:
            t.skip -= 1
            return
        t.state = "parked"
        self.main_sem.release()
        t.sem.acquire()
        if self.aborting:
            raise _Abort()
        t.state = "running"

    def emit(self, *ev):
        self.log.append((self.tid(),) + tuple(ev))

    def _tracer(self, frame, event, arg):
        if event != "call":
            return None
        code = frame.f_code
        fns = self.targets.get(code.co_filename)
        if fns is None or code.co_name not in fns:
            return None
        lines = fns[code.co_name]

        def local(frame, event, arg):
            if event == "line" and (self.fine or (lines is not None and frame.f_lineno in lines)):
                self.yield_point("line")
            return local
        return local

    def _body(self, t):
        self.by_ident[_get_ident()] = t
        sys.settrace(self._tracer)
        try:
            t.sem.acquire()         # wait for the first grant (advance to the first yield point)
            if not self.aborting:
                t.state = "running"
                t.fn()
        except _Abort:
            pass
        except BaseException as e:  # noqa: a crash of the driver itself
            t.error = e
        finally:
            sys.settrace(None)
            t.state = "finished"
            self.main_sem.release()

    # -- called from the controlling (main) thread ---------------------------
    def spawn(self, fn):
        t = LThread(len(self.threads), fn)
        self.threads.append(t)
        return t.tid

    def _grant(self, t):
        t.sem.release()
        if not self.main_sem.acquire(timeout=self.HANG_S):
            raise ControllerError(f"thread {t.tid} did not come back within {self.HANG_S}s")
        if t.error is not None:
            raise ControllerError(f"driver of thread {t.tid} crashed: {t.error!r}")

    def _start(self, t):
        global CURRENT
        th = _Thread(target=self._body, args=(t,), daemon=True)
        t.thread = th
        th.start()
        self._grant(t)              # runs to its first yield point (or finishes)

    def runnable(self, group):
        out = []
        for t in group:
            if t.state != "parked":
                continue
            if t.wants is not None and t.wants.owner is not None and t.wants.owner != t:
                continue            # blocked on a held lock
            out.append(t.tid)
        return out

    def run(self, chooser, setup=None):
        """setup: tid of a thread that runs alone to completion first (not part
        of the schedule, its number of steps is returned in self.setup_steps).
        chooser(step index, runnable tids, last tid) -> tid."""
        global CURRENT
        if CURRENT is not None:
            raise ControllerError("nested controller")
        CURRENT = self
        try:
            self.setup_steps = 0
            group = list(self.threads)
            if setup is not None:
                s = self.threads[setup]
                group.remove(s)
                self._start(s)
                while s.state != "finished":
                    self.setup_steps += 1
                    if self.setup_steps > self.max_steps:
                        raise ControllerError("setup thread does not terminate")
                    self._grant(s)
            for t in group:
                self._start(t)
            last = None
            while True:
                rn = self.runnable(group)
                if not rn:
                    if any(t.state != "finished" for t in group):
                        raise Deadlock([t.tid for t in group if t.state != "finished"])
                    break
                if len(self.trace) >= self.max_steps:
                    raise ControllerError("schedule longer than max_steps")
                c = chooser(len(self.trace), rn, last)
                if c not in rn:
                    raise ControllerError(f"chooser picked {c}, runnable {rn}")
                self.trace.append((c, tuple(rn)))
                self.threads[c].steps += 1
                self._grant(self.threads[c])
                last = c
            return [c for c, _ in self.trace]
        finally:
            # unwind whatever is still parked (error paths only)
            self.aborting = True
            for t in self.threads:
                if t.state == "parked" or (t.state == "new" and t.thread is not None):
                    t.sem.release()
            for t in self.threads:
                if t.thread is not None:
                    t.thread.join(timeout=2)
            CURRENT = None


# --------------------------------------------------------------------------
# choosers and schedule enumeration
# --------------------------------------------------------------------------

def follow(prefix, lenient=False):
    """follow `prefix`, then run non-preemptively (keep the last thread while it
    can run, else the smallest runnable id).  lenient: a prefix entry that is not
    runnable (replay of a schedule on changed code) falls back to the default."""
    def ch(k, rn, last):
        if k < len(prefix) and (not lenient or prefix[k] in rn):
            return prefix[k]
        if last in rn:
            return last
        return rn[0]
    return ch


def exact(schedule):
    def ch(k, rn, last):
        if k >= len(schedule):
            raise ControllerError("schedule exhausted before the threads finished")
        return schedule[k]
    return ch


def explore(run_once, bound, limit=None):
    """Enumerate all schedules with at most `bound` preemptions.
    run_once(chooser) -> (trace [(chosen, runnable)], result).  Yields (schedule, result).
    Stateless search: every run follows a prefix and continues non-preemptively;
    the children of a run deviate from it at one position at or after the end
    of its prefix, so every bounded schedule is produced exactly once."""
    work = [([], 0)]
    n = 0
    while work:
        prefix, used = work.pop()
        trace, result = run_once(follow(prefix))
        sched = [c for c, _ in trace]
        n += 1
        yield sched, result
        if limit is not None and n >= limit:
            return
        p = used
        for k in range(len(prefix), len(trace)):
            c, rn = trace[k]
            prev = trace[k - 1][0] if k > 0 else None
            for a in rn:
                if a == c:
                    continue
                # deviating to `a` at position k: a preemption iff the previous thread could continue
                cost = 1 if (prev is not None and prev in rn) else 0
                if p + cost <= bound:
                    work.append((sched[:k] + [a], p + cost))
            # cost of the step actually taken at k (default policy never preempts)
    return


def random_chooser(rng):
    def ch(k, rn, last):
        return rng.choice(rn)
    return ch


def preemptions(trace):
    p = 0
    for k in range(1, len(trace)):
        prev = trace[k - 1][0]
        if trace[k][0] != prev and prev in trace[k][1]:
            p += 1
    return p


# --------------------------------------------------------------------------
# self-test
# --------------------------------------------------------------------------

def self_test(bound=2):
    """A deliberately racy check-then-act class must show its race under some
    bounded schedule, the locked variant must not.  -> dict of measured facts."""
    import k3_toys
    path = os.path.abspath(k3_toys.__file__)
    undo = rebind_locks(["k3_toys"])
    try:
        out = {}
        for cls in ("RacyOnce", "LockedOnce"):
            for fine in (False, True):
                shape, lines, _ = shape_of(path, cls, "fire")
                targets = {path: {"fire": lines}}
                seen = {}

                def run_once(chooser):
                    obj = getattr(k3_toys, cls)()
                    c = Controller(targets, fine=fine)
                    for _ in range(2):
                        c.spawn(obj.fire)
                    c.run(chooser)
                    return c.trace, obj.runs
                n = 0
                for sched, runs in explore(run_once, bound):
                    n += 1
                    seen.setdefault(runs, sched)
                out[(cls, "fine" if fine else "coarse")] = {"schedules": n, "runs_seen": sorted(seen),
                                                           "witness": seen.get(2), "shape": shape}
        ok = (all(2 in out[("RacyOnce", m)]["runs_seen"] for m in ("fine", "coarse"))
              and all(out[("LockedOnce", m)]["runs_seen"] == [1] for m in ("fine", "coarse")))
        return ok, {f"{k[0]}/{k[1]}": v for k, v in out.items()}
    finally:
        restore_locks(undo)
