"""Toy classes for the self-test of harness/k3_time.py: a one-slot mailbox on a
Condition.  `RacyMailbox.get` tests for emptiness OUTSIDE the lock and then
waits: a put() that falls between the test and the wait is a lost wake-up (the
consumer sleeps for ever).  `Mailbox` tests under the lock."""
import threading


class Mailbox:
    def __init__(self):
        self.cond = threading.Condition(threading.Lock())
        self.items = []

    def put(self, x):
        with self.cond:
            self.items.append(x)
            self.cond.notify()

    def get(self, timeout=None):
        with self.cond:
            if not self.items:
                self.cond.wait(timeout)
            if self.items:
                return self.items.pop(0)
            return None


class RacyMailbox(Mailbox):
    def get(self, timeout=None):
        empty = not self.items
        with self.cond:
            if empty:
                self.cond.wait(timeout)
            if self.items:
                return self.items.pop(0)
            return None
