"""C05 -- scheduler-FORWARDING family (oracle only).

Every element-wise operator of the C05 table subscribes its source with the scheduler its own subscriber
handed to subscribe(..., scheduler=S).  If it does not, an upstream stage that takes its clock from the
subscribe-time scheduler (interval, timer, delay, from_iterable ...) falls back to the real-time default and,
in virtual time, the output is not "emitted at the virtual time of the input that determines it" (nothing is
emitted at all).

Source kinds
  probe_sync  : own recording source, pipeline.subscribe(obs, scheduler=S) with S a private ImmediateScheduler
                sentinel; the source records the scheduler of every subscription it receives (must be S itself)
                and pushes its events from inside subscribe.
  probe_timed : own recording cold source under TestScheduler.start (which subscribes with scheduler=S); events
                at relative virtual times on the closure-bound S (so the output is judged whatever was forwarded).
  interval / timer / delay : library sources WITHOUT scheduler argument (reactivex.interval(p), timer(d, p),
                timer(d), hot.pipe(delay(d)), from_iterable(xs).pipe(delay(d))) shaped into the drawn elements /
                terminal; the reference timeline is the source ALONE measured under a fresh TestScheduler (and,
                for interval/timer, cross-checked against 200 + d + k*p); the pipeline with the operator must give
                the list semantics of the operator over that timeline, every output at the time of its input.
Modes: single | twice (op ; [map(lift)] ; second instance of the same operator) | op_share (op ; share()) |
share_op (share() ; op).

The oracle is C05.expected (the Python list computation with tags), composed by tag substitution for `twice`."""
import json
import random
import types

import k2
import lib
from k2 import UserError

KINDS = ["probe_sync", "probe_timed", "interval", "timer", "delay"]
MODES = ["single", "twice", "op_share", "share_op"]
BUDGET = 10.0      # seconds per run (lib.with_timeout)


# ----------------------------------------------------------------------------------------------- values
def norm(v):
    """values in a vocabulary in which implementation output and list computation can be compared:
    notification objects become tuples (recursively)"""
    from reactivex.notification import OnNext, OnError, OnCompleted
    if isinstance(v, OnNext):
        return ("N", norm(v.value))
    if isinstance(v, OnError):
        return ("E", k2.err_id(v.exception) if isinstance(v.exception, BaseException) else v.exception)
    if isinstance(v, OnCompleted):
        return ("C",)
    if isinstance(v, tuple):
        return tuple(norm(x) for x in v)
    if isinstance(v, list):
        return [norm(x) for x in v]
    return v


def same(a, b):
    a, b = norm(a), norm(b)
    return repr(a) == repr(b) and type(a) == type(b)


def lift_for(inst2, pool):
    """value of an arbitrary stage-1 output -> a valid input element of the second instance (None: as is)"""
    from reactivex.notification import OnNext
    s = inst2["spec"]
    K = pool.K

    def to_pool(v):
        try:
            pool.id(v)
            return v
        except Exception:
            return pool.val(hash(repr(v)) % K) if not isinstance(v, int) else pool.val(v % K)
    if s[0] == "dematerialize":
        return lambda v: OnNext(v)
    if s[0] == "starmap":
        return lambda v: v if (isinstance(v, tuple) and len(v) == 2) else (to_pool(v), to_pool(v))
    if s[0] == "pluck":
        return lambda v: {s[1]: v}
    if s[0] == "pluck_attr":
        return lambda v: types.SimpleNamespace(**{s[1]: v})
    if s[0] in ("pairwise", "materialize", "take_last_buffer", "take", "skip", "take_last", "skip_last",
                "ignore_elements", "element_at"):
        return None                      # no callback looks at the elements
    if s[0] in ("start_with", "default_if_empty"):
        return None
    return to_pool                       # callbacks / key tables are defined on pool values


# ----------------------------------------------------------------------------------------------- case
def gen_case(C05, pool, T, name, case_seed, kind, mode):
    """everything about a case is drawn from its seed"""
    rng = random.Random(case_seed)
    for _ in range(6):
        inst = T[name](rng)
        inst2 = T[name](rng) if mode == "twice" else None
        if inst.get("gen_inputs") is not None:
            ins = inst["gen_inputs"](rng, 6)
        else:
            ins = k2.gen_inputs(rng, inst.get("pool", pool), maxlen=6, conforming=True)
        xs, term = [], None
        for e in ins:
            if e[0] == "N":
                xs.append(e[1])
            else:
                term = "C" if e[0] == "C" else e[1].code
                break
        lift = lift_for(inst2, pool) if inst2 is not None else None
        if compose_expected(C05, inst, inst2, lift, xs, term, pool) is not None:
            break                         # judged by the list oracle (comparer variants: only equivalences)
    par = dict(p=rng.choice([10, 25, 60]), d=rng.choice([5, 50, 130]),
               gaps=[rng.choice([1, 10, 30]) for _ in range(len(xs) + 1)],
               completion=rng.choice(["take", "take_while"]), single_timer=rng.random() < 0.5,
               sync_delay=rng.random() < 0.3)
    return dict(name=name, kind=kind, mode=mode, inst=inst, inst2=inst2, lift=lift, xs=xs, term=term, par=par)


def compose_expected(C05, inst, inst2, lift, xs, term, pool):
    """list computation of the pipeline -> (out [(tag, value)], end (tag, 'C' | ('E', code)) | None) with tags
    in positions of the SOURCE (0 = subscribe instant, k = k-th element, n+1 = source terminal), or None"""
    e1 = C05.expected(inst["spec"], list(xs), term, pool)
    if e1 is None or inst2 is None:
        return e1
    out1, end1 = e1
    ys = [(lift(v) if lift else v) for _, v in out1]
    term2 = None if end1 is None else ("C" if end1[1] == "C" else end1[1][1])
    e2 = C05.expected(inst2["spec"], ys, term2, pool)
    if e2 is None:
        return None
    out2, end2 = e2
    n2 = len(ys)

    def back(tag):
        if tag == 0:
            return 0
        if tag <= n2:
            return out1[tag - 1][0]
        return end1[0]
    return [(back(t), v) for t, v in out2], (None if end2 is None else (back(end2[0]), end2[1]))


def pipeline(case, src):
    from reactivex import operators as ops
    stages = [case["inst"]["py"]]
    if case["mode"] == "twice":
        if case["lift"] is not None:
            stages.append(ops.map(case["lift"]))
        stages.append(case["inst2"]["py"])
    elif case["mode"] == "op_share":
        stages.append(ops.share())
    elif case["mode"] == "share_op":
        stages.insert(0, ops.share())
    return src.pipe(*stages)


# ----------------------------------------------------------------------------------------------- sources
def shaped(base, xs, term, completion):
    """ticks 0, 1, 2, ... -> the drawn elements and terminal"""
    from reactivex import operators as ops
    n = len(xs)

    def shape(i):
        if i >= n:
            raise UserError(term if isinstance(term, int) else 13)
        return xs[i]
    if term == "C":
        first = ops.take(n) if completion == "take" else ops.take_while(lambda i: i < n)
        return base.pipe(first, ops.map(shape))
    if term is None:
        return base.pipe(ops.filter(lambda i: i < n), ops.map(shape))
    return base.pipe(ops.map(shape))


def library_source(case, S):
    """a timed source that takes its clock from the subscribe-time scheduler -> (observable, arithmetic
    timeline [(time, kind, payload)] or None)"""
    import reactivex
    from reactivex import operators as ops
    from reactivex.testing import ReactiveTest
    xs, term, par = case["xs"], case["term"], case["par"]
    n, p, d = len(xs), par["p"], par["d"]
    kind = case["kind"]
    if kind in ("interval", "timer"):
        off = p if kind == "interval" else d
        if kind == "timer" and n == 1 and term == "C" and par["single_timer"]:
            x0 = xs[0]
            return reactivex.timer(d).pipe(ops.map(lambda _: x0)), [(200 + d, "N", x0), (200 + d, "C", None)]
        base = reactivex.interval(p) if kind == "interval" else reactivex.timer(d, p)
        tl = [(200 + off + k * p, "N", x) for k, x in enumerate(xs)]
        if term == "C":
            if par["completion"] == "take":
                tl.append(((200 + off + (n - 1) * p) if n else 200, "C", None))
            else:
                tl.append((200 + off + n * p, "C", None))
        elif term is not None:
            tl.append((200 + off + n * p, "E", term))
        return shaped(base, xs, term, par["completion"]), tl
    # delay
    if par["sync_delay"] and term == "C":
        return reactivex.from_iterable(list(xs)).pipe(ops.delay(d)), None
    t, msgs = 200, []
    for k, x in enumerate(xs):
        t += par["gaps"][k]
        msgs.append(ReactiveTest.on_next(t, x))
    t += par["gaps"][n]
    if term == "C":
        msgs.append(ReactiveTest.on_completed(t))
    elif term is not None:
        msgs.append(ReactiveTest.on_error(t, UserError(term)))
    tl = None
    if term == "C" or term is None:
        tl = [(m.time + d, "N", m.value.value) for m in msgs if m.value.kind == "N"]
        if term == "C":
            tl.append((t + d, "C", None))
    return S.create_hot_observable(*msgs).pipe(ops.delay(d)), tl


def probe_source(case, S, rec, timed):
    """own cold source: records the scheduler of every subscription; events pushed from inside subscribe
    (sync) or at relative virtual times on the closure-bound TestScheduler (timed)"""
    from reactivex import Observable
    from reactivex.disposable import CompositeDisposable, Disposable
    xs, term, gaps = case["xs"], case["term"], case["par"]["gaps"]

    def subscribe(observer, scheduler=None):
        rec.append(scheduler)
        evs = [("N", x) for x in xs]
        if term == "C":
            evs.append(("C", None))
        elif term is not None:
            evs.append(("E", UserError(term)))

        def push(ev):
            if ev[0] == "N":
                observer.on_next(ev[1])
            elif ev[0] == "C":
                observer.on_completed()
            else:
                observer.on_error(ev[1])
        if not timed:
            for ev in evs:
                push(ev)
            return Disposable()
        group = CompositeDisposable()
        t = 0
        for k, ev in enumerate(evs):
            t += gaps[min(k, len(gaps) - 1)]
            group.add(S.schedule_relative(t, (lambda ev: lambda *_: push(ev))(ev)))
        return group
    return Observable(subscribe)


def messages(res):
    out = []
    for m in res.messages:
        v = m.value
        if v.kind == "N":
            out.append((int(m.time), "N", v.value))
        elif v.kind == "E":
            out.append((int(m.time), "E", k2.err_id(v.exception)))
        else:
            out.append((int(m.time), "C", None))
    return out


def conforming(tl):
    kinds = [k for _, k, _ in tl]
    return all(k == "N" for k in kinds[:-1]) and all(a[0] <= b[0] for a, b in zip(tl, tl[1:]))


# ----------------------------------------------------------------------------------------------- run one
def run_case(C05, case, pool):
    """-> dict(verdict = ok | identity | list-semantics | escape | timeout | skipped, ...)"""
    from reactivex.testing import TestScheduler
    from reactivex.scheduler import ImmediateScheduler
    kind = case["kind"]

    def body():
        info = {}
        if kind == "probe_sync":
            class Sentinel(ImmediateScheduler):
                pass
            S = Sentinel()
            rec, got = [], []
            src = probe_source(case, None, rec, timed=False)
            pipeline(case, src).subscribe(lambda v: got.append((0, "N", v)),
                                          lambda e: got.append((0, "E", k2.err_id(e))),
                                          lambda: got.append((0, "C", None)), scheduler=S)
            tl = [(0, "N", x) for x in case["xs"]]
            if case["term"] is not None:
                tl.append((0, "C", None) if case["term"] == "C" else (0, "E", case["term"]))
            info.update(S=S, rec=rec, got=got, tl=tl, t0=0)
            return info
        if kind == "probe_timed":
            S = TestScheduler()
            rec = []
            # reference timeline: relative gaps from the subscribe instant 200
            t, tl = 200, []
            gaps = case["par"]["gaps"]
            for k, x in enumerate(case["xs"]):
                t += gaps[min(k, len(gaps) - 1)]
                tl.append((t, "N", x))
            if case["term"] is not None:
                t += gaps[min(len(case["xs"]), len(gaps) - 1)]
                tl.append((t, "C", None) if case["term"] == "C" else (t, "E", case["term"]))
            src = probe_source(case, S, rec, timed=True)
            got = messages(S.start(lambda: pipeline(case, src)))
            info.update(S=S, rec=rec, got=got, tl=tl, t0=200)
            return info
        # library source: measure it alone, then with the operator
        S0 = TestScheduler()
        src0, arith = library_source(case, S0)
        tl = messages(S0.start(lambda: src0))
        info["arith"] = arith
        info["as_designed"] = (conforming(tl)
                               and (arith is None or (len(arith) == len(tl) and all(
                                   a[0] == b[0] and a[1] == b[1] and same(a[2], b[2]) for a, b in zip(arith, tl)))))
        S = TestScheduler()
        src, _ = library_source(case, S)
        got = messages(S.start(lambda: pipeline(case, src)))
        info.update(S=S, rec=None, got=got, tl=tl, t0=200)
        return info

    def guarded():
        try:
            return ("ok", body())
        except Exception as e:                     # anything escaping from the library into the driver
            return ("escape", e)
    st, r = lib.with_timeout(BUDGET, guarded)
    if st == "timeout":
        return dict(verdict="timeout", detail=f"no result within {BUDGET} s")
    if r[0] == "escape":
        return dict(verdict="escape", detail=f"{type(r[1]).__name__}: {r[1]!r}"[:300])
    info = r[1]
    if info.get("as_designed") is False:
        return dict(verdict="skipped", detail="the timed source alone did not give the designed timeline",
                    tl=info["tl"], arith=info["arith"])
    tl, got, t0 = info["tl"], info["got"], info["t0"]
    # the statement quantifies over the source's timeline
    xs = [v for _, k, v in tl if k == "N"]
    term = None
    if tl and tl[-1][1] != "N":
        term = "C" if tl[-1][1] == "C" else tl[-1][2]
    times = {0: t0}
    for k, ev in enumerate(tl):
        times[k + 1] = ev[0]
    exp = compose_expected(C05, case["inst"], case["inst2"], case["lift"], xs, term, pool)
    res = dict(tl=tl, got=got, exp_msgs=None, rec=None)
    # --- identity of the forwarded scheduler
    if info["rec"] is not None:
        res["rec"] = ["S" if s is info["S"] else repr(s) for s in info["rec"]]
        if any(s is not info["S"] for s in info["rec"]):
            return dict(res, verdict="identity")
    if exp is None:
        return dict(res, verdict="unjudged")
    eo, ee = exp
    em = [(times[t], "N", v) for t, v in eo]
    if ee is not None:
        em.append((times[ee[0]], "C", None) if ee[1] == "C" else (times[ee[0]], "E", ee[1][1]))
    res["exp_msgs"] = em
    ok = len(em) == len(got) and all(a[0] == b[0] and a[1] == b[1] and same(a[2], b[2]) for a, b in zip(em, got))
    return dict(res, verdict="ok" if ok else "list-semantics", nontrivial=bool(eo) and len(xs) > 1)


def show(msgs):
    return repr([(t, k, norm(v)) for t, k, v in msgs]) if msgs is not None else "None"


def describe(case):
    d = dict(operator=case["name"], kind=case["kind"], mode=case["mode"], instance=case["inst"]["coq"],
             elements=repr([norm(x) for x in case["xs"]]), terminal=repr(case["term"]),
             parameters={k: v for k, v in case["par"].items()})
    if case["inst2"] is not None:
        d["second_instance"] = case["inst2"]["coq"]
    return d


# ----------------------------------------------------------------------------------------------- family
def run_family(chk, C05, pool, T):
    ncase = 60 if chk.tier == "quick" else 600
    hist = {"kinds": {k: 0 for k in KINDS}, "modes": {m: 0 for m in MODES},
            "verdicts": {}, "identity_checked_subscriptions": 0, "source_never_subscribed": 0}
    per_op, nontrivial = {}, set()
    for name in T:
        per_op[name] = 0
        for ci in range(ncase):
            kind, mode = KINDS[ci % len(KINDS)], MODES[(ci // len(KINDS)) % len(MODES)]
            case_seed = chk.rng.getrandbits(48)
            rep = {"family": "sched_forward", "operator": name, "kind": kind, "mode": mode, "case_seed": case_seed}
            try:
                case = gen_case(C05, pool, T, name, case_seed, kind, mode)
                r = run_case(C05, case, pool)
            except Exception as e:        # the driver itself must not crash on a changed library
                chk.violation(f"sched-forward|escape|{name}|{mode}|{kind}",
                              dict(rep, escaped=f"{type(e).__name__}: {e!r}"[:300],
                                   expected="no exception escapes from the library into the driver"), size=0)
                continue
            chk.cov["evaluations"] += 1
            per_op[name] += 1
            hist["kinds"][kind] += 1
            hist["modes"][mode] += 1
            v = r["verdict"]
            hist["verdicts"][v] = hist["verdicts"].get(v, 0) + 1
            if r.get("rec") is not None:
                hist["identity_checked_subscriptions"] += len(r["rec"])
                if not r["rec"]:
                    hist["source_never_subscribed"] += 1
            if v == "ok":
                if r.get("nontrivial"):
                    nontrivial.add((name, kind, mode, case["inst"]["coq"], repr([norm(x) for x in case["xs"]])))
                continue
            if v in ("unjudged", "skipped"):
                if v == "skipped":
                    chk.notes.append(f"sched_forward: {name}/{kind}: {r['detail']} "
                                     f"(measured {show(r['tl'])}, designed {show(r['arith'])})")
                continue
            size = len(case["xs"]) + (0 if mode == "single" else 1)
            rep.update(describe(case))
            if v == "identity":
                chk.violation(f"sched-forward|identity|{name}|{mode}|{kind}",
                              dict(rep, source_was_subscribed_with=r["rec"],
                                   expected="the source is subscribed with the very scheduler object S handed to "
                                            "subscribe(..., scheduler=S)"), size=size)
            elif v == "list-semantics":
                chk.violation(f"sched-forward|list-semantics|{name}|{mode}|{kind}",
                              dict(rep, **{"source timeline (time, kind, value)": show(r["tl"]),
                                           "implementation (time, kind, value)": show(r["got"]),
                                           "expected": show(r["exp_msgs"]),
                                           "oracle": "Python list computation of the operator over the source's "
                                                     "timeline, every output at the virtual time of the input "
                                                     "that determines it"}), size=size)
            else:
                chk.violation(f"sched-forward|{v}|{name}|{mode}|{kind}",
                              dict(rep, escaped=r["detail"],
                                   expected="the run ends and no exception escapes into the driver"), size=size)
    k2.CALLS.clear() if hasattr(k2.CALLS, "clear") else None
    chk.cov["sched_forward"] = {"cases": sum(per_op.values()), "per_operator": per_op, **hist,
                                "distinct_nontrivial": len(nontrivial)}
    return len(nontrivial)


def replay(chk, C05, d, path, pool, T):
    name, kind, mode = d["operator"], d["kind"], d["mode"]
    try:
        case = gen_case(C05, pool, T, name, d["case_seed"], kind, mode)
        r = run_case(C05, case, pool)
    except Exception as e:
        r, case = dict(verdict="escape", detail=f"{type(e).__name__}: {e!r}"), None
    print(f"[C05] replay sched_forward  {name}  source: {kind}  mode: {mode}")
    if case is not None:
        print(f"  instance      : {case['inst']['coq']}" +
              (f"   then   {case['inst2']['coq']}" if case["inst2"] else ""))
        print(f"  elements      : {[norm(x) for x in case['xs']]!r}  terminal: {case['term']!r}  {case['par']}")
    if r.get("rec") is not None:
        print(f"  source subscribed with: {r['rec']}   (S = the scheduler handed to subscribe)")
    if "tl" in r:
        print(f"  source timeline: {show(r['tl'])}")
        print(f"  implementation : {show(r['got'])}")
        print(f"  expected       : {show(r.get('exp_msgs'))}")
    if "detail" in r:
        print(f"  {r['verdict']}: {r['detail']}")
    if r["verdict"] in ("identity", "list-semantics", "escape", "timeout"):
        print(f"VIOLATION property=C05 replay={path}")
        return 1
    print("[C05] the recorded case no longer fails on the current tree")
    return 0
