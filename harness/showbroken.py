import json,glob,sys
pid=sys.argv[1]
for f in glob.glob(f'/verif/replay/{pid}-*.json'):
    d=json.load(open(f))
    if 'no_longer_checks' in d:
        for x in d['no_longer_checks']:
            print("##",x['what']); dd=x['detail']
            if isinstance(dd,dict):
                print("n=",dd.get('n'))
                for k,v in dd.items():
                    if k.startswith('first'):
                        for c in v: print("  CASE:",c[0][:900]); print("  IMPL:",c[1][:900])
                print("  MODEL:",dd.get('model_says','')[:1200]); print("  LOGS:",str(dd.get('logs'))[:1500])
            else: print(str(dd)[:2000])
    else:
        d.pop('pool',None); print(json.dumps(d,indent=0)[:1800])
    print('-----')
