"""C03, oracle-only family: the library's own PRODUCERS under a virtual-time scheduler, disposed at every kind of
point -- the two mechanisms the property anchors that hand-held hot sources never reach:
`from_iterable_.action` polling its `disposed` flag, and scheduled work being cancelled through the disposables
returned by schedule_* (`ScheduledItem.cancel`): range / generate re-scheduling themselves per element,
timer / interval / generate_with_relative_time holding a timer.

    source   from_iterable(spy iterator) | range | generate(cond, iterate spies) |
             generate_with_relative_time(+ time mapper spy) | timer(due) | timer(due, period) | interval(period)
    stage    none | map(spy) | filter(spy) | take(n) | scan(spy)
    run      subscribe(..., scheduler=TestScheduler()); the scheduler is advanced by the harness
    dispose  start   right after subscribe() returned, before the scheduler ran anything
             clock   the scheduler is advanced to a time t (drawn from the instants of an undisturbed run and the
                     gaps between them), then dispose(), then the scheduler is advanced to the horizon
             sched   dispose() runs as a scheduled action AT an instant of the undisturbed run, scheduled before
                     or after the subscription (so it is ordered before / after the producer's work of that instant)
             inner   dispose() from INSIDE the subscriber's k-th on_next

One append-only log records every notification, every invocation of a user callback (stage callbacks, generate's
condition / iterate / time mapper) and every pull from the user's iterator.  Statement of C03, read directly: behind the
log position at which dispose() returned there is nothing.  (Everything is one thread and virtual time.)
Each case is a function of one integer, so replay files hold (family, case_seed)."""
from __future__ import annotations

import random

import lib

HORIZON = 3.0
SOURCES = ["from_iterable", "from_iterable", "range", "generate", "generate_rel", "timer", "timer_period", "interval"]
STAGES = ["none", "map", "filter", "take", "scan"]
MODES = ["start", "clock", "clock", "sched", "sched", "inner", "inner", "inner"]


class SpyError(Exception):
    pass


def gen_case(case_seed):
    rng = random.Random(case_seed)
    c = {"source": rng.choice(SOURCES), "stage": rng.choice(STAGES), "mode": rng.choice(MODES),
         "n": rng.choice([0, 1, 2, 3, 5, 8]), "raise_at": rng.choice([None, None, None, 1, 3]),
         "period_ms": rng.choice([50, 100, 250]), "due_ms": rng.choice([0, 50, 100, 300]),
         "take": rng.choice([1, 2, 4]), "sched_before": rng.random() < 0.5, "u": rng.random(), "v": rng.random()}
    return c


def run_case(c, dispose=True):
    """-> dict(log, mark, clock_at_dispose); mark = len(log) when dispose() returned (None: never issued)"""
    lib.import_repo()
    import reactivex as rx
    from reactivex import operators as ops
    from reactivex.testing import TestScheduler
    ts = TestScheduler()
    log = []
    st = {"mark": None, "nexts": 0, "sub": None, "clock": None}

    def spy(name, f):
        def g(*a):
            log.append(("cb", name, ts.clock))
            return f(*a)
        return g

    def do_dispose():
        if st["mark"] is None and st["sub"] is not None:
            st["sub"].dispose()
            st["mark"] = len(log)
            st["clock"] = ts.clock

    n, src = c["n"], c["source"]
    if src == "from_iterable":
        class It:
            def __iter__(self):
                return self

            def __init__(self):
                self.i = 0

            def __next__(self):
                log.append(("pull", self.i, ts.clock))
                if c["raise_at"] is not None and self.i == c["raise_at"]:
                    raise SpyError()
                if self.i >= n:
                    raise StopIteration
                self.i += 1
                return self.i
        source = rx.from_iterable(It())
    elif src == "range":
        source = rx.range(0, n)
    elif src == "generate":
        source = rx.generate(0, spy("condition", lambda x: x < n), spy("iterate", lambda x: x + 1))
    elif src == "generate_rel":
        source = rx.generate_with_relative_time(0, spy("condition", lambda x: x < n), spy("iterate", lambda x: x + 1),
                                                spy("time_mapper", lambda x: c["period_ms"] / 1000.0))
    elif src == "timer":
        source = rx.timer(c["due_ms"] / 1000.0)
    elif src == "timer_period":
        source = rx.timer(c["due_ms"] / 1000.0, c["period_ms"] / 1000.0)
    else:
        source = rx.interval(c["period_ms"] / 1000.0)
    stage = c["stage"]
    if stage == "map":
        source = source.pipe(ops.map(spy("mapper", lambda x: x * 2)))
    elif stage == "filter":
        source = source.pipe(ops.filter(spy("predicate", lambda x: x % 3 != 1)))
    elif stage == "take":
        source = source.pipe(ops.take(c["take"]))
    elif stage == "scan":
        source = source.pipe(ops.scan(spy("accumulator", lambda a, x: a + x), 0))

    def on_next(v):
        log.append(("next", v, ts.clock))
        st["nexts"] += 1
        if dispose and c["mode"] == "inner" and st["nexts"] == c.get("k"):
            do_dispose()

    def on_error(e):
        log.append(("error", type(e).__name__, ts.clock))

    def on_completed():
        log.append(("completed", None, ts.clock))
    sched = dispose and c["mode"] == "sched" and c.get("t") is not None
    if sched and c["sched_before"]:
        ts.schedule_absolute(c["t"], lambda *_: do_dispose())
    st["sub"] = source.subscribe(on_next, on_error, on_completed, scheduler=ts)
    if sched and not c["sched_before"]:
        ts.schedule_absolute(c["t"], lambda *_: do_dispose())
    if dispose and c["mode"] == "start":
        do_dispose()
    if dispose and c["mode"] == "clock" and c.get("t") is not None:
        if c["t"] > 0:
            ts.advance_to(c["t"])
        do_dispose()
    ts.advance_to(HORIZON)
    return {"log": log, "mark": st["mark"], "clock_at_dispose": st["clock"]}


def prepare(c):
    """fix the dispose point from an undisturbed run (deterministic: uses only c['u'], c['v'])"""
    dry = run_case(c, dispose=False)
    instants = sorted({e[2] for e in dry["log"]})
    nexts = sum(1 for e in dry["log"] if e[0] == "next")
    if c["mode"] == "inner":
        c["k"] = 1 + int(c["u"] * nexts) if nexts else None
        if c["k"] is not None and c["k"] > nexts:
            c["k"] = nexts
    elif c["mode"] in ("clock", "sched"):
        pts = list(instants)
        if c["mode"] == "clock":
            pts += [(a + b) / 2 for a, b in zip([0.0] + instants, instants)] + [HORIZON / 2]
        pts = [p for p in pts if 0 <= p < HORIZON]
        c["t"] = pts[int(c["u"] * len(pts)) % len(pts)] if pts else None
    c["dry_notifications"] = sum(1 for e in dry["log"] if e[0] in ("next", "error", "completed"))
    return c


def verdict(c, res):
    if res["mark"] is None:
        return None
    after = res["log"][res["mark"]:]
    for (what, a, clk) in after:
        if what in ("next", "error", "completed"):
            return f"notification {what} {a!r} at clock {clk} after dispose() had returned (clock {res['clock_at_dispose']})"
    for (what, a, clk) in after:
        if what == "cb":
            return f"user callback `{a}` invoked at clock {clk} after dispose() had returned (clock {res['clock_at_dispose']})"
        if what == "pull":
            return (f"the user's iterator was pulled (element {a}) at clock {clk} after dispose() had returned "
                    f"(clock {res['clock_at_dispose']})")
    return None


def family(chk, pid, n, rng):
    hist = {"cases": 0, "dispose_applied": 0, "source": {}, "mode": {}, "stage": {},
            "work_cut_off (the undisturbed run went on after this point)": 0}
    nontrivial = set()
    for _ in range(n):
        seed = rng.getrandbits(48)
        c = prepare(gen_case(seed))
        res = run_case(c)
        chk.cov["evaluations"] += 1
        hist["cases"] += 1
        for key in ("source", "mode", "stage"):
            hist[key][c[key]] = hist[key].get(c[key], 0) + 1
        v = verdict(c, res)
        if res["mark"] is not None:
            hist["dispose_applied"] += 1
            seen = sum(1 for e in res["log"][:res["mark"]] if e[0] in ("next", "error", "completed"))
            if seen < c["dry_notifications"]:
                hist["work_cut_off (the undisturbed run went on after this point)"] += 1
                if not v:
                    nontrivial.add(seed)
        if v:
            chk.violation(f"{pid}|producers|{c['source']}|{c['stage']}|{c['mode']}|{v[:40]}",
                          {"family": "producers", "case_seed": seed, "case": c, "log (what, value, clock)": res["log"],
                           "dispose() returned at log position": res["mark"], "what": v},
                          size=len(res["log"]))
    return hist, nontrivial


def is_replay(d):
    return isinstance(d, dict) and d.get("family") == "producers" and "case_seed" in d


def replay_main(pid, path):
    import json
    d = json.load(open(path))
    c = prepare(gen_case(d["case_seed"]))
    res = run_case(c)
    v = verdict(c, res)
    print(json.dumps({"case": c, "log": res["log"], "dispose() returned at log position": res["mark"], "what": v},
                     indent=1, default=repr))
    if v:
        print(f"VIOLATION property={pid} replay={path}")
        return 1
    print(f"[{pid}] replay: the case no longer fails")
    return 0
