"""Toy classes for the self-test of the K3 thread controller (harness/k3.py):
the controller must expose the check-then-act race of RacyOnce and must not
report one for LockedOnce."""
from threading import RLock


class RacyOnce:
    def __init__(self):
        self.done = False
        self.runs = 0
        self.lock = RLock()

    def fire(self):
        if not self.done:
            self.done = True
            self.runs += 1


class LockedOnce:
    def __init__(self):
        self.done = False
        self.runs = 0
        self.lock = RLock()

    def fire(self):
        fire = False
        with self.lock:
            if not self.done:
                self.done = True
                fire = True
        if fire:
            with self.lock:
                self.runs += 1
