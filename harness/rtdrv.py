"""Driver for C34: the real-time schedulers under the time-aware controller.

kinds: timeout (TimeoutScheduler: one controlled threading.Timer per action; compared with the
transition system of Core/RealTime.v step by step), eventloop / newthread / threadpool (the
EventLoopScheduler family, whose model is C31's; here: oracle), immediate (no threads: the calls
are made directly with the controlled clock and compared with the functions of Core/RealTime.v).

A case: {"kind", "t0", "progs": [[op...]...], "ticks": [...]},
op = ["now", a] | ["rel", d_us, a] | ["abs", t_us, a] | ["cancel", a];
optional "bodies" (calls made from inside an action), "body_sched" ("arg": those calls go to the scheduler the
action was handed -- the inner one-shot EventLoopScheduler on NewThread / ThreadPool), "repr" ("float": due times
as float seconds / POSIX timestamps) and ["periodic", p, a] with "pspec" -- see eldrv.py."""
from __future__ import annotations

import ast
import os
from datetime import timedelta

import eldrv as E
import k3
import k3_time as kt
import lib

lib.import_repo()
import reactivex.scheduler.newthreadscheduler as NTM  # noqa: E402
import reactivex.scheduler.timeoutscheduler as TOM  # noqa: E402
from reactivex.internal.exceptions import WouldBlockException  # noqa: E402
from reactivex.scheduler import (EventLoopScheduler, ImmediateScheduler, NewThreadScheduler,  # noqa: E402
                                 ThreadPoolScheduler, TimeoutScheduler)

KINDS = ("timeout", "eventloop", "newthread", "threadpool")


def make_scheduler(case):
    k = case["kind"]
    if k == "timeout":
        return TimeoutScheduler()
    if k == "eventloop":
        return EventLoopScheduler(exit_if_empty=bool(case.get("eie")))
    if k == "newthread":
        return NewThreadScheduler()
    if k == "threadpool":
        return ThreadPoolScheduler(max_workers=case.get("workers", 2))
    raise ValueError(k)


def fine_targets():
    """fine mode: every line of the scheduler methods of the three files"""
    t = {E.EL_PATH: {f: None for f in E.FUNCS}}
    t[os.path.abspath(TOM.__file__)] = {f: None for f in ("schedule", "schedule_relative", "schedule_absolute",
                                                          "interval", "dispose")}
    t[os.path.abspath(NTM.__file__)] = {f: None for f in ("schedule", "schedule_relative", "schedule_absolute")}
    return t


def run_case(case, chooser, fine=False):
    return E.run_case(case, chooser, fine=fine, make_scheduler=make_scheduler,
                      extra_targets=fine_targets() if fine else None,
                      spy_entry_yield=(case["kind"] != "timeout"), op_entry_yield=(case["kind"] == "timeout"))


# --------------------------------------------------------------------------
# structure checks (the model's step list / the delegation the theorems rely on)
# --------------------------------------------------------------------------

def structure_check():
    """-> list of differences"""
    diffs = []
    src = open(TOM.__file__).read()
    tree = ast.parse(src)
    cls = [n for n in tree.body if isinstance(n, ast.ClassDef) and n.name == "TimeoutScheduler"][0]
    want = {
        "schedule": ["Timer(0, interval)", "timer.start()", "timer.cancel()"],
        "schedule_relative": ["self.to_seconds(duetime)", "self.schedule(action, state)", "Timer(seconds, interval)",
                              "timer.start()", "timer.cancel()"],
        "schedule_absolute": ["self.to_datetime(duetime)", "self.schedule_relative(duetime - self.now, action, state)"],
    }
    for fn in cls.body:
        if isinstance(fn, ast.FunctionDef) and fn.name in want:
            calls = [ast.unparse(n) for n in ast.walk(fn) if isinstance(n, ast.Call)
                     and ast.unparse(n.func) in ("Timer", "timer.start", "timer.cancel", "self.to_seconds",
                                                 "self.schedule", "self.to_datetime", "self.schedule_relative")]
            withs = [n for n in ast.walk(fn) if isinstance(n, (ast.With, ast.While, ast.Try))]
            got = sorted(calls)
            if got != sorted(want[fn.name]) or withs:
                diffs.append({"function": "TimeoutScheduler." + fn.name, "source": got,
                              "model_assumes": sorted(want[fn.name])})
    # NewThreadScheduler delegates every call to a fresh EventLoopScheduler(exit_if_empty=True)
    tree = ast.parse(open(NTM.__file__).read())
    cls = [n for n in tree.body if isinstance(n, ast.ClassDef) and n.name == "NewThreadScheduler"][0]
    for fn in cls.body:
        if isinstance(fn, ast.FunctionDef) and fn.name in ("schedule", "schedule_relative"):
            body = [s for s in fn.body if not (isinstance(s, ast.Expr) and isinstance(s.value, ast.Constant))]
            txt = [ast.unparse(s) for s in body]
            ok = (len(txt) == 2 and txt[0] == "scheduler = EventLoopScheduler(thread_factory=self.thread_factory, "
                  "exit_if_empty=True)" and txt[1].startswith("return scheduler." + fn.name + "("))
            if not ok:
                diffs.append({"function": "NewThreadScheduler." + fn.name, "source": txt,
                              "model_assumes": "delegation to a fresh EventLoopScheduler(exit_if_empty=True)"})
        if isinstance(fn, ast.FunctionDef) and fn.name == "schedule_absolute":
            body = [ast.unparse(s) for s in fn.body if not (isinstance(s, ast.Expr) and isinstance(s.value, ast.Constant))]
            if body != ["dt = self.to_datetime(duetime)",
                        "return self.schedule_relative(dt - self.now, action, state=state)"]:
                diffs.append({"function": "NewThreadScheduler.schedule_absolute", "source": body,
                              "model_assumes": "schedule_relative(dt - self.now)"})
    return diffs


# --------------------------------------------------------------------------
# Gallina (timeout kind)
# --------------------------------------------------------------------------

TKIND = {"ret": 0, "cancelret": 2, "start": 6, "end": 7, "spawn": 8, "exit": 9}


def g_top(op):
    k = op[0]
    if k == "now":
        return f"TNow {op[1]}%nat"
    if k == "rel":
        return f"TRel {lib.gz(op[1])} {op[2]}%nat"
    if k == "abs":
        return f"TAbs {lib.gz(op[1])} {op[2]}%nat"
    return f"TCancel {op[1]}%nat"


def g_case_timeout(case, r):
    progs = "[" + "; ".join("[" + "; ".join(g_top(o) for o in p) + "]" for p in case["progs"]) + "]"
    mv = []
    for m in r.moves:
        mv.append(f"TMTick {m[1]}%N" if m[0] == "tick" else f"TMStep {E.model_tid(r, m[1])}%nat")
    inp = f"({lib.gz(case.get('t0', 0))}, {progs}, [{'; '.join(mv)}])"
    obs = []
    for e in r.log:
        tid, us, kind = e[0], e[1], e[2]
        if kind not in TKIND:
            continue
        if kind == "spawn":
            lbl = E.model_tid(r, e[4])
        elif kind == "exit":
            lbl = 0
        else:
            lbl = e[3]
        obs.append(f"({E.model_tid(r, tid)}%nat, {lib.gz(us)}, ({TKIND[kind]}%nat, {lbl}%nat))")
    st = [r.status[t] for t in sorted(r.status)]
    return inp, f"([{'; '.join(obs)}], [{'; '.join(str(x) + '%nat' for x in st)}])"


T_CASE_TY = "(Z * list (list top) * list tmove) * (list (nat * Z * (nat * nat)) * list nat)"
T_MODEL_FN = "(fun c => match c with (t0, progs, sched) => toutcome (trun (tinit t0 progs) sched) end)"
T_IMPORTS = "Base.Prelude Core.RealTime"


# --------------------------------------------------------------------------
# oracle
# --------------------------------------------------------------------------

def oracle(case, r):
    """never early; disposed before its due time => never started.  -> [(signature, message)]"""
    kind = case["kind"]
    bad = []
    log = r.log
    if r.error:
        return [(f"C34 controller-error|{kind}", r.error)]
    pos = {}
    for i, e in enumerate(log):
        pos.setdefault((e[2], e[3] if len(e) > 3 else 0), i)
    for e in log:
        if e[2] == "thread-died":
            bad.append((f"C34 thread-died|{kind}|{e[3]}", f"thread {e[0]} died: {e[3:]}"))
    due = {}
    allops = E.all_ops(case)           # programs and action bodies (recursive scheduling from inside an action)
    for op in allops:
        if op[0] in ("now", "rel", "abs"):
            a = op[-1]
            i = pos.get(("call", a))
            if i is None:
                continue
            t_call = log[i][1]
            due[a] = op[1] if op[0] == "abs" else t_call + (max(0, op[1]) if op[0] == "rel" else 0)
    for e in log:
        if e[2] == "start":
            a = e[3]
            if a in due and e[1] < due[a]:
                bad.append((f"C34 early|{kind}", f"action {a} due {due[a]} started at {e[1]}"))
    for a, d in due.items():
        ic, ir, icc = pos.get(("cancelret", a)), pos.get(("ret", a)), pos.get(("cancelcall", a))
        if ic is not None and ir is not None and icc is not None and ir < icc and log[ic][1] < d \
                and pos.get(("start", a)) is not None:
            bad.append((f"C34 started-after-dispose-before-due|{kind}",
                        f"action {a} due {d}: its disposable was disposed at {log[ic][1]}, it started at "
                        f"{log[pos[('start', a)]][1]}"))
    spawned = [e[4] for e in log if e[2] == "spawn"]
    stuck_other = [t for t in r.stuck if t not in spawned and t != r.clock_tid]
    if stuck_other:
        bad.append((f"C34 deadlock|{kind}", f"threads {stuck_other} blocked for ever"))
    # sanity, not part of the property: an action that was never disposed of runs once the clock passed its due time
    cancelled = {op[1] for op in allops if op[0] == "cancel"}
    for a in due:
        if a not in cancelled and pos.get(("ret", a)) is not None and pos.get(("start", a)) is None:
            bad.append(("NOTE never-ran", f"action {a} never ran"))
    return bad


# --------------------------------------------------------------------------
# ImmediateScheduler: direct calls
# --------------------------------------------------------------------------

def run_immediate(t0, op, later, rep="td"):
    """-> list of (kind, label, clock-of-start or 0).  `later`: the clock advances by that much right after
    the scheduler read it (between `self.now` and the action).  rep: "td" = timedelta / datetime arguments,
    "float" = float seconds (relative) / POSIX timestamp (absolute)."""
    clock = kt.Clock(t0, yield_on_read=False)
    E.RB.set_clock(clock)
    log = []
    real_now = clock.now

    def now():
        r = real_now()
        clock.advance(later)
        return r
    clock.now = now
    a = op[-1]

    def action(scheduler, state):
        log.append(("start", a, clock.us))
        log.append(("end", a, 0))
    s = ImmediateScheduler()
    try:
        if op[0] == "now":
            s.schedule(action)
        elif op[0] == "rel":
            s.schedule_relative(timedelta(microseconds=op[1]) if rep in ("td", "tz") else op[1] / 1e6, action)
        else:
            from datetime import timezone
            tzs = (timezone(timedelta(hours=-5)), timezone(timedelta(hours=5, minutes=30)))
            s.schedule_absolute(clock.at(op[1]) if rep == "td" else
                                clock.at(op[1]).astimezone(tzs[(op[1] // 7) % 2]) if rep == "tz" else
                                clock.at(op[1]).timestamp(), action)
        log.append(("ret", a, 0))
    except WouldBlockException:
        log.append(("raise", a, 0))
    finally:
        E.RB.set_clock(kt.Clock(0))
    return log


IKIND = {"start": 6, "end": 7, "ret": 0, "raise": 1}


def g_case_immediate(t0, op, later, log):
    if op[0] == "now":
        m = f"imm_schedule {lib.gz(t0)} {op[1]}%nat"
    elif op[0] == "rel":
        m = f"imm_relative {lib.gz(t0)} {lib.gz(op[1])} {op[2]}%nat"
    else:
        m = f"imm_absolute {lib.gz(t0)} {lib.gz(op[1])} {lib.gz(later)} {op[2]}%nat"
    out = "[" + "; ".join(f"({IKIND[k]}%nat, {a}%nat, {lib.gz(t)})" for k, a, t in log) + "]"
    return m, out


def oracle_immediate(t0, op, later, log):
    bad = []
    kinds = [k for k, _, _ in log]
    if op[0] == "now":
        positive = False
        due = t0
    elif op[0] == "rel":
        positive = op[1] > 0
        due = t0 + max(0, op[1])
    else:
        positive = op[1] - t0 > 0
        due = op[1]
    if positive:
        if kinds != ["raise"]:
            bad.append(("C34 immediate|no-WouldBlockException", f"{op} at {t0}: {log}"))
    else:
        if kinds != ["start", "end", "ret"]:
            bad.append(("C34 immediate|not-synchronous", f"{op} at {t0}: {log}"))
        elif log[0][2] < due:
            bad.append(("C34 early|immediate", f"{op} at {t0}: started at {log[0][2]}"))
    return bad
