"""C42, family `returned` (oracle-only, differential): what a NON-RAISING action RETURNS.

Property text: "Actions that do not raise behave exactly as on the wrapped scheduler."  An action may
return a disposable -- typically the disposable of follow-up work it scheduled through the scheduler it
was handed, alone or grouped in a CompositeDisposable / SerialDisposable / SingleAssignmentDisposable /
MultipleAssignmentDisposable / RefCountDisposable / Disposable(fn) / a user subclass of
abc.DisposableBase, or a BooleanDisposable, or None.  The wrapped scheduler owns that object: disposing the
disposable of the OUTER work item after its action ran disposes what the action returned (and so cancels
the follow-up work).  Through a CatchScheduler exactly the same must happen.

A program schedules 1..3 top-level actions (now / relative / absolute); every action schedules its
follow-up actions through the scheduler handed to it (1..3 levels deep), wraps their disposables in the
shape the program names and returns that.  Disposals of the disposable RETURNED by a schedule call (top
level: CatchScheduler.schedule*; nested: the recursive wrapper's) happen before the action ran, after it
ran but before a follow-up is due, between follow-ups, after everything, or never; issued by the driver
between two advance_to calls, by an action scheduled on the wrapped scheduler, or by an action scheduled
through the scheduler under test.

Oracle (differential, nothing else): the trace of the program on CatchScheduler(wrapped, handler) -- which
actions ran and at which clock, at which clock every returned object (a probe leaf inside it) was
disposed, the is_disposed flags of all returned objects the program built itself after every disposal
and at the end, what escaped -- equals the trace of the same program on the bare wrapped scheduler, and
the handler is never called.  Wrapped schedulers: VirtualTimeScheduler, TestScheduler, HistoricalScheduler
and a recording stub written here (MiniStub: hands its actions itself or a fresh child stub, keeps what an
action returned and disposes it when the work item's disposable is disposed -- the contract of
ScheduledItem).  Whether the object that arrives at the stub IS the object the action returned is counted
(coverage), not demanded.

Anything that escapes from the library into this driver (exception, recursion error, hang) becomes a trace
event / violation record."""
from __future__ import annotations

import json
import time
from datetime import datetime, timedelta, timezone

import lib

lib.import_repo()
from reactivex import abc as rxabc  # noqa: E402

UNIX0 = datetime(1970, 1, 1, tzinfo=timezone.utc)
WORLDS = ("vts", "test", "hist", "stub-self", "stub-child")
SHAPES = ("nested", "plain", "composite", "serial", "single", "multi", "refcount", "boolean", "user", "none")
WAYS = ("now", "rel", "abs")
MODES = ("external", "action", "action-catch")
MAX_ITEMS = 300

EXPECTED = ("actions that do not raise behave exactly as on the wrapped scheduler: the object an action returns "
            "is disposed exactly when the bare scheduler would dispose it (disposing the disposable of a work item "
            "after its action ran disposes what the action returned, so follow-up work whose disposable the action "
            "returned is cancelled), the same follow-ups run at the same clocks, and the handler is not called")


class UserDisposable(rxabc.DisposableBase):
    """a user class: derives from the abstract base only"""

    def __init__(self, fn):
        self.fn = fn
        self.is_disposed = False

    def dispose(self):
        if not self.is_disposed:
            self.is_disposed = True
            self.fn()


# --------------------------------------------------------------------------------------------
# the recording stub (wrapped scheduler written in the harness)
# --------------------------------------------------------------------------------------------

class StubWorld:
    def __init__(self, child):
        self.clock = 0.0
        self.items = []
        self.seq = 0
        self.child = child
        self.got = []          # what the actions returned, as it arrived at the stub

    def run(self, until=None):
        n = 0
        while n < MAX_ITEMS:
            live = [it for it in self.items if not it["done"] and not it["disposed"]
                    and (until is None or it["due"] <= until)]
            if not live:
                break
            it = min(live, key=lambda x: (x["due"], x["seq"]))
            n += 1
            self.clock = max(self.clock, it["due"])
            it["done"] = True
            handed = MiniStub(self) if self.child else it["stub"]
            ret = it["action"](handed, it["state"])
            self.got.append(ret)
            if isinstance(ret, rxabc.DisposableBase):
                it["ret"] = ret
                if it["disposed"]:          # disposed while its action was running
                    ret.dispose()
        if until is not None:
            self.clock = max(self.clock, until)


class StubItemDisposable(rxabc.DisposableBase):
    def __init__(self, it):
        self.it = it

    @property
    def is_disposed(self):
        return self.it["disposed"]

    def dispose(self):
        it = self.it
        if not it["disposed"]:
            it["disposed"] = True
            if it["ret"] is not None:
                it["ret"].dispose()


class MiniStub(rxabc.SchedulerBase):
    def __init__(self, world):
        self.w = world

    @property
    def now(self):
        return UNIX0 + timedelta(seconds=self.w.clock)

    def _enq(self, due, action, state):
        w = self.w
        w.seq += 1
        it = {"stub": self, "due": due, "seq": w.seq, "action": action, "state": state, "done": False,
              "disposed": False, "ret": None}
        w.items.append(it)
        return StubItemDisposable(it)

    def schedule(self, action, state=None):
        return self._enq(self.w.clock, action, state)

    def schedule_relative(self, duetime, action, state=None):
        return self._enq(self.w.clock + max(0.0, self.to_seconds(duetime)), action, state)

    def schedule_absolute(self, duetime, action, state=None):
        return self._enq(self.to_seconds(duetime), action, state)

    @classmethod
    def to_seconds(cls, value):
        if isinstance(value, datetime):
            value = value - UNIX0
        if isinstance(value, timedelta):
            value = value.total_seconds()
        return float(value)

    @classmethod
    def to_datetime(cls, value):
        if isinstance(value, timedelta):
            return UNIX0 + value
        if not isinstance(value, datetime):
            return UNIX0 + timedelta(seconds=float(value))
        return value

    @classmethod
    def to_timedelta(cls, value):
        if isinstance(value, datetime):
            return value - UNIX0
        if not isinstance(value, timedelta):
            return timedelta(seconds=float(value))
        return value


# --------------------------------------------------------------------------------------------
# one run
# --------------------------------------------------------------------------------------------

class Env:
    """the wrapped scheduler of a world + its native time arithmetic"""

    def __init__(self, world):
        from reactivex.scheduler import HistoricalScheduler, VirtualTimeScheduler
        from reactivex.testing import TestScheduler
        self.world = world
        self.stubworld = None
        if world == "vts":
            self.s = VirtualTimeScheduler()
        elif world == "test":
            self.s = TestScheduler()
        elif world == "hist":
            self.s = HistoricalScheduler()
            self.t0 = self.s.clock
        else:
            self.stubworld = StubWorld(world == "stub-child")
            self.s = MiniStub(self.stubworld)

    def clock(self):
        if self.stubworld is not None:
            return round(self.stubworld.clock, 6)
        c = self.s.clock
        if self.world == "hist":
            return round((c - self.t0).total_seconds(), 6)
        return round(float(c), 6)

    def rel(self, d):
        return timedelta(seconds=d) if self.world == "hist" else float(d)

    def abs(self, d):
        """the absolute time `d` seconds after the present clock"""
        if self.world == "hist":
            return self.s.clock + timedelta(seconds=d)
        if self.stubworld is not None:
            return self.stubworld.clock + float(d)
        return float(self.s.clock) + float(d)

    def advance_to(self, t):
        if self.stubworld is not None:
            self.stubworld.run(until=float(t))
        elif self.world == "hist":
            self.s.advance_to(self.t0 + timedelta(seconds=t))
        else:
            self.s.advance_to(float(t))

    def start(self):
        if self.stubworld is not None:
            self.stubworld.run()
        else:
            self.s.start()


def walk(items, prefix=""):
    for i, it in enumerate(items):
        p = f"{prefix}{i}"
        yield p, it
        yield from walk(it.get("follow", []), p + ".")


def run_prog(prog, catch):
    """-> (trace, facts).  catch False: bare wrapped scheduler; True: CatchScheduler(wrapped, handler)"""
    from reactivex.disposable import (BooleanDisposable, CompositeDisposable, Disposable,
                                      MultipleAssignmentDisposable, RefCountDisposable, SerialDisposable,
                                      SingleAssignmentDisposable)
    from reactivex.scheduler import CatchScheduler
    env = Env(prog["world"])
    trace = []
    rets = {}        # path -> object the action returned
    disps = {}       # path -> disposable returned by the schedule call
    states = {}
    foreign = set()
    facts = {"handed_is_catch": 0, "arrived_identical": 0, "arrived_other_object": 0}

    def handler(ex):
        trace.append(("handler", type(ex).__name__, str(ex)[:80]))
        return prog.get("verdict", True)

    under_test = CatchScheduler(env.s, handler) if catch else env.s

    def flag(o):
        return getattr(o, "is_disposed", None)

    def snap(tag):
        # flags of the objects the PROGRAM built; a schedule result handed back as it is (shape `nested`) is library
        # made -- whether it has an is_disposed flag is not stated, it is judged by what runs afterwards
        trace.append((tag, env.clock(), sorted((p, flag(o)) for p, o in rets.items() if p not in foreign)))

    def shape(kind, path, ds):
        def leaf():
            trace.append(("probe", path, env.clock()))

        def all_of():
            trace.append(("probe", path, env.clock()))
            for d in ds:
                d.dispose()
        if kind == "none":
            return None
        if kind == "nested":
            if ds:
                foreign.add(path)
            return ds[0] if ds else Disposable(leaf)
        if kind == "plain":
            return Disposable(all_of)
        if kind == "user":
            return UserDisposable(all_of)
        if kind == "boolean":
            return BooleanDisposable()
        group = CompositeDisposable(*ds, Disposable(leaf))
        if kind == "composite":
            return group
        if kind == "refcount":
            return RefCountDisposable(group)
        holder = {"serial": SerialDisposable, "single": SingleAssignmentDisposable,
                  "multi": MultipleAssignmentDisposable}[kind]()
        holder.disposable = group
        return holder

    def sched(s, path, it):
        st = ["state", path]
        states[path] = st

        def action(handed, state):
            trace.append(("run", path, env.clock(), state is st))
            if catch and isinstance(handed, CatchScheduler):
                facts["handed_is_catch"] += 1
            ds = [sched(handed, f"{path}.{i}", f) for i, f in enumerate(it.get("follow", []))]
            r = shape(it["shape"], path, ds)
            rets[path] = r
            return r
        way, d = it["way"], it["delay"]
        if way == "now":
            disp = s.schedule(action, st)
        elif way == "rel":
            disp = s.schedule_relative(env.rel(d), action, st)
        else:
            disp = s.schedule_absolute(env.abs(d), action, state=st)
        disps[path] = disp
        return disp

    def do_dispose(k, dz):
        tgt = disps.get(dz["target"])
        trace.append(("dispose", k, dz["target"], tgt is not None, env.clock()))
        if tgt is not None:
            tgt.dispose()
        snap("snap")

    def body():
        for i, it in enumerate(prog["items"]):
            sched(under_test, str(i), it)
        ext = []
        for k, dz in enumerate(prog["disposes"]):
            if dz["mode"] == "external":
                ext.append((k, dz))
                continue
            s = env.s if dz["mode"] == "action" else under_test

            def canceller(handed, state, k=k, dz=dz):
                do_dispose(k, dz)
            s.schedule_absolute(env.abs(dz["at"] or 0), canceller)
        for k, dz in sorted(ext, key=lambda x: (x[1]["at"] is not None, x[1]["at"] or 0, x[0])):
            if dz["at"] is not None and dz["at"] > env.clock():
                env.advance_to(dz["at"])
            do_dispose(k, dz)
        env.start()

    try:
        st, _ = lib.with_timeout(prog.get("timeout", 10.0), body)
        if st != "ok":
            trace.append(("hang", "no return within the watchdog"))
    except BaseException as e:  # noqa: BLE001  whatever leaves the library is an observation
        if isinstance(e, KeyboardInterrupt):
            raise
        trace.append(("escaped", type(e).__name__, str(e)[:120]))
    snap("final")
    if env.stubworld is not None:
        mine = {id(o) for o in rets.values() if o is not None}
        for g in env.stubworld.got:
            if g is None:
                continue
            facts["arrived_identical" if id(g) in mine else "arrived_other_object"] += 1
    # facts about the run (coverage)
    ran = {e[1] for e in trace if e[0] == "run"}
    all_paths = [p for p, _ in walk(prog["items"])]
    facts["follow_up_cancelled_after_parent_ran"] = sum(
        1 for p in all_paths if "." in p and p not in ran and p.rsplit(".", 1)[0] in ran)
    facts["cancelled_before_it_ran_top"] = sum(1 for p in all_paths if "." not in p and p not in ran)
    facts["returned_object_disposed"] = sum(1 for e in trace if e[0] == "probe")
    return trace, facts


def judge(prog):
    """-> (bad [(signature, detail)], facts of the bare run, trace with CatchScheduler)"""
    try:
        tb, fb = run_prog(prog, False)
        tc, fc = run_prog(prog, True)
    except Exception as e:  # noqa: BLE001  a changed library must not crash the check
        return [("returned|driver-could-not-run-the-program", f"{type(e).__name__}: {e}")], {}, []
    bad = []
    hs = [e for e in tc if e[0] == "handler"]
    if hs:
        bad.append(("returned|handler-called-though-no-action-raised", f"{hs[:3]}"))
    tc2 = [e for e in tc if e[0] != "handler"]
    if any(e[0] in ("hang", "escaped") for e in tb):
        # the bare scheduler itself failed on this program: nothing to compare with (counted)
        fb["bare_run_failed"] = 1
        return bad, fb, tc
    if tc2 != tb:
        i = next((k for k, (a, b) in enumerate(zip(tc2, tb)) if a != b), min(len(tc2), len(tb)))
        a = tc2[i] if i < len(tc2) else ("end",)
        b = tb[i] if i < len(tb) else ("end",)
        kind = {"run": "other-actions-ran", "probe": "returned-object-disposed-at-another-time",
                "snap": "disposed-flags-differ-after-a-disposal", "final": "disposed-flags-differ-at-the-end",
                "hang": "hang", "escaped": "exception-escaped", "dispose": "disposal-happened-elsewhere",
                "end": "trace-ends-early"}.get(a[0], a[0])
        if a[0] == "run" and b[0] != "run":
            kind = "action-ran-that-the-wrapped-scheduler-cancelled"
        elif b[0] == "probe" and a[0] != "probe":
            kind = "returned-object-not-disposed-when-the-wrapped-scheduler-disposes-it"
        elif b[0] == "run" and a[0] != "run":
            kind = "action-did-not-run-that-runs-on-the-wrapped-scheduler"
        bad.append((f"returned|{kind}", f"event {i}: with CatchScheduler {a}, on the bare scheduler {b}; "
                                        f"bare trace {tb[:14]}"))
    fb["handed_is_catch"] = fc["handed_is_catch"]
    fb["arrived_identical"] = fc["arrived_identical"]
    fb["arrived_other_object"] = fc["arrived_other_object"]
    return bad, fb, tc


# --------------------------------------------------------------------------------------------
# programs
# --------------------------------------------------------------------------------------------

def prog_size(prog):
    return sum(1 for _ in walk(prog["items"])) * 10 + len(prog["disposes"]) * 3


def exhaustive_progs(tier):
    out = []
    n = 0
    # one outer action, one follow-up 50 s later; disposal of the outer item's disposable at every point
    for world in WORLDS:
        for ow in WAYS:
            for sh in SHAPES:
                for iw in WAYS:
                    for at in (None, 5, 30, 100, "never"):
                        modes = MODES if tier == "thorough" else (MODES[n % 3],)
                        n += 1
                        for mode in modes:
                            if at is None and mode != "external":
                                continue
                            dz = [] if at == "never" else [{"at": at, "target": "0", "mode": mode}]
                            out.append({"world": world, "disposes": dz, "items": [
                                {"way": ow, "delay": 10, "shape": sh, "follow": [
                                    {"way": iw, "delay": 50, "shape": "none", "follow": []}]}]})
    # chains: outer returns (a shape of) the follow-up's disposable, the follow-up returns (a shape of) ITS follow-up's
    k = 0
    for s1 in SHAPES:
        for s2 in SHAPES:
            for at in (30, 80, 150):
                for tgt in ("0", "0.0"):
                    worlds = WORLDS if tier == "thorough" else (WORLDS[k % len(WORLDS)],)
                    k += 1
                    for world in worlds:
                        out.append({"world": world, "disposes": [{"at": at, "target": tgt, "mode": MODES[k % 3]}],
                                    "items": [{"way": "rel", "delay": 10, "shape": s1, "follow": [
                                        {"way": WAYS[k % 3], "delay": 50, "shape": s2, "follow": [
                                            {"way": "rel", "delay": 50, "shape": "none", "follow": []}]}]}]})
    # two follow-ups grouped in one returned object
    for world in WORLDS:
        for sh in SHAPES:
            for at in (30, 70):
                out.append({"world": world, "disposes": [{"at": at, "target": "0", "mode": "external"}],
                            "items": [{"way": "abs", "delay": 10, "shape": sh, "follow": [
                                {"way": "rel", "delay": 40, "shape": "none", "follow": []},
                                {"way": "abs", "delay": 80, "shape": "plain", "follow": []}]}]})
    return out


def random_prog(rng):
    def item(depth):
        nf = 0 if depth >= 3 else rng.choice([0, 1, 1, 1, 2] if depth < 2 else [0, 0, 1])
        return {"way": rng.choice(WAYS), "delay": rng.choice([0, 1, 10, 10, 20, 50]), "shape": rng.choice(SHAPES),
                "follow": [item(depth + 1) for _ in range(nf)]}
    items = [item(1) for _ in range(rng.choice([1, 1, 2, 3]))]
    paths = [p for p, _ in walk(items)]
    dz = [{"at": rng.choice([None, 0, 5, 10, 15, 25, 40, 60, 90, 200]), "target": rng.choice(paths),
           "mode": rng.choice(MODES)} for _ in range(rng.choice([0, 1, 1, 2, 3]))]
    for d in dz:
        if d["at"] is None:
            d["mode"] = "external"
    return {"world": rng.choice(WORLDS), "items": items, "disposes": dz}


def run_family(chk):
    """-> (failures [(size, signature, replay dict)], histogram, nontrivial set)"""
    t0 = time.time()
    tier = chk.tier if not chk.broken else "thorough"
    progs = [(p, "exhaustive") for p in exhaustive_progs(tier)]
    for _ in range(800 if tier == "quick" else 10000):
        progs.append((random_prog(chk.rng), "random"))
    hist = {"programs": {"exhaustive": 0, "random": 0}, "world": {}, "outer_shape": {}, "facts": {},
            "disposals_by_mode": {m: 0 for m in MODES}}
    fails, nontrivial = [], set()
    for prog, origin in progs:
        bad, facts, _ = judge(prog)
        chk.cov["evaluations"] += 2
        hist["programs"][origin] += 1
        hist["world"][prog["world"]] = hist["world"].get(prog["world"], 0) + 1
        for _, it in walk(prog["items"]):
            hist["outer_shape"][it["shape"]] = hist["outer_shape"].get(it["shape"], 0) + 1
        for d in prog["disposes"]:
            hist["disposals_by_mode"][d["mode"]] += 1
        for k, v in facts.items():
            hist["facts"][k] = hist["facts"].get(k, 0) + int(v)
        if facts.get("follow_up_cancelled_after_parent_ran") or facts.get("returned_object_disposed"):
            nontrivial.add(json.dumps(prog))
        for sig, detail in bad:
            fails.append((prog_size(prog) * 100 + len(json.dumps(prog)), f"{sig}|{prog['world']}",
                          {"family": "returned", "program": prog, "what_failed": detail, "expected": EXPECTED}))
    hist["wall_s"] = round(time.time() - t0, 2)
    return fails, hist, nontrivial


def replay(d):
    bad, facts, tc = judge(d["program"])
    print("program", json.dumps(d["program"]))
    print("trace (with CatchScheduler)", tc[:40])
    return bad
