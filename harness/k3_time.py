"""K3 with time -- controlled Condition / Event / Thread / Timer / Executor / Future,
a controlled clock and a controlled asyncio loop, on top of harness/k3.py.

`TController` extends `k3.Controller` (same baton discipline, same choosers,
`k3.explore` works unchanged) with

  * WAITING threads: a logical thread parked in `Condition.wait`, `Event.wait`,
    `Thread.join`, `Future.result` or inside a timer is runnable only when its
    wake-up predicate holds (notified / set / finished, or the CONTROLLED CLOCK
    reached the deadline of a timed wait).  No spurious wake-ups.
  * DYNAMIC threads: `CThread.start()` (the name `Thread` of
    reactivex.internal.concurrency is rebound to it), `CTimer.start()` and
    `CExecutor.submit()` create new logical threads while the schedule runs; they
    get the next thread id.  The first scheduled step of such a thread runs it
    from its entry to its first yield point.
  * TIME: `Clock` is an integer number of microseconds.  `Clock.now()` replaces
    `default_now` in reactivex.scheduler.scheduler (a yield point: reading the
    clock is an access to shared state; not while a controlled lock is held in
    coarse mode).  Only the environment advances it: (a) a logical *clock thread*
    whose steps are `advance(d)` -- scheduled like any other thread, so time may
    pass between any two steps of the other threads -- and (b) when no thread is
    runnable but some thread sits in a timed wait, the controller advances the
    clock to the earliest deadline ("the environment eventually lets time pass").
    `moves` records the complete run: ("step", tid) | ("tick", microseconds).
  * NON-REENTRANT locks (`CNLock`, used for `threading.Lock`): a thread that
    re-acquires a lock it holds blocks for ever, as in CPython; the run then ends
    with that thread in `stuck`.

A run ends when no thread is runnable and no timed wait is pending; threads that
are then still waiting are listed in `stuck` (the driver decides whether that is
the expected quiescent state -- e.g. an event-loop thread waiting for work -- or a
deadlock) and are unwound.

`CLoop` is a real `asyncio.BaseEventLoop` (the unmodified CPython code of
call_soon/call_later/call_at/call_soon_threadsafe/_run_once/Handle/TimerHandle/
run_forever) whose I/O multiplexer is replaced by a controlled wait and whose
`time()` is the controlled clock; see its docstring.
"""
from __future__ import annotations

import asyncio
import importlib
import os
import sys
import threading
import types
from datetime import datetime, timedelta, timezone

import k3
from k3 import ControllerError, LThread, _Abort, _get_ident, _Thread  # noqa: F401

EPOCH = datetime(2030, 1, 1, tzinfo=timezone.utc)


def current():
    return k3.CURRENT


def _me():
    c = k3.CURRENT
    t = c.by_ident.get(_get_ident()) if c is not None else None
    return c, t


# --------------------------------------------------------------------------
# clock
# --------------------------------------------------------------------------

class Clock:
    """controlled clock, integer microseconds since EPOCH"""

    def __init__(self, start_us=0, yield_on_read=True):
        self.us = int(start_us)
        self.yield_on_read = yield_on_read
        self.reads = 0

    def now(self):
        """replacement of reactivex.internal.basic.default_now"""
        c, t = _me()
        if t is not None and self.yield_on_read:
            c.yield_point("clock")
        self.reads += 1
        return EPOCH + timedelta(microseconds=self.us)

    def at(self, us):
        return EPOCH + timedelta(microseconds=int(us))

    def seconds(self):
        """replacement of loop.time()"""
        return self.us / 1e6

    def advance(self, us):
        if us < 0:
            raise ControllerError("the clock never goes back")
        self.us += int(us)


def to_us(seconds):
    return int(round(seconds * 1e6))


# --------------------------------------------------------------------------
# controller
# --------------------------------------------------------------------------

class TController(k3.Controller):
    def __init__(self, targets, clock=None, fine=False, max_steps=4000, auto_advance=True):
        super().__init__(targets, fine=fine, max_steps=max_steps)
        self.clock = clock if clock is not None else Clock()
        self.auto_advance = auto_advance
        self.moves = []            # ("step", tid) | ("tick", us)   -- the complete run
        self.group = []
        self.stuck = []
        self.running = False
        self.clock_tids = {}       # tid -> list of advances (logical clock threads)

    def yield_point(self, kind="call"):
        t = self.me()
        if t is not None:
            if self.aborting:
                raise _Abort()      # a thread being unwound must not park again (line events of `with` exits)
            t.last_kind = kind
        super().yield_point(kind)

    # -- waiting -------------------------------------------------------------
    def wait_until(self, pred, deadline=None, kind="wait"):
        """park the calling logical thread until pred() holds or the clock reached
        `deadline` (microseconds, None = no timeout).  -> True iff pred() held."""
        c, t = _me()
        if t is None:
            raise ControllerError("an uncontrolled thread would block in a controlled wait")
        if t.held > 0:
            raise ControllerError("controlled wait while holding a controlled lock")
        t.waitpred, t.deadline = pred, deadline
        try:
            self.yield_point(kind)
        finally:
            t.waitpred, t.deadline = None, None
        return bool(pred())

    def _can_wake(self, t):
        p = getattr(t, "waitpred", None)
        if p is None:
            return True
        if p():
            return True
        d = getattr(t, "deadline", None)
        return d is not None and self.clock.us >= d

    def runnable(self, group):
        return [tid for tid in super().runnable(group) if self._can_wake(self.threads[tid])]

    # -- dynamic threads -------------------------------------------------------
    def spawn_dynamic(self, fn, label="thread"):
        """called by a logical thread (or by the main thread before run): a new
        logical thread, parked before its first instruction"""
        t = LThread(len(self.threads), fn)
        t.label = label
        self.threads.append(t)
        if not self.running:
            return t
        t.state = "parked"
        th = _Thread(target=self._body, args=(t,), daemon=True)
        t.thread = th
        self.group.append(t)
        th.start()
        return t

    def spawn_clock(self, advances):
        """a logical thread whose k-th step advances the clock by advances[k]"""
        def body():
            for d in advances:
                self.yield_point("env")
                self.clock.advance(d)
        tid = self.spawn(body)
        self.threads[tid].label = "clock"
        self.clock_tids[tid] = list(advances)
        return tid

    # -- main loop ---------------------------------------------------------------
    def run(self, chooser, setup=None):
        if k3.CURRENT is not None:
            raise ControllerError("nested controller")
        k3.CURRENT = self
        self.running = True
        try:
            self.setup_steps = 0
            self.group = list(self.threads)
            if setup is not None:
                s = self.threads[setup]
                self.group.remove(s)
                self._start(s)
                while s.state != "finished":
                    self.setup_steps += 1
                    if self.setup_steps > self.max_steps:
                        raise ControllerError("setup thread does not terminate")
                    if not self.runnable([s]):
                        raise ControllerError("setup thread blocks")
                    self._grant(s)
            for t in list(self.group):
                self._start(t)
            last = None
            ticks = {tid: 0 for tid in self.clock_tids}
            while True:
                rn = self.runnable(self.group)
                if not rn:
                    dl = [t.deadline for t in self.group
                          if t.state == "parked" and getattr(t, "deadline", None) is not None
                          and not (t.wants is not None and t.wants.owner is not None and t.wants.owner != t)]
                    if dl and self.auto_advance:
                        d = min(dl) - self.clock.us
                        if d <= 0:
                            raise ControllerError("timed waiter past its deadline is not runnable")
                        self.clock.advance(d)
                        self.moves.append(("tick", d))
                        continue
                    self.stuck = [t.tid for t in self.group if t.state != "finished"]
                    break
                if len(self.trace) >= self.max_steps:
                    raise ControllerError("schedule longer than max_steps")
                c = chooser(len(self.trace), rn, last)
                if c not in rn:
                    raise ControllerError(f"chooser picked {c}, runnable {rn}")
                self.trace.append((c, tuple(rn)))
                self.threads[c].steps += 1
                if c in self.clock_tids:
                    k = ticks[c]
                    ticks[c] += 1
                    self.moves.append(("tick", self.clock_tids[c][k]))
                else:
                    self.moves.append(("step", c))
                self._grant(self.threads[c])
                last = c
            return [c for c, _ in self.trace]
        finally:
            self.aborting = True
            self.running = False
            for t in self.threads:
                if t.state == "parked" or (t.state == "new" and t.thread is not None):
                    t.sem.release()
            for t in self.threads:
                if t.thread is not None:
                    t.thread.join(timeout=2)
            k3.CURRENT = None


# --------------------------------------------------------------------------
# locks, condition, event
# --------------------------------------------------------------------------

class CNLock(k3.CLock):
    """threading.Lock: NOT re-entrant.  A logical thread that acquires it again
    blocks for ever (the run ends with the thread in `stuck`)."""

    def acquire(self, blocking=True, timeout=-1):
        c, t = self._me()
        who = t if t is not None else ("ext", _get_ident())
        if self.owner is not None and self.owner == who:
            if t is None:
                raise ControllerError("uncontrolled thread re-acquires a non-reentrant lock")
            if not blocking:
                return False
            t.held_save = t.held
            t.held = 0
            c.wait_until(lambda: False, None, kind="selfdeadlock")
            raise ControllerError("unreachable")
        return super().acquire(blocking, timeout)


class CCondition:
    """threading.Condition over a controlled lock.  wait() releases the lock and
    parks the thread until notified or until the controlled clock reaches the
    timeout; the re-acquisition belongs to the same scheduled step in coarse mode
    (no controlled lock is ever held at a step boundary there)."""

    def __init__(self, lock=None):
        self._lock = lock if lock is not None else k3.CLock()
        self._waiters = []          # [ [thread, notified] ]
        self.notifies = 0

    def acquire(self, *a, **k):
        return self._lock.acquire(*a, **k)

    def release(self):
        return self._lock.release()

    def __enter__(self):
        self._lock.acquire()
        return self

    def __exit__(self, *a):
        self._lock.release()
        return False

    def _owned(self):
        c, t = _me()
        who = t if t is not None else ("ext", _get_ident())
        return self._lock.owner is not None and self._lock.owner == who

    def wait(self, timeout=None):
        if not self._owned():
            raise RuntimeError("cannot wait on un-acquired lock")
        c, t = _me()
        if t is None:
            raise ControllerError("uncontrolled thread waits on a controlled condition")
        depth = self._lock.depth
        self._lock.depth, self._lock.owner = 0, None
        t.held -= 1
        w = [t, False]
        self._waiters.append(w)
        deadline = None if timeout is None else c.clock.us + max(0, to_us(timeout))
        try:
            c.wait_until(lambda: w[1], deadline, kind="wait")
        finally:
            if w in self._waiters:
                self._waiters.remove(w)
        if not c.fine:
            t.skip += 1
        self._lock.acquire()
        self._lock.depth = depth
        return w[1]

    def wait_for(self, predicate, timeout=None):
        raise ControllerError("Condition.wait_for is not modelled")

    def notify(self, n=1):
        if not self._owned():
            raise RuntimeError("cannot notify on un-acquired lock")
        self.notifies += 1
        for w in self._waiters:
            if n <= 0:
                break
            if not w[1]:
                w[1] = True
                n -= 1

    def notify_all(self):
        self.notify(len(self._waiters))

    notifyAll = notify_all


class CEvent:
    def __init__(self):
        self._flag = False

    def is_set(self):
        return self._flag

    isSet = is_set

    def set(self):
        self._flag = True

    def clear(self):
        self._flag = False

    def wait(self, timeout=None):
        c, t = _me()
        if self._flag:
            return True
        if t is None:
            raise ControllerError("uncontrolled thread would block on a controlled event")
        deadline = None if timeout is None else c.clock.us + max(0, to_us(timeout))
        c.wait_until(lambda: self._flag, deadline, kind="wait")
        return self._flag


# --------------------------------------------------------------------------
# threads, timers, executor, future
# --------------------------------------------------------------------------

class CThread:
    """threading.Thread whose start() makes a new logical thread"""

    _label = "thread"

    def __init__(self, group=None, target=None, name=None, args=(), kwargs=None, *, daemon=None):
        self._target, self._args, self._kwargs = target, args, kwargs or {}
        self.name = name or "cthread"
        self.daemon = bool(daemon)
        self._lt = None
        self.ident = None
        self.exc = None

    def run(self):
        if self._target is not None:
            self._target(*self._args, **self._kwargs)

    def _bootstrap(self):
        try:
            self.run()
            c = k3.CURRENT
            if c is not None:
                c.emit("exit", self._label)
        except _Abort:
            raise
        except Exception as e:        # as threading does: the thread dies, the process goes on
            self.exc = e
            c = k3.CURRENT
            if c is not None:
                c.emit("thread-died", type(e).__name__, str(e)[:200])

    def start(self):
        c = k3.CURRENT
        if c is None:
            raise ControllerError("Thread.start() outside a controlled run")
        if self._lt is not None:
            raise RuntimeError("threads can only be started once")
        self._lt = c.spawn_dynamic(self._bootstrap, label=self._label)
        self.ident = self._lt.tid
        c.emit("spawn", self._label, self._lt.tid)

    def is_alive(self):
        return self._lt is not None and self._lt.state != "finished"

    def join(self, timeout=None):
        c, t = _me()
        if self._lt is None:
            raise RuntimeError("cannot join thread before it is started")
        if t is None:
            raise ControllerError("uncontrolled join")
        deadline = None if timeout is None else c.clock.us + max(0, to_us(timeout))
        c.wait_until(lambda: self._lt.state == "finished", deadline, kind="wait")


class CTimer(CThread):
    """threading.Timer, line by line (CPython Lib/threading.py):
         def run(self):
             self.finished.wait(self.interval)
             if not self.finished.is_set():
                 self.function(*self.args, **self.kwargs)
             self.finished.set()
       with the controlled Event; the window between is_set() and the call is a
       yield point of its own (`timer-fire`)."""

    _label = "timer"

    def __init__(self, interval, function, args=None, kwargs=None):
        super().__init__()
        self.interval = interval
        self.function = function
        self.args = args if args is not None else []
        self.kwargs = kwargs if kwargs is not None else {}
        self.finished = CEvent()

    def cancel(self):
        self.finished.set()

    def run(self):
        self.finished.wait(self.interval)
        if not self.finished.is_set():
            c = k3.CURRENT
            if c is not None:
                c.yield_point("timer-fire")
            self.function(*self.args, **self.kwargs)
        self.finished.set()


class CFuture:
    """concurrent.futures.Future (the part the schedulers use)"""

    def __init__(self):
        self._done = False
        self._result = None
        self._cancelled = False
        self._running = False

    def set_result(self, r):
        self._result, self._done = r, True

    def done(self):
        return self._done or self._cancelled

    def cancelled(self):
        return self._cancelled

    def cancel(self):
        if self._running or self._done:
            return False
        self._cancelled = True
        return True

    def result(self, timeout=None):
        c, t = _me()
        if not self._done:
            if t is None:
                raise ControllerError("uncontrolled thread would block on a controlled future")
            deadline = None if timeout is None else c.clock.us + max(0, to_us(timeout))
            c.wait_until(lambda: self._done, deadline, kind="wait")
        if not self._done:
            raise TimeoutError()
        return self._result


class CExecutor:
    """concurrent.futures.ThreadPoolExecutor: at most max_workers logical worker
    threads; a submitted callable waits in a FIFO while all workers are busy."""

    def __init__(self, max_workers=None, **kw):
        self.max_workers = max_workers if max_workers is not None else 32
        self.queue = []
        self.workers = 0

    def submit(self, fn, *args, **kwargs):
        c = k3.CURRENT
        if c is None:
            raise ControllerError("submit outside a controlled run")
        f = CFuture()
        self.queue.append((f, fn, args, kwargs))
        if self.workers < self.max_workers:
            self.workers += 1
            t = c.spawn_dynamic(self._worker, label="worker")
            c.emit("spawn", "worker", t.tid)
        return f

    def _worker(self):
        try:
            while self.queue:
                f, fn, args, kwargs = self.queue.pop(0)
                if f._cancelled:
                    continue
                f._running = True
                try:
                    f.set_result(fn(*args, **kwargs))
                except _Abort:
                    raise
                except Exception as e:
                    f._done = True
                    c = k3.CURRENT
                    if c is not None:
                        c.emit("thread-died", type(e).__name__, str(e)[:200])
        finally:
            self.workers -= 1

    def shutdown(self, wait=True, **kw):
        pass


# --------------------------------------------------------------------------
# rebinding the names seen by the reactivex scheduler modules
# --------------------------------------------------------------------------

def threading_shim():
    """a stand-in for the name `threading` in a target module"""
    m = types.ModuleType("threading_controlled")
    for k in dir(threading):
        if not k.startswith("__"):
            setattr(m, k, getattr(threading, k))
    m.Lock = CNLock
    m.RLock = k3.CLock
    m.Condition = CCondition
    m.Event = CEvent
    m.Thread = CThread
    m.Timer = CTimer
    return m


REBIND = {
    # module: {name: replacement or callable(clock) -> replacement}
    "reactivex.scheduler.eventloopscheduler": {"threading": lambda clock: threading_shim()},
    "reactivex.scheduler.newthreadscheduler": {"threading": lambda clock: threading_shim()},
    "reactivex.internal.concurrency": {"Thread": lambda clock: CThread},
    "reactivex.scheduler.timeoutscheduler": {"Timer": lambda clock: CTimer},
    "reactivex.scheduler.threadpoolscheduler": {"ThreadPoolExecutor": lambda clock: CExecutor},
    "reactivex.scheduler.scheduler": {"default_now": lambda clock: clock.now},
    "reactivex.scheduler.eventloop.asynciothreadsafescheduler": {"Future": lambda clock: CFuture},
}


class Rebound:
    """context manager: controlled threading primitives and clock in the (already
    imported) reactivex scheduler modules; everything is restored on exit.  The
    clock can be replaced per run with `set_clock`."""

    def __init__(self, clock=None, modules=None):
        self.clock = clock if clock is not None else Clock()
        self.modules = list(REBIND) if modules is None else modules
        self.undo = []

    def _now(self):
        return self.clock.now()

    def set_clock(self, clock):
        self.clock = clock

    def __enter__(self):
        for mn in self.modules:
            m = importlib.import_module(mn)
            for name, mk in REBIND[mn].items():
                if not hasattr(m, name):
                    raise ControllerError(f"{mn} has no name {name}: the module changed")
                self.undo.append((m, name, getattr(m, name)))
                new = self._now if name == "default_now" else mk(self.clock)
                setattr(m, name, new)
        return self

    def __exit__(self, *a):
        for m, name, old in reversed(self.undo):
            setattr(m, name, old)
        self.undo = []
        return False


# --------------------------------------------------------------------------
# controlled asyncio loop
# --------------------------------------------------------------------------

class _FakeSelector:
    """I/O multiplexer of CLoop: there is no I/O.  select(timeout) is a controlled
    wait (always a yield point, also for timeout 0) until the loop was woken by
    call_soon_threadsafe (`_write_to_self`) or the controlled clock reached the
    timeout."""

    def __init__(self, loop):
        self.loop = loop
        self.woken = False

    def select(self, timeout=None):
        c, t = _me()
        if t is None:
            raise ControllerError("CLoop must run on a logical thread")
        deadline = None if timeout is None else c.clock.us + max(0, to_us(timeout))
        c.wait_until(lambda: self.woken, deadline, kind="select")
        self.woken = False
        return []

    def close(self):
        pass

    def get_map(self):
        return {}


class CLoop(asyncio.BaseEventLoop):
    """A real asyncio event loop for the controller.

    Choice (documented for C33): rather than driving `loop._run_once()` from
    outside, the loop thread of the check simply calls the public
    `loop.run_forever()` of this minimal subclass of `asyncio.BaseEventLoop`.
    BaseEventLoop is the CPython class that implements call_soon, call_later,
    call_at, call_soon_threadsafe, the ready deque, the timer heap, `_run_once`
    (including the `handle._cancelled` test immediately before `handle._run()`)
    and run_forever/stop; SelectorEventLoop only adds the selector and the
    self-pipe.  CLoop supplies exactly the three things BaseEventLoop leaves to
    its subclasses -- `_selector.select`, `_process_events`, `_write_to_self` --
    with a controlled wait, and `time()` with the controlled clock.  No I/O, no
    subprocesses, no signal handling.  The scheduling code under test is therefore
    the unmodified CPython code; what is NOT exercised is the selector/self-pipe
    wake-up path of the production loop classes."""

    def __init__(self, clock):
        super().__init__()
        self._cclock = clock
        self._selector = _FakeSelector(self)
        self._clock_resolution = 1e-6

    def time(self):
        return self._cclock.seconds()

    def _process_events(self, event_list):
        pass

    def _write_to_self(self):
        self._selector.woken = True

    def close(self):
        if self.is_running():
            raise RuntimeError("Cannot close a running event loop")
        if self.is_closed():
            return
        super().close()


# --------------------------------------------------------------------------
# self-test
# --------------------------------------------------------------------------

def self_test(bound=2):
    """-> (ok, facts).  The controlled primitives must
       1. wake a timed waiter exactly at its deadline when nobody notifies it, and earlier when notified;
       2. expose the lost wake-up of a racy mailbox (test outside the lock, then wait) under some
          bounded schedule, and never for the correct mailbox;
       3. never fire a Timer before its interval, nor after a cancel() that preceded its expiry, and
          expose the is_set()/call window of threading.Timer;
       4. make a non-reentrant lock block its own holder;
       5. run a real asyncio loop (CLoop) whose call_later fires no earlier than its delay on the
          controlled clock, woken from a foreign logical thread by call_soon_threadsafe."""
    import k3time_toys as toys
    facts = {}
    path = os.path.abspath(toys.__file__)
    shim = threading_shim()
    old = toys.threading
    toys.threading = shim
    try:
        # 1. timed wait
        out = {}
        for notify_at in (None, 300):
            clock = Clock(0)
            c = TController({}, clock=clock)
            box = toys.Mailbox()
            res = {}

            def consumer():
                res["got"] = box.get(timeout=0.001)
                res["at"] = clock.us

            def producer():
                if notify_at is not None:
                    box.put(7)
            c.spawn(consumer)
            c.spawn(producer)
            if notify_at is not None:
                c.spawn_clock([notify_at])
                c.run(k3.follow([0, 2, 1]))
            else:
                c.run(k3.follow([]))
            out[str(notify_at)] = (res.get("got"), res.get("at"), list(c.moves))
        facts["timed_wait"] = out
        ok1 = out["None"][0] is None and out["None"][1] == 1000 and ("tick", 1000) in out["None"][2] \
            and out["300"][0] == 7 and out["300"][1] == 300
        # 2. lost wake-up
        lost = {}
        for cls in ("RacyMailbox", "Mailbox"):
            seen = {}
            n = 0

            def run_once(chooser):
                clock = Clock(0)
                c = TController({path: {"get": None, "put": None}}, clock=clock, fine=True)
                box = getattr(toys, cls)()
                res = {}
                c.spawn(lambda: res.__setitem__("got", box.get()))
                c.spawn(lambda: box.put(5))
                c.run(chooser)
                return c.trace, ("stuck" if c.stuck else res.get("got"))
            for sched, r in k3.explore(run_once, bound):
                n += 1
                seen.setdefault(r, sched)
            lost[cls] = {"schedules": n, "outcomes": sorted(map(str, seen)), "witness": seen.get("stuck")}
        facts["lost_wakeup"] = lost
        ok2 = "stuck" in lost["RacyMailbox"]["outcomes"] and lost["Mailbox"]["outcomes"] == ["5"]
        # 3. timer
        tim = {}
        n = 0
        bad = []

        def run_timer(chooser):
            clock = Clock(0)
            c = TController({}, clock=clock, fine=False)
            fired = []
            cancelled_at = []
            holder = {}

            def starter():
                tm = CTimer(0.002, lambda: fired.append(clock.us))
                holder["t"] = tm
                tm.start()
                c.yield_point("call")
                tm.cancel()
                cancelled_at.append(clock.us)
            c.spawn(starter)
            c.spawn_clock([1000, 1000, 1000])
            c.run(chooser)
            return c.trace, (tuple(fired), tuple(cancelled_at))
        for sched, (fired, canc) in k3.explore(run_timer, 3):
            n += 1
            tim.setdefault((bool(fired), canc[0] < 2000 if canc else None), sched)
            if fired and fired[0] < 2000:
                bad.append(("early", sched))
            if fired and canc and canc[0] < 2000:
                bad.append(("fired after a cancel that preceded expiry", sched))
        facts["timer"] = {"schedules": n, "classes": {str(k): v for k, v in tim.items()}, "bad": bad[:3]}
        ok3 = not bad and (True, False) in tim and (False, True) in tim
        # 4. non-reentrant lock
        c = TController({}, clock=Clock(0))
        lk = CNLock()

        def twice():
            with lk:
                with lk:
                    pass
        c.spawn(twice)
        c.run(k3.follow([]))
        facts["nonreentrant"] = {"stuck": c.stuck}
        ok4 = c.stuck == [0]
        # 5. asyncio
        clock = Clock(0)
        c = TController({}, clock=clock)
        loop = CLoop(clock)
        ran = []

        def loop_thread():
            loop.run_forever()

        def foreign():
            loop.call_soon_threadsafe(lambda: loop.call_later(0.005, lambda: ran.append(clock.us)))
            c.wait_until(lambda: bool(ran), None)
            loop.call_soon_threadsafe(loop.stop)
        c.spawn(loop_thread)
        c.spawn(foreign)
        c.run(k3.follow([]))
        loop.close()
        facts["asyncio"] = {"ran_at": ran, "stuck": c.stuck, "moves": len(c.moves)}
        ok5 = ran == [5000] and not c.stuck
        return (ok1 and ok2 and ok3 and ok4 and ok5), facts
    finally:
        toys.threading = old


if __name__ == "__main__":
    sys.path.insert(0, os.path.dirname(os.path.abspath(__file__)))
    ok, facts = self_test()
    import json
    print(json.dumps(facts, indent=1, default=str))
    print("SELF-TEST", "OK" if ok else "FAILED")
    sys.exit(0 if ok else 1)
