"""C03, oracle-only family `teardown`: the subscription is given up RE-ENTRANTLY, from inside a TEARDOWN callback that
the library itself invokes while it is REPLACING a live subscription (or a live timer) by the next one.

Every observable the operator under test subscribes to -- its source included -- is a hand-made PROBE that keeps its
own observer list (as in harness/c03_probes.py) and carries a teardown callback in one of these forms:

    finally_action   probe.pipe(ops.finally_action(cb))
    do_finally       probe.pipe(reactivex.operators._do.do_finally(cb))
    using            reactivex.using(lambda: Disposable(cb), lambda r: probe)      (the resource's dispose)
    do_on_dispose    reactivex.operators._do.do_on_dispose(probe, cb)              (runs BEFORE the probe is released)
    probe_before     the probe's own dispose function calls cb, then drops its observer
    probe_after      the probe's own dispose function drops its observer, then calls cb
    none             no teardown callback on this probe

and, for the time-based operators, every TIMER is a probe too: the operators get a virtual-time scheduler whose
schedule_* calls return disposables with a dispose function of the harness (forms `timer`: cb runs when an armed timer
is cancelled, and `timer_spent`: cb runs when the disposable of a timer that has already run is disposed -- which is what
window_with_time / buffer_with_time do with the previous timer when they arm the next one).

The operators are those that REPLACE a live subscription / timer by another one:
    the current inner of map+switch_latest / switch_map(_indexed) / flat_map_latest;
    the previous duration of throttle_with_mapper, the previous timeout of timeout_with_mapper (and its source, replaced
        by the fallback), the subscription delay of delay_with_mapper (replaced by the source), delay_with_mapper's
        per-element delays;
    the previous source of concat (operator, function, lazy iterable), catch (operator, handler, lazy iterable),
        on_error_resume_next (operator, function with a factory), repeat, retry, concat_map, merge(max_concurrent);
    the previous closing observable of window_when / buffer_when;
    the loser of amb, the gate of skip_until / take_until, sample's sampler, expand's inner sequences;
    the previous TIMER of debounce, timeout (with and without fallback), sample, delay, window_with_time(_or_count),
        buffer_with_time(_or_count), of throttle_with_mapper / switch_map over reactivex.timer.
(subscribe_on is not in the table: its ScheduledDisposable hands the release of the source over to the scheduler, so under
a virtual clock nothing is released "at that instant" by design.)

A case = one operator, the kinds / teardown forms of its probes, a script (source elements and terminals, pushes into the
most recently subscribed live probe or into a numbered one, clock advances) and the number `fire`: the fire-th teardown
callback the LIBRARY invokes during the script (counted in an undisturbed run, so it always exists) gives the
subscription up, by one of two actions:

    dispose   the subscriber's subscription.dispose() (and the subscriptions to the windows it was handed)
    stop      an element pushed into the `other` of a take_until(other) appended to the pipeline (the subscriber then
              receives on_completed from inside the teardown; the library closes the subscription itself)

One append-only log records, with the step number, every notification, every user callback (mappers, handlers, pulls from
lazy iterables, spies on the probes' pipelines), every subscribe to / unsubscribe from a probe, every timer armed / run /
cancelled, every teardown callback.  Afterwards two elements and a terminal are pushed into every probe and the source
and the clock is advanced past every timer.  Statement of C03, read directly (as in the `probes` family):

    * when the step in which dispose() returned (or the terminal arrived) ends, NO probe (and not the source, not the
      `other` of the take_until) has an observer left, and no timer the pipeline armed is still armed;
    * behind the log position at which dispose() returned: no notification, no user callback (spies on the pipeline of
      a probe subscribed in that very step excepted, as in `probes`; teardown callbacks are the release itself and are
      never counted as user callbacks);
    * in later steps: no notification, no user callback, no probe subscribed, no timer armed or run;
    * at the very end still no observer and no armed timer.
(A probe subscribed / a timer armed behind the dispose() but inside the same step and released before the step ends is
counted, not judged: the operator was in the middle of the replacement when the teardown ran.)

Each case is a function of one integer, so replay files hold (family, case_seed)."""
from __future__ import annotations

import random

import lib

FORMS = ["finally_action", "finally_action", "do_finally", "using", "do_on_dispose", "probe_before", "probe_after",
         "none"]
KINDS = ["late", "late", "late", "late", "gate", "gate2", "done", "val_done", "err"]
DECOR = ["none", "none", "none", "map", "do_action", "filter"]
MAX_PROBES = 9
SRC_VALUES = [0, 1, 2, 3]


class SpyError(Exception):
    pass


# name -> (number of per-subscription probes, hands windows to the subscriber, script profile, timed)
OPERATORS = {
    "map_switch_latest": (0, False, "switch", False), "switch_map": (0, False, "switch", False),
    "switch_map_indexed": (0, False, "switch", False), "flat_map_latest": (0, False, "switch", False),
    "throttle_with_mapper": (0, False, "switch", False),
    "timeout_with_mapper": (2, False, "switch", False), "timeout_with_mapper_nofirst": (1, False, "switch", False),
    "delay_with_mapper": (0, False, "switch", False), "delay_with_mapper_subdelay": (1, False, "switch", False),
    "concat": (2, False, "complete", False), "concat_fn": (2, False, "complete", False),
    "concat_iter": (0, False, "complete", False),
    "catch": (1, False, "fail", False), "catch_fn": (2, False, "fail", False),
    "catch_handler": (0, False, "fail", False), "catch_iter": (0, False, "fail", False),
    "on_error_resume_next": (1, False, "either", False), "on_error_resume_next_fn": (1, False, "either", False),
    "repeat": (0, False, "complete", False), "retry": (0, False, "fail", False),
    "concat_map": (0, False, "inner_complete", False), "map_merge_mc": (0, False, "inner_complete", False),
    "window_when": (0, True, "closing", False), "buffer_when": (0, False, "closing", False),
    "amb": (1, False, "switch", False), "skip_until": (1, False, "closing", False),
    "take_until": (1, False, "closing", False), "sample": (1, False, "closing", False),
    "expand": (0, False, "inner_complete", False),
    # timers of a virtual-time scheduler handed to the operator
    "debounce": (0, False, "timed", True), "timeout": (0, False, "timed", True),
    "timeout_other": (1, False, "timed", True), "sample_time": (0, False, "timed", True),
    "delay": (0, False, "timed", True), "window_with_time": (0, True, "timed", True),
    "buffer_with_time": (0, False, "timed", True), "window_with_time_or_count": (0, True, "timed", True),
    "buffer_with_time_or_count": (0, False, "timed", True),
    "throttle_with_mapper_timer": (0, False, "timed", True), "switch_map_timer": (0, False, "timed", True),
}

# step kinds: s = source element, sc / se = source terminal, cn / cc / ce = element / completion / error pushed into
# the most recently subscribed live probe, p = push into a numbered probe, adv = advance the clock
PROFILES = {
    "switch": {"s": 60, "cn": 15, "cc": 6, "ce": 3, "p": 8, "sc": 5, "se": 3},
    "complete": {"s": 15, "cn": 15, "cc": 50, "ce": 5, "p": 5, "sc": 8, "se": 2},
    "fail": {"s": 15, "cn": 15, "cc": 8, "ce": 50, "p": 5, "sc": 4, "se": 8},
    "either": {"s": 15, "cn": 15, "cc": 30, "ce": 30, "p": 5, "sc": 3, "se": 2},
    "inner_complete": {"s": 40, "cn": 10, "cc": 35, "ce": 3, "p": 8, "sc": 3, "se": 1},
    "closing": {"s": 30, "cn": 45, "cc": 10, "ce": 3, "p": 8, "sc": 3, "se": 1},
    "timed": {"s": 50, "adv": 40, "cn": 4, "sc": 4, "se": 2},
}


def gen_case(case_seed):
    rng = random.Random(case_seed)
    op = rng.choice(sorted(OPERATORS))
    nfixed, windows, profile, timed = OPERATORS[op]
    kinds = [rng.choice(KINDS) for _ in range(rng.randrange(2, MAX_PROBES))]
    if rng.random() < 0.5:                                  # the plain shape: every replaced probe stays open
        kinds = ["late"] * len(kinds)
    c = {"op": op, "kinds": kinds, "fixed": [rng.choice(["late", "late", "late", "gate", "done"]) for _ in range(nfixed)],
         "forms": [rng.choice(FORMS) for _ in range(5)], "decor": [rng.choice(DECOR) for _ in range(4)],
         "action": rng.choice(["dispose", "dispose", "stop"]), "tail": rng.choice([None] * 6 + [2, 3]),
         "subscribe_windows": rng.random() < 0.7, "inner_first": rng.random() < 0.5, "u": rng.random(),
         "due": rng.randrange(2, 6)}
    w = PROFILES[profile]
    keys = sorted(w)
    script = []
    for _ in range(rng.randrange(2, 10)):
        k = rng.choices(keys, weights=[w[x] for x in keys])[0]
        if k == "s":
            script.append(["s", rng.choice(SRC_VALUES)])
        elif k == "p":
            script.append(["p", rng.randrange(0, MAX_PROBES), rng.choice(["n", "n", "c", "e"])])
        elif k == "adv":
            script.append(["adv", rng.randrange(1, 8)])
        else:
            script.append([k])
    c["script"] = script
    return c


class Env:
    def __init__(self, c):
        self.c = c
        self.log = []                 # (what, a, step)
        self.step = 0
        self.probes = []
        self.timers = []              # one record per schedule_* call of the pipeline
        self.calls = 0
        self.td = 0                   # teardown callbacks invoked so far
        self.td_script = 0            # ... of which during the script (what `fire` is drawn from)
        self.in_script = True
        self.firing = False
        self.mark = None
        self.mark_step = None
        self.mark_kind = None
        self.leak_at_mark = None
        self.timers_at_mark = None
        self.outer = None
        self.inner = []
        self.escapes = []
        self.sub_order = []           # pids in subscription order (for `cur`)
        self.teardown = None          # set by run_case
        self.fired_in = None          # (form, pid) of the teardown that gave the subscription up

    def rec(self, what, a):
        self.log.append((what, a, self.step))


def make_probe(env, kind, decor, form):
    lib.import_repo()
    import reactivex
    from reactivex import Observable, operators as ops
    from reactivex.disposable import Disposable
    from reactivex.operators._do import do_finally, do_on_dispose
    pid = len(env.probes)

    class P:
        pass
    p = P()
    p.pid, p.kind, p.form, p.entries = pid, kind, form, []

    def cb():
        env.teardown(form, pid)

    class Hand(Observable):
        def _subscribe_core(self, observer, scheduler=None):
            entry = [observer]
            p.entries.append(entry)
            env.rec("sub", pid)
            env.sub_order.append(pid)

            def dispose():
                if entry in p.entries:
                    if form == "probe_before":
                        cb()
                    if entry in p.entries:
                        p.entries.remove(entry)
                        env.rec("unsub", pid)
                    if form == "probe_after":
                        cb()
            if kind in ("gate", "gate2", "val_done"):
                observer.on_next(("g", pid, 0))
            if kind == "gate2":
                observer.on_next(("g", pid, 1))
            if kind in ("done", "val_done"):
                observer.on_completed()
            if kind == "err":
                observer.on_error(SpyError(f"probe{pid} in subscribe"))
            return Disposable(dispose)
    p.live = lambda: len(p.entries)

    def push(what, v):
        for entry in list(p.entries):
            o = entry[0]
            if what == "n":
                o.on_next(v)
            elif what == "c":
                o.on_completed()
            else:
                o.on_error(SpyError(f"probe{pid}"))
    p.push = push
    base = Hand()

    def spy(name, f):
        def g(x):
            env.rec("cb", ("probe", pid, name))
            return f(x)
        return g
    if decor == "map":
        base = base.pipe(ops.map(spy("map", lambda x: ("m", x))))
    elif decor == "do_action":
        base = base.pipe(ops.do_action(spy("do_action", lambda x: None)))
    elif decor == "filter":
        base = base.pipe(ops.filter(spy("filter", lambda x: True)))
    if form == "finally_action":
        base = base.pipe(ops.finally_action(cb))
    elif form == "do_finally":
        base = base.pipe(do_finally(cb))
    elif form == "using":
        inner = base
        base = reactivex.using(lambda: Disposable(cb), lambda r: inner)
    elif form == "do_on_dispose":
        base = do_on_dispose(base, cb)
    p.obs = base
    env.probes.append(p)
    return p


def make_scheduler(env):
    """a TestScheduler whose timers are probes: armed / run / cancelled are logged, cancelling an armed timer runs the
    teardown callback (form `timer`)"""
    lib.import_repo()
    from reactivex.disposable import Disposable
    from reactivex.testing import TestScheduler

    class HookScheduler(TestScheduler):
        def schedule_absolute(self, duetime, action, state=None):
            tid = len(env.timers)
            t = {"armed": True}
            env.timers.append(t)
            env.rec("timer_armed", tid)

            def run(sched, st):
                t["armed"] = False
                env.rec("timer_run", tid)
                return action(sched, st)
            d = super().schedule_absolute(duetime, run, state)

            def dispose():                 # (Disposable runs it once)
                was = t["armed"]
                t["armed"] = False
                d.dispose()
                if was:
                    env.rec("timer_cancel", tid)
                env.teardown("timer" if was else "timer_spent", ("t", tid))
            return Disposable(dispose)
    return HookScheduler()


def build(env):
    """-> (source probe, stop probe or None, pipeline observable, scheduler or None)"""
    lib.import_repo()
    import reactivex
    from reactivex import operators as ops
    c = env.c
    decor, forms = c["decor"], c["forms"]
    nfixed, windows, profile, timed = OPERATORS[c["op"]]
    sched = make_scheduler(env) if timed else None
    src = make_probe(env, "late", "none", forms[0])                # probe 0 is the source
    stop = make_probe(env, "late", "none", "none") if c["action"] == "stop" else None
    fixed = [make_probe(env, k, decor[(i + 1) % len(decor)], forms[(i + 1) % len(forms)])
             for i, k in enumerate(c["fixed"])]
    nfix = len(env.probes)

    def mk(*a):
        env.rec("cb", "mapper")
        i = env.calls
        env.calls += 1
        if i >= len(c["kinds"]) or len(env.probes) - nfix >= MAX_PROBES + 3:
            return make_probe(env, "late", "none", "none").obs
        return make_probe(env, c["kinds"][i], decor[i % len(decor)], forms[(i + 2) % len(forms)]).obs

    def itr():
        yield src.obs
        while env.calls < MAX_PROBES + 3:
            yield mk()
    f0 = fixed[0].obs if fixed else None
    f1 = fixed[1].obs if len(fixed) > 1 else None
    due = c["due"]
    s = src.obs
    table = {
        "map_switch_latest": lambda: s.pipe(ops.map(mk), ops.switch_latest()),
        "switch_map": lambda: s.pipe(ops.switch_map(mk)),
        "switch_map_indexed": lambda: s.pipe(ops.switch_map_indexed(lambda x, i: mk(x))),
        "flat_map_latest": lambda: s.pipe(ops.flat_map_latest(mk)),
        "throttle_with_mapper": lambda: s.pipe(ops.throttle_with_mapper(mk)),
        "timeout_with_mapper": lambda: s.pipe(ops.timeout_with_mapper(f0, mk, f1)),
        "timeout_with_mapper_nofirst": lambda: s.pipe(ops.timeout_with_mapper(None, mk, f0)),
        "delay_with_mapper": lambda: s.pipe(ops.delay_with_mapper(mk)),
        "delay_with_mapper_subdelay": lambda: s.pipe(ops.delay_with_mapper(f0, mk)),
        "concat": lambda: s.pipe(ops.concat(f0, f1)),
        "concat_fn": lambda: reactivex.concat(s, f0, f1),
        "concat_iter": lambda: reactivex.concat_with_iterable(itr()),
        "catch": lambda: s.pipe(ops.catch(f0)),
        "catch_fn": lambda: reactivex.catch(s, f0, f1),
        "catch_handler": lambda: s.pipe(ops.catch(lambda e, o: mk())),
        "catch_iter": lambda: reactivex.catch_with_iterable(itr()),
        "on_error_resume_next": lambda: s.pipe(ops.on_error_resume_next(f0)),
        "on_error_resume_next_fn": lambda: reactivex.on_error_resume_next(s, f0, lambda e: mk(), lambda e: mk()),
        "repeat": lambda: s.pipe(ops.repeat(4)),
        "retry": lambda: s.pipe(ops.retry(4)),
        "concat_map": lambda: s.pipe(ops.concat_map(mk)),
        "map_merge_mc": lambda: s.pipe(ops.map(mk), ops.merge(max_concurrent=1)),
        "window_when": lambda: s.pipe(ops.window_when(mk)),
        "buffer_when": lambda: s.pipe(ops.buffer_when(mk)),
        "amb": lambda: s.pipe(ops.amb(f0)),
        "skip_until": lambda: s.pipe(ops.skip_until(f0)),
        "take_until": lambda: s.pipe(ops.take_until(f0)),
        "sample": lambda: s.pipe(ops.sample(f0)),
        "expand": lambda: s.pipe(ops.expand(mk)),
        "debounce": lambda: s.pipe(ops.debounce(due, scheduler=sched)),
        "timeout": lambda: s.pipe(ops.timeout(due, scheduler=sched)),
        "timeout_other": lambda: s.pipe(ops.timeout(due, f0, scheduler=sched)),
        "sample_time": lambda: s.pipe(ops.sample(due, scheduler=sched)),
        "delay": lambda: s.pipe(ops.delay(due, scheduler=sched)),
        "window_with_time": lambda: s.pipe(ops.window_with_time(due, scheduler=sched)),
        "buffer_with_time": lambda: s.pipe(ops.buffer_with_time(due, scheduler=sched)),
        "window_with_time_or_count": lambda: s.pipe(ops.window_with_time_or_count(due, 2, scheduler=sched)),
        "buffer_with_time_or_count": lambda: s.pipe(ops.buffer_with_time_or_count(due, 2, scheduler=sched)),
        "throttle_with_mapper_timer": lambda: s.pipe(ops.throttle_with_mapper(
            lambda x: (env.rec("cb", "mapper"), reactivex.timer(due, scheduler=sched))[1])),
        "switch_map_timer": lambda: s.pipe(ops.switch_map(
            lambda x: (env.rec("cb", "mapper"), reactivex.timer(due, due, scheduler=sched))[1])),
    }
    pipeline = table[c["op"]]()
    if c["tail"] is not None:
        pipeline = pipeline.pipe(ops.take(c["tail"]))
    if stop is not None:
        pipeline = pipeline.pipe(ops.take_until(stop.obs))
    return src, stop, pipeline, sched


def run_case(c, dispose=True):
    """-> Env after the run.  dispose=False: the undisturbed run in which the teardown callbacks are counted."""
    lib.import_repo()
    from reactivex import Observable
    from reactivex.disposable import Disposable
    env = Env(c)
    windows = OPERATORS[c["op"]][1]
    fire = c.get("fire")

    def live():
        return {p.pid: p.live() for p in env.probes if p.live()}

    def armed():
        return [i for i, t in enumerate(env.timers) if t["armed"]]

    def let_go(kind):
        subs = list(env.inner) + [env.outer] if c["inner_first"] else [env.outer] + list(env.inner)
        for s in subs:
            s.dispose()
        if env.mark is None:
            env.mark, env.mark_step, env.mark_kind = len(env.log), env.step, kind

    def teardown(form, pid):
        env.td += 1
        if env.in_script:
            env.td_script += 1
        env.rec("td", (form, pid))
        if not dispose or fire is None or env.mark is not None or env.firing or env.td < fire:
            return
        if c["action"] == "dispose":
            if env.outer is None:          # inside subscribe(): the subscriber does not hold its subscription yet
                return
            env.firing = True
            env.fired_in = (form, pid)
            let_go("dispose-teardown")
        else:
            env.firing = True
            env.fired_in = (form, pid)
            env.rec("stop_pushed", pid)
            stop.push("n", "stop")
    env.teardown = teardown

    def note(what, v):
        env.rec(what, v)
        if what in ("error", "completed") and v[0] == "outer" and env.mark is None:
            env.mark, env.mark_step, env.mark_kind = len(env.log), env.step, "terminal"

    def on_next(v):
        wobs = v if windows else None
        note("next", ("outer", "window" if windows else repr(v)))
        if wobs is not None and c["subscribe_windows"] and isinstance(wobs, Observable) and env.mark is None:
            wid = len(env.inner)
            env.inner.append(wobs.subscribe(lambda x: note("next", ("w", wid, repr(x))),
                                           lambda e: note("error", ("w", wid, type(e).__name__)),
                                           lambda: note("completed", ("w", wid))))

    src, stop, pipeline, sched = build(env)

    def guarded(f, *a):
        try:
            f(*a)
        except Exception as e:            # an exception that escapes into the pusher: recorded, judged by the caller
            env.escapes.append((env.step, repr(e)))

    def end_of_step():
        if env.mark is not None and env.mark_step == env.step and env.leak_at_mark is None:
            if env.mark_kind == "terminal":
                for s in env.inner:
                    s.dispose()
            env.leak_at_mark = live()
            env.timers_at_mark = armed()

    def subscribe():
        env.outer = pipeline.subscribe(on_next, lambda e: note("error", ("outer", type(e).__name__)),
                                       lambda: note("completed", ("outer",)))
    guarded(subscribe)
    if env.outer is None:
        env.outer = Disposable()
    end_of_step()

    def cur():
        for pid in reversed(env.sub_order):
            if env.probes[pid].live() and (stop is None or pid != stop.pid):
                return env.probes[pid]
        return None
    for j, stp in enumerate(c["script"]):
        env.step += 1
        k = stp[0]
        if k == "s":
            guarded(src.push, "n", stp[1])
        elif k == "sc":
            guarded(src.push, "c", None)
        elif k == "se":
            guarded(src.push, "e", None)
        elif k in ("cn", "cc", "ce"):
            p = cur()
            if p is not None:
                guarded(p.push, k[1], ("pushed", p.pid, j))
        elif k == "p":
            i = stp[1]
            if i < len(env.probes) and (stop is None or i != stop.pid):
                guarded(env.probes[i].push, stp[2], ("pushed", i, j))
        elif k == "adv":
            if sched is not None:
                guarded(sched.advance_by, stp[1])
        end_of_step()
    env.in_script = False
    if dispose:
        env.step += 1
        if env.mark is None:
            let_go("dispose-end")
        else:
            for s in [env.outer] + list(env.inner):   # a subscriber may always dispose again (idempotent)
                s.dispose()
        end_of_step()
        for what in ("n", "n", "c"):
            for p in list(env.probes):
                env.step += 1
                guarded(p.push, what, ("after", p.pid))
            if sched is not None:
                env.step += 1
                guarded(sched.advance_by, 20)
        env.leak_at_end = live()
        env.timers_at_end = armed()
    return env


def prepare(c):
    dry = run_case(c, dispose=False)
    n = dry.td_script
    c["fire"] = 1 + int(c["u"] * n) if n else None
    c["teardowns_in_undisturbed_run"] = n
    return c


def verdict(c, env):
    """-> (class, text) or None"""
    if env.mark is None:
        return None
    what_point = {"dispose-teardown": "dispose() returned (called from inside a teardown callback)",
                  "dispose-end": "dispose() returned",
                  "terminal": "the subscriber received its terminal"}[env.mark_kind]
    after = env.log[env.mark:]
    judged_in_step = env.mark_kind != "terminal"
    if env.leak_at_mark:
        return ("open", f"when the step in which {what_point} ended, probes (0 = source) still had observers "
                        f"{{probe: count}} = {env.leak_at_mark}")
    if env.timers_at_mark:
        return ("timer_armed", f"when the step in which {what_point} ended, timers {env.timers_at_mark} armed by the "
                               f"pipeline were still armed")
    for (what, a, st) in after:
        if st == env.mark_step and not judged_in_step:
            continue
        if what in ("next", "error", "completed"):
            return ("notification", f"notification {what} {a!r} in step {st} after {what_point} in step {env.mark_step}")
    subscribed_in_mark_step = {a for (what, a, st) in env.log if what == "sub" and st == env.mark_step}
    for (what, a, st) in after:
        if st == env.mark_step and not judged_in_step:
            continue
        if what == "cb" and st == env.mark_step and isinstance(a, tuple) and a[1] in subscribed_in_mark_step:
            continue
        if what == "cb":
            name = a if isinstance(a, str) else f"{a[2]} spy on the pipeline of probe {a[1]}"
            return ("callback", f"user callback `{name}` ran in step {st} after {what_point} in step {env.mark_step}")
    for (what, a, st) in after:
        if what == "sub" and st > env.mark_step:
            return ("subscribed", f"probe {a} subscribed in step {st}, after {what_point} in step {env.mark_step}")
        if what in ("timer_armed", "timer_run") and st > env.mark_step:
            return ("timer_later", f"{what} (timer {a}) in step {st}, after {what_point} in step {env.mark_step}")
    if getattr(env, "leak_at_end", None):
        return ("open_at_end", f"after the pushes that follow, probes (0 = source) have observers {env.leak_at_end}")
    if getattr(env, "timers_at_end", None):
        return ("timer_armed_at_end", f"after the pushes that follow, timers {env.timers_at_end} are armed")
    return None


def run_one(seed):
    c = prepare(gen_case(seed))
    env = run_case(c)
    return c, env, verdict(c, env)


def safe_one(seed):
    """run_one, with anything that escapes from the library into the driver turned into a verdict"""
    try:
        c, env, v = run_one(seed)
    except Exception as e:                      # incl. RecursionError
        import traceback
        return None, None, ("crash", f"{type(e).__name__}: {e!r} escaped into the driver: "
                                     + " | ".join(traceback.format_exc().strip().splitlines()[-6:]))
    if v is None and env.escapes and env.mark is not None:
        late = [e for e in env.escapes if e[0] > env.mark_step]
        if late:
            v = ("escape", f"exception escaped into the caller in step {late[0][0]}, after the subscription was given "
                           f"up in step {env.mark_step}: {late[0][1]}")
    return c, env, v


def describe(c, env, v):
    if env is None:
        return {"case": c, "what": v[1] if v else None}
    return {"case": c, "probe kinds (0 = source)": {p.pid: [p.kind, p.form] for p in env.probes},
            "log (what, detail, step)": env.log, "judged point": env.mark_kind, "its log position": env.mark,
            "its step": env.mark_step, "given up inside the teardown (form, probe / timer)": env.fired_in,
            "observers left at that step's end": env.leak_at_mark, "timers armed at that step's end": env.timers_at_mark,
            "observers left at the end": getattr(env, "leak_at_end", None), "escapes": env.escapes,
            "what": v[1] if v else None}


def family(chk, pid, n, rng):
    hist = {"cases": 0, "operator": {}, "judged_point": {}, "teardown form the subscription was given up in": {},
            "action": {}, "given up inside a teardown": 0,
            "... while another probe / timer was subscribed / armed later in that step (a replacement in progress)": 0,
            "cases without a teardown in the undisturbed run": 0, "escaped exceptions": 0, "timeouts": 0}
    nontrivial = set()
    for _ in range(n):
        seed = rng.getrandbits(48)
        status, out = lib.with_timeout(10, safe_one, seed)
        chk.cov["evaluations"] += 1
        hist["cases"] += 1
        if status != "ok":
            hist["timeouts"] += 1
            chk.violation(f"{pid}|teardown|{status}", {"family": "teardown", "case_seed": seed, "case": gen_case(seed),
                                                       "what": f"the case did not finish normally: {status}: {out!r}"[:600]},
                          size=99)
            continue
        c, env, v = out
        if env is None:
            hist["crashes"] = hist.get("crashes", 0) + 1
            chk.violation(f"{pid}|teardown|crash", {"family": "teardown", "case_seed": seed, "case": gen_case(seed),
                                                    "what": v[1][:900]}, size=98)
            continue
        hist["operator"][c["op"]] = hist["operator"].get(c["op"], 0) + 1
        hist["judged_point"][str(env.mark_kind)] = hist["judged_point"].get(str(env.mark_kind), 0) + 1
        if c["fire"] is None:
            hist["cases without a teardown in the undisturbed run"] += 1
        if env.fired_in is not None:
            hist["given up inside a teardown"] += 1
            hist["action"][c["action"]] = hist["action"].get(c["action"], 0) + 1
            f = env.fired_in[0]
            d = hist["teardown form the subscription was given up in"]
            d[f] = d.get(f, 0) + 1
            if env.mark is not None and any(w in ("sub", "timer_armed") and s == env.mark_step
                                            for (w, a, s) in env.log[env.mark:]):
                hist["... while another probe / timer was subscribed / armed later in that step "
                     "(a replacement in progress)"] += 1
        hist["escaped exceptions"] += len(env.escapes)
        if v:
            chk.violation(f"{pid}|teardown|{c['op']}|{env.mark_kind}|{v[0]}",
                          dict(describe(c, env, v), family="teardown", case_seed=seed),
                          size=len(c["script"]) + len(env.log) / 100.0
                          + (0 if v[0] in ("open", "open_at_end") else 50))
        elif env.fired_in is not None:
            nontrivial.add(seed)
    return hist, nontrivial


def is_replay(d):
    return isinstance(d, dict) and d.get("family") == "teardown" and "case_seed" in d


def replay_main(pid, path):
    import json
    d = json.load(open(path))
    status, out = lib.with_timeout(20, safe_one, d["case_seed"])
    if status != "ok":
        print(f"the case did not finish within 20 s")
        print(f"VIOLATION property={pid} replay={path}")
        return 1
    c, env, v = out
    if env is None:
        c = gen_case(d["case_seed"])
    print(json.dumps(describe(c, env, v), indent=1, default=repr))
    if v:
        print(f"VIOLATION property={pid} replay={path}")
        return 1
    print(f"[{pid}] replay: the case no longer fails")
    return 0
