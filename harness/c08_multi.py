"""C08, second metamorphic family: multi-source and remaining value-agnostic
operators, creation functions and subjects (ORACLE ONLY -- no Coq model is
consulted here).

Every catalogue entry builds an observable out of 0-3 hand-driven hot sources
(k2m.MSource) and of parameters (defaults, seeds, keys, initial values ...) that
are all drawn from a PALETTE of element values.  The builder is parametric in the
elements: it never does arithmetic on them, it compares them only through ==/hash
(inside the library) and harness-side callbacks look only at the IDENTITY (palette
position) of the element they receive.  Each case (operator, parameter seed,
explicit script = seeded interleaving of the sources' notifications) is run twice:

  * with the palette made of falsy values  (None, 0, "", (), [False, 0.0, [], {}])
  * with the palette made of always-truthy tokens `Tok` that have the same
    equality classes and the same hash-collisions-by-class (False == 0 == 0.0)

and the two recordings -- every notification of every subscriber with the script
position at which it arrived, every exception that escaped into the emitter, the
subscribe/unsubscribe instants of every source -- must be equal after encoding
the elements by palette position.  The encoding is driven by a per-operator output
SCHEMA (element / bool / int / list / tuple / set / dict / Notification ...), so an
operator-made `False`, `[]` or `()` is never confused with an element and
`False`/`0`/`0.0` stay distinct (encoded by type and repr, not by ==).

Not value-parametric, hence NOT in the catalogue (covered elsewhere or not at all):
sum/average/min/max (arithmetic / ordering on elements), to_marbles (stringifies the
elements), find / default_if_empty() / first_or_default() without an explicit default
(their literal None result is ambiguous by design; C05), expand / repeat / retry /
while_do / do_while (re-subscription loops over hot sources), the asyncio forms of to_future /
from_future and start / to_async on their default (timer-thread) scheduler -- their synchronous forms
(concurrent.futures.Future, ImmediateScheduler) and run() ARE in the catalogue --, take/skip/element_at
(index only; C05/C07; slice is in the catalogue because one of its paths wraps and unwraps the elements).
"""
from __future__ import annotations

import json
import random

import k2m
import lib
from k2 import Pool, UserError

CORE = [None, 0, "", ()]
HASH = CORE + [False, 0.0]          # hashable; False == 0 == 0.0 form ONE equality class (mirrored by Tok.cls)
ALL = HASH + [[], {}]               # + unhashable: only where the operator neither hashes nor needs hashable
PALETTES = {"hash": HASH, "all": ALL}


# --------------------------------------------------------------------------
# values and structural encoding
# --------------------------------------------------------------------------

class Vals:
    def __init__(self, pal, truthy):
        from props.C08 import Tok
        self.Tok = Tok
        self.pool = Pool(PALETTES[pal])
        self.K = self.pool.K
        self.truthy = truthy
        self.vals = ([Tok(i, self.pool.cls[i]) for i in range(self.K)] if truthy else list(self.pool.values))

    def v(self, i):
        return self.vals[i]

    def ident(self, x):
        """palette position of an element (by type and repr, never by ==), or None"""
        if self.truthy:
            return x.i if type(x) is self.Tok else None
        try:
            return self.pool._ids.get((type(x).__name__, repr(x)))
        except Exception:
            return None


def _foreign(tag, x):
    try:
        r = repr(x)
    except Exception:
        r = "<unreprable>"
    return [tag, type(x).__name__, r[:80]]


def E(x, V):
    i = V.ident(x)
    return ["el", i] if i is not None else _foreign("not-an-element", x)


def B(x, V):
    return ["bool", x] if type(x) is bool else _foreign("not-a-bool", x)


def I(x, V):
    return ["int", x] if type(x) is int else _foreign("not-an-int", x)


def L(s):
    def enc(x, V):
        return ["list", [s(y, V) for y in x]] if type(x) is list else _foreign("not-a-list", x)
    return enc


def T(*ss):
    def enc(x, V):
        if type(x) is tuple and len(x) == len(ss):
            return ["tuple", [s(y, V) for s, y in zip(ss, x)]]
        return _foreign("not-a-%d-tuple" % len(ss), x)
    return enc


def TS(s):
    def enc(x, V):
        return ["tuple", [s(y, V) for y in x]] if type(x) is tuple else _foreign("not-a-tuple", x)
    return enc


def S(s):
    def enc(x, V):
        if type(x) is not set:
            return _foreign("not-a-set", x)
        return ["set", sorted((s(y, V) for y in x), key=json.dumps)]
    return enc


def D(ks, vs):
    def enc(x, V):
        if type(x) is not dict:
            return _foreign("not-a-dict", x)
        return ["dict", sorted(([ks(k, V), vs(v, V)] for k, v in x.items()), key=json.dumps)]
    return enc


def NOTIF(s):
    def enc(x, V):
        from reactivex.notification import OnNext, OnError, OnCompleted
        if isinstance(x, OnNext):
            return ["OnNext", s(x.value, V)]
        if isinstance(x, OnError):
            return ["OnError", err(x.exception)]
        if isinstance(x, OnCompleted):
            return ["OnCompleted"]
        return _foreign("not-a-notification", x)
    return enc


def ATTR(name, s):
    """dataclass-like wrapper made by the operator (Timestamp, TimeInterval): encode one attribute"""
    def enc(x, V):
        if not hasattr(x, name) or V.ident(x) is not None:
            return _foreign("no-attribute-" + name, x)
        return [type(x).__name__ + "." + name, s(getattr(x, name), V)]
    return enc


class Box:
    """harness-made pair (never equal to / confusable with an element, unlike a tuple and the element ())"""

    def __init__(self, a, b):
        self.a, self.b = a, b


def BOX(x, V):
    return ["box", E(x.a, V), E(x.b, V)] if type(x) is Box else _foreign("not-a-box", x)


class FutState:
    """what a probe saw of a future: pending | cancelled | exception e | result v"""

    def __init__(self, kind, payload=None):
        self.kind, self.payload = kind, payload


def FUT(x, V):
    if type(x) is not FutState:
        return _foreign("not-a-future-state", x)
    if x.kind == "exception":
        return ["future-exception", err(x.payload)]
    if x.kind == "result":
        return ["future-result", E(x.payload, V)]
    return ["future-" + x.kind]


def err(e):
    if isinstance(e, UserError):
        return ["user-error", e.code]
    return [type(e).__name__, str(e)[:60]]


def safe_enc(schema, x, V):
    try:
        return schema(x, V)
    except Exception as e:           # the encoder itself must never kill a case
        return ["encoding-failed", type(e).__name__, str(e)[:60]]


# --------------------------------------------------------------------------
# catalogue
# --------------------------------------------------------------------------

class Entry:
    def __init__(self, name, nsrc, pal, schema, build, weight=1, corr=0.3, late=False, timed=False, note=""):
        self.name, self.nsrc, self.pal, self.schema, self.build = name, nsrc, pal, schema, build
        self.weight, self.corr, self.late, self.timed, self.note = weight, corr, late, timed, note


class Ctx:
    """what a builder sees: sources, the values of this run, a parameter rng (same draws in both runs)"""

    def __init__(self, entry, case, V, srcs, sched):
        self.entry, self.case, self.V = entry, case, V
        self.src = [s.observable for s in srcs]
        self.sched = sched
        self.rng = random.Random(case["pseed"])
        self.params = []
        self.after_subscribe = []      # e.g. connect() of a connectable
        self.probes = []               # (label, schema, thunk) evaluated after every step

    def pick(self, label="param"):
        i = self.rng.randrange(self.V.K)
        self.params.append(["el:" + label, i])
        return self.V.v(i)

    def picks(self, n, label="param"):
        return [self.pick(label) for _ in range(n)]

    def distinct_picks(self, n, label="key"):
        """n values from n different equality classes (dict keys)"""
        classes = sorted(set(self.V.pool.cls))
        chosen = self.rng.sample(classes, min(n, len(classes)))
        out = []
        for c in chosen:
            i = self.rng.choice([j for j in range(self.V.K) if self.V.pool.cls[j] == c])
            self.params.append(["el:" + label, i])
            out.append(self.V.v(i))
        return out

    def choice(self, xs, label="n"):
        x = self.rng.choice(xs)
        self.params.append([label, x])
        return x

    def ids_of_source(self, k):
        return [st[2] for st in self.case["script"] if st[0] == k and st[1] == "N"]

    def ident(self, x):
        i = self.V.ident(x)
        return -1 if i is None else i

    def inner(self, x, lo=1):
        """harness-side mapper: element -> one of the inner hot sources, chosen by the element's identity"""
        n = len(self.src) - lo
        return self.src[lo + self.ident(x) % n]


def catalogue():
    import reactivex as rx
    from reactivex import operators as ops
    from reactivex.notification import OnNext
    from reactivex.subject import Subject, BehaviorSubject, ReplaySubject, AsyncSubject
    ents = []

    def reg(name, nsrc, pal, schema, build, **kw):
        ents.append(Entry(name, nsrc, pal, schema, build, **kw))

    def piped(*mk):
        """source 0 piped through operators made from the context"""
        return lambda c: c.src[0].pipe(*[m(c) for m in mk])

    never = lambda _: rx.never()
    ident = lambda v: v
    E2, E3 = T(E, E), T(E, E, E)

    # ---- comparing two sequences ------------------------------------------------------------
    reg("sequence_equal(observable)", 2, "hash", B, piped(lambda c: ops.sequence_equal(c.src[1])), weight=5, corr=0.8)
    reg("sequence_equal(observable) all", 2, "all", B, piped(lambda c: ops.sequence_equal(c.src[1])), weight=2,
        corr=0.8)

    def seq_eq_iterable(c):
        ids = list(c.ids_of_source(0))
        r = c.rng.random()
        if ids and r < 0.25:
            ids[c.rng.randrange(len(ids))] = c.rng.randrange(c.V.K)
        elif r < 0.4:
            ids.append(c.rng.randrange(c.V.K))
        elif ids and r < 0.5:
            ids.pop()
        c.params.append(["second", ids])
        return c.src[0].pipe(ops.sequence_equal([c.V.v(i) for i in ids]))
    reg("sequence_equal(iterable)", 1, "hash", B, seq_eq_iterable, weight=2)

    # ---- merging / combining ----------------------------------------------------------------
    reg("merge(1 other)", 2, "all", E, piped(lambda c: ops.merge(c.src[1])))
    reg("merge(2 others)", 3, "all", E, piped(lambda c: ops.merge(c.src[1], c.src[2])))
    reg("rx.merge", 3, "all", E, lambda c: rx.merge(*c.src))
    reg("merge_all", 3, "all", E, piped(lambda c: ops.map(c.inner), lambda c: ops.merge_all()))
    reg("concat", 2, "all", E, piped(lambda c: ops.concat(c.src[1])))
    reg("rx.concat", 3, "all", E, lambda c: rx.concat(*c.src))
    reg("zip(1 other)", 2, "all", E2, piped(lambda c: ops.zip(c.src[1])), weight=2)
    reg("zip(2 others)", 3, "all", E3, piped(lambda c: ops.zip(c.src[1], c.src[2])), weight=2)
    reg("rx.zip", 2, "all", E2, lambda c: rx.zip(*c.src))
    reg("zip_with_iterable(list)", 1, "all", E2,
        piped(lambda c: ops.zip_with_iterable(c.picks(c.choice([0, 1, 2, 4]), "second"))), weight=2)
    reg("combine_latest(1 other)", 2, "all", E2, piped(lambda c: ops.combine_latest(c.src[1])), weight=2)
    reg("combine_latest(2 others)", 3, "all", E3, piped(lambda c: ops.combine_latest(c.src[1], c.src[2])), weight=2)
    reg("rx.combine_latest", 2, "all", E2, lambda c: rx.combine_latest(*c.src))
    reg("with_latest_from(1 other)", 2, "all", E2, piped(lambda c: ops.with_latest_from(c.src[1])), weight=2)
    reg("with_latest_from(2 others)", 3, "all", E3, piped(lambda c: ops.with_latest_from(c.src[1], c.src[2])),
        weight=2)
    reg("amb", 2, "all", E, piped(lambda c: ops.amb(c.src[1])))
    reg("rx.amb", 3, "all", E, lambda c: rx.amb(*c.src))
    reg("fork_join(1 other)", 2, "all", E2, piped(lambda c: ops.fork_join(c.src[1])), weight=2)
    reg("rx.fork_join(3)", 3, "all", E3, lambda c: rx.fork_join(*c.src), weight=2)
    reg("start_with", 1, "all", E, piped(lambda c: ops.start_with(*c.picks(c.choice([1, 2, 3]), "prefix"))))
    reg("take_until(observable)", 2, "all", E, piped(lambda c: ops.take_until(c.src[1])), weight=2)
    reg("skip_until(observable)", 2, "all", E, piped(lambda c: ops.skip_until(c.src[1])), weight=2)
    reg("sample(observable)", 2, "all", E, piped(lambda c: ops.sample(c.src[1])), weight=3)
    reg("catch(observable)", 2, "all", E, piped(lambda c: ops.catch(c.src[1])))
    reg("catch(handler)", 2, "all", E, piped(lambda c: ops.catch(lambda e, s: c.src[1])))
    reg("on_error_resume_next", 2, "all", E, piped(lambda c: ops.on_error_resume_next(c.src[1])))

    def case_(c):
        keys = c.distinct_picks(3, "key")          # keys[2] is looked up only in the 'missing key' variant
        table = {keys[0]: c.src[0], keys[1]: c.src[1]}
        which = c.choice([0, 1, 2], "selected")
        if c.choice([0, 1], "with-default"):
            return rx.case(lambda: keys[which], table, c.src[2])
        return rx.case(lambda: keys[which], table)
    reg("rx.case(falsy keys)", 3, "hash", E, case_, weight=2)

    # ---- buffering / windowing --------------------------------------------------------------
    LE = L(E)
    reg("buffer(boundaries)", 2, "all", LE, piped(lambda c: ops.buffer(c.src[1])), weight=2)
    reg("buffer_when", 2, "all", LE, piped(lambda c: ops.buffer_when(lambda: c.src[1])))
    reg("buffer_toggle", 3, "all", LE, piped(lambda c: ops.buffer_toggle(c.src[1], lambda v: c.src[2])))
    reg("buffer_with_count", 1, "all", LE,
        piped(lambda c: ops.buffer_with_count(c.choice([1, 2, 3], "count"), c.choice([None, 1, 2, 3], "skip"))),
        weight=2)
    to_list_of = lambda w: w.pipe(ops.to_list())
    reg("window_with_count+flat_map(to_list)", 1, "all", LE,
        piped(lambda c: ops.window_with_count(c.choice([1, 2, 3], "count"), c.choice([None, 1, 2, 3], "skip")),
              lambda c: ops.flat_map(to_list_of)), weight=2)
    reg("window(boundaries)+flat_map(to_list)", 2, "all", LE,
        piped(lambda c: ops.window(c.src[1]), lambda c: ops.flat_map(to_list_of)), weight=2)
    reg("window_when+flat_map(to_list)", 2, "all", LE,
        piped(lambda c: ops.window_when(lambda: c.src[1]), lambda c: ops.flat_map(to_list_of)))
    reg("window_toggle+flat_map(to_list)", 3, "all", LE,
        piped(lambda c: ops.window_toggle(c.src[1], lambda v: c.src[2]), lambda c: ops.flat_map(to_list_of)))
    reg("pairwise", 1, "all", E2, piped(lambda c: ops.pairwise()))
    reg("take_last", 1, "all", E, piped(lambda c: ops.take_last(c.choice([0, 1, 2, 3], "count"))))
    reg("skip_last", 1, "all", E, piped(lambda c: ops.skip_last(c.choice([0, 1, 2, 3], "count"))))
    reg("take_last_buffer", 1, "all", LE, piped(lambda c: ops.take_last_buffer(c.choice([0, 1, 2, 3], "count"))))

    # ---- defaults, seeds, searched values ---------------------------------------------------
    reg("default_if_empty(falsy)", 1, "all", E, piped(lambda c: ops.default_if_empty(c.pick("default"))), weight=2)
    reg("first_or_default(falsy)", 1, "all", E, piped(lambda c: ops.first_or_default(default_value=c.pick("default"))))
    reg("last_or_default(falsy)", 1, "all", E, piped(lambda c: ops.last_or_default(c.pick("default"))))
    reg("single_or_default(falsy)", 1, "all", E,
        piped(lambda c: ops.single_or_default(default_value=c.pick("default"))))
    reg("element_at_or_default(falsy)", 1, "all", E,
        piped(lambda c: ops.element_at_or_default(c.choice([0, 1, 2], "index"), c.pick("default"))))
    reg("contains(falsy)", 1, "hash", B, piped(lambda c: ops.contains(c.pick("value"))), weight=2)
    reg("contains(falsy) all", 1, "all", B, piped(lambda c: ops.contains(c.pick("value"))))
    keep = lambda acc, x: acc
    reg("scan(keep, seed=falsy)", 1, "all", E, piped(lambda c: ops.scan(keep, seed=c.pick("seed"))))
    reg("scan(keep) no seed", 1, "all", E, piped(lambda c: ops.scan(keep)))
    reg("scan(pair, seed=falsy)", 1, "all", BOX,
        piped(lambda c: ops.scan(lambda acc, x: Box(acc.b if type(acc) is Box else acc, x), seed=c.pick("seed"))),
        note="the accumulator state is a harness-made Box(previous, current); the seed is seen as the first 'previous'")
    reg("reduce(keep, seed=falsy)", 1, "all", E, piped(lambda c: ops.reduce(keep, seed=c.pick("seed"))))
    reg("reduce(keep) no seed", 1, "all", E, piped(lambda c: ops.reduce(keep)))
    reg("count", 1, "all", I, piped(lambda c: ops.count()))
    reg("is_empty", 1, "all", B, piped(lambda c: ops.is_empty()))
    reg("some", 1, "all", B, piped(lambda c: ops.some()))
    reg("ignore_elements", 1, "all", E, piped(lambda c: ops.ignore_elements()))
    reg("do_action+as_observable+finally_action", 1, "all", E,
        piped(lambda c: ops.do_action(lambda v: None), lambda c: ops.as_observable(),
              lambda c: ops.finally_action(lambda: None)))

    # ---- equality / hashing of elements -----------------------------------------------------
    reg("distinct", 1, "hash", E, piped(lambda c: ops.distinct()), weight=2)
    reg("distinct(key_mapper=identity)", 1, "hash", E, piped(lambda c: ops.distinct(ident)))
    reg("distinct_until_changed", 1, "hash", E, piped(lambda c: ops.distinct_until_changed()), weight=2)
    reg("distinct_until_changed all", 1, "all", E, piped(lambda c: ops.distinct_until_changed()))
    reg("to_list", 1, "all", LE, piped(lambda c: ops.to_list()))
    reg("to_iterable", 1, "all", LE, piped(lambda c: ops.to_iterable()))
    reg("to_set", 1, "hash", S(E), piped(lambda c: ops.to_set()), weight=2)
    reg("to_dict(identity)", 1, "hash", D(E, E), piped(lambda c: ops.to_dict(ident)), weight=2)

    def to_dict_el(c):
        other = c.pick("element")
        return c.src[0].pipe(ops.to_dict(ident, lambda v: other))
    reg("to_dict(identity, const falsy)", 1, "hash", D(E, E), to_dict_el)
    reg("group_by(identity)+to_list", 1, "hash", T(E, LE),
        piped(lambda c: ops.group_by(ident),
              lambda c: ops.flat_map(lambda g: g.pipe(ops.to_list(), ops.map(lambda l: (g.key, l))))), weight=2)
    reg("group_by(identity, element_mapper=const falsy)", 1, "hash", E2,
        piped(lambda c: (lambda other: ops.group_by(ident, lambda v: other))(c.pick("element")),
              lambda c: ops.flat_map(lambda g: g.pipe(ops.map(lambda x: (g.key, x))))))
    reg("min_by(identity id)", 1, "all", LE, piped(lambda c: ops.min_by(c.ident)),
        note="the key is the palette position computed harness-side; the elements are only carried")
    reg("max_by(identity id)", 1, "all", LE, piped(lambda c: ops.max_by(c.ident)))

    # ---- notifications as values ------------------------------------------------------------
    reg("materialize", 1, "all", NOTIF(E), piped(lambda c: ops.materialize()))
    reg("materialize+dematerialize", 1, "all", E, piped(lambda c: ops.materialize(), lambda c: ops.dematerialize()))
    reg("map(OnNext)+dematerialize", 1, "all", E, piped(lambda c: ops.map(OnNext), lambda c: ops.dematerialize()))

    # ---- coincidence ------------------------------------------------------------------------
    reg("join(never, never)", 2, "all", E2, piped(lambda c: ops.join(c.src[1], never, never)), weight=2)
    reg("group_join(never, never)", 2, "all", E2,
        piped(lambda c: ops.group_join(c.src[1], never, never),
              lambda c: ops.flat_map(lambda t: t[1].pipe(ops.map(lambda r: (t[0], r))))), weight=2)

    # ---- higher order over a pool of inner hot sources ------------------------------------
    reg("map+switch_latest", 3, "all", E, piped(lambda c: ops.map(c.inner), lambda c: ops.switch_latest()), weight=2)
    reg("switch_map", 3, "all", E, piped(lambda c: ops.switch_map(c.inner)), weight=2)
    reg("flat_map_latest", 3, "all", E, piped(lambda c: ops.flat_map_latest(c.inner)))
    reg("flat_map", 3, "all", E, piped(lambda c: ops.flat_map(c.inner)), weight=2)
    reg("flat_map(pair with outer)", 3, "all", E2,
        piped(lambda c: ops.flat_map(lambda v: c.inner(v).pipe(ops.map(lambda w: (v, w))))))
    reg("concat_map", 3, "all", E, piped(lambda c: ops.concat_map(c.inner)))
    reg("map+exclusive", 3, "all", E, piped(lambda c: ops.map(c.inner), lambda c: ops.exclusive()))
    reg("delay_with_mapper", 2, "all", E, piped(lambda c: ops.delay_with_mapper(lambda v: c.src[1])))
    reg("throttle_with_mapper", 2, "all", E, piped(lambda c: ops.throttle_with_mapper(lambda v: c.src[1])))
    reg("timeout_with_mapper", 3, "all", E,
        piped(lambda c: ops.timeout_with_mapper(rx.never(), lambda v: c.src[1], c.src[2])))

    # ---- element access ---------------------------------------------------------------------
    def pluck_(c):
        key = c.pick("key")
        return c.src[0].pipe(ops.map(lambda v: {key: v}), ops.pluck(key))
    reg("map(dict)+pluck(falsy key)", 1, "hash", E, pluck_)
    reg("zip+starmap(swap)", 2, "all", E2, piped(lambda c: ops.zip(c.src[1]), lambda c: ops.starmap(lambda a, b: (b, a))))
    reg("map(pair)+starmap(first)", 1, "all", E,
        piped(lambda c: (lambda o: ops.map(lambda v: (v, o)))(c.pick("other")), lambda c: ops.starmap(lambda a, b: a)))
    reg("partition(identity parity)", 1, "all", T(I, E),
        lambda c: (lambda ps: rx.merge(ps[0].pipe(ops.map(lambda v: (0, v))), ps[1].pipe(ops.map(lambda v: (1, v)))))(
            c.src[0].pipe(ops.share(), ops.partition(lambda v: c.ident(v) % 2 == 0))))
    reg("take_while/skip_while/filter(identity id)", 1, "all", E,
        piped(lambda c: (lambda k, stop: [ops.take_while(lambda v: c.ident(v) != stop),
                                          ops.skip_while(lambda v: c.ident(v) == stop),
                                          ops.filter(lambda v: c.ident(v) != stop)][k])(
            c.choice([0, 1, 2], "which"), c.choice(list(range(c.V.K)), "stop-id"))))

    # ---- slicing: a negative start with a positive stop wraps every element as (index, x) and unwraps it ----
    reg("slice(negative start, positive stop)", 1, "all", E,
        piped(lambda c: ops.slice(c.choice([-1, -2, -3, -4], "start"), c.choice([1, 2, 3, 4], "stop"))), weight=2)
    reg("source[-2:3]", 1, "all", E, lambda c: c.src[0][-2:3])
    reg("slice(mixed signs, step)", 1, "all", E,
        piped(lambda c: ops.slice(c.choice([None, -3, -1, 0, 1], "start"), c.choice([None, -1, 2, 4], "stop"),
                                  c.choice([None, 1, 2], "step"))), weight=2)

    # ---- bridges that hold "the last value" (synchronous forms only: no event loop) ---------------
    def fut_state(fut):
        def thunk():
            if not fut.done():
                return FutState("pending")
            if fut.cancelled():
                return FutState("cancelled")
            ex = fut.exception()
            return FutState("exception", ex) if ex is not None else FutState("result", fut.result())
        return thunk

    def to_future_(c):
        import concurrent.futures
        # subscribes source 0 right here; the future is completed by the script's on_completed / on_error
        fut = c.src[0].pipe(ops.to_future(concurrent.futures.Future))
        c.probes.append(("to_future(...) state", FUT, fut_state(fut)))
        return rx.from_future(fut)
    reg("to_future(concurrent Future)+from_future", 1, "all", E, to_future_, late=True, weight=4)

    def from_future_done(c):
        import concurrent.futures
        fut = concurrent.futures.Future()
        fut.set_result(c.pick("result"))
        return rx.from_future(fut)
    reg("rx.from_future(completed future)", 0, "all", E, from_future_done, late=True, weight=2)

    def run_(c):
        from reactivex.scheduler import ImmediateScheduler, CurrentThreadScheduler
        vals = c.picks(c.choice([1, 2, 3], "count"), "value")
        how = c.choice(["default", "immediate", "current_thread"], "scheduler")

        def supplier():
            src = rx.of(*vals)
            if how == "default":           # NewThreadScheduler: run() blocks on a latch until the source is done
                return src.run()
            return src.run(ImmediateScheduler() if how == "immediate" else CurrentThreadScheduler())
        return rx.from_callable(supplier)
    reg("rx.of(...).run()", 0, "all", E, run_, weight=3)

    def start_(c):
        from reactivex.scheduler import ImmediateScheduler
        v = c.pick("result")
        if c.choice([0, 1], "via to_async"):
            return rx.defer(lambda s: rx.to_async(lambda: v, ImmediateScheduler())())
        return rx.defer(lambda s: rx.start(lambda: v, ImmediateScheduler()))
    reg("rx.start / rx.to_async(falsy result)", 0, "all", E, start_, late=True, weight=2)

    # ---- creation (no hot source; the values are the parameters) -----------------------------
    reg("rx.of", 0, "all", E, lambda c: rx.of(*c.picks(c.choice([1, 2, 3, 4]), "value")))
    reg("rx.from_iterable", 0, "all", E, lambda c: rx.from_iterable(c.picks(c.choice([1, 2, 3, 4]), "value")))
    reg("rx.return_value", 0, "all", E, lambda c: rx.return_value(c.pick("value")))
    reg("rx.repeat_value", 0, "all", E, lambda c: rx.repeat_value(c.pick("value"), c.choice([1, 2, 3], "count")))
    reg("rx.from_callable", 0, "all", E, lambda c: (lambda v: rx.from_callable(lambda: v))(c.pick("value")))
    reg("rx.for_in", 0, "all", E, lambda c: rx.for_in(c.picks(c.choice([1, 2, 3]), "value"), rx.return_value))

    def generate_(c):
        vs = c.picks(c.choice([1, 2, 3, 4]), "state")
        pos = [0]

        def cond(_):
            return pos[0] < len(vs)

        def it(_):
            pos[0] += 1
            return vs[pos[0]] if pos[0] < len(vs) else vs[-1]
        return rx.defer(lambda s: (pos.__setitem__(0, 0), rx.generate(vs[0], cond, it))[1])
    reg("rx.generate(falsy states)", 0, "all", E, generate_)
    reg("rx.concat_with_iterable(of ...)", 0, "all", E,
        lambda c: rx.concat_with_iterable([rx.of(*c.picks(2, "value")), rx.return_value(c.pick("value"))]))

    # ---- subjects and multicasting (a second subscriber arrives at a seeded position) ----
    def via_subject(make):
        def build(c):
            subj = make(c)
            c.after_subscribe.append(lambda: c.src[0].subscribe(subj))
            return subj
        return build
    reg("Subject", 1, "all", E, via_subject(lambda c: Subject()), late=True)

    def behavior(c):
        subj = BehaviorSubject(c.pick("initial"))
        c.after_subscribe.append(lambda: c.src[0].subscribe(subj))

        def value():
            try:
                return subj.value
            except Exception as e:      # the error held by the subject is re-raised by .value
                return e
        c.probes.append(("BehaviorSubject.value", lambda x, V: err(x) if isinstance(x, Exception) else E(x, V), value))
        return subj
    reg("BehaviorSubject(falsy initial)", 1, "all", E, behavior, late=True, weight=3)
    reg("ReplaySubject(buffer_size)", 1, "all", E,
        via_subject(lambda c: ReplaySubject(buffer_size=c.choice([1, 2, 3], "buffer_size"))), late=True, weight=3)
    reg("ReplaySubject()", 1, "all", E, via_subject(lambda c: ReplaySubject()), late=True, weight=2)
    reg("AsyncSubject", 1, "all", E, via_subject(lambda c: AsyncSubject()), late=True, weight=3)

    def connectable(mk):
        def build(c):
            conn = c.src[0].pipe(mk(c))
            c.after_subscribe.append(conn.connect)
            return conn
        return build
    reg("publish+connect", 1, "all", E, connectable(lambda c: ops.publish()), late=True)
    reg("publish+ref_count", 1, "all", E, piped(lambda c: ops.publish(), lambda c: ops.ref_count()), late=True)
    reg("share", 1, "all", E, piped(lambda c: ops.share()), late=True)
    reg("publish(mapper: zip with itself shifted)", 1, "all", E2,
        piped(lambda c: ops.publish(lambda xs: xs.pipe(ops.zip(xs.pipe(ops.skip(1)))))))
    reg("publish_value(falsy)+connect", 1, "all", E, connectable(lambda c: ops.publish_value(c.pick("initial"))),
        late=True, weight=2)
    reg("publish_value(falsy)+ref_count", 1, "all", E,
        piped(lambda c: ops.publish_value(c.pick("initial")), lambda c: ops.ref_count()), late=True)
    reg("replay(buffer_size)+connect", 1, "all", E,
        connectable(lambda c: ops.replay(buffer_size=c.choice([1, 2, 3], "buffer_size"))), late=True, weight=3)
    reg("replay()+ref_count", 1, "all", E, piped(lambda c: ops.replay(), lambda c: ops.ref_count()), late=True)
    reg("multicast(AsyncSubject)+connect", 1, "all", E, connectable(lambda c: ops.multicast(AsyncSubject())),
        late=True)
    reg("multicast(subject_factory=ReplaySubject, mapper)", 1, "all", E,
        piped(lambda c: ops.multicast(subject_factory=lambda s: ReplaySubject(2), mapper=lambda xs: xs)))

    # ---- time-based, on a virtual-time scheduler the script advances ------------------------
    reg("delay", 1, "all", E, piped(lambda c: ops.delay(0.010, c.sched)), timed=True, weight=2)
    reg("debounce", 1, "all", E, piped(lambda c: ops.debounce(0.010, c.sched)), timed=True, weight=2)
    reg("sample(period)", 1, "all", E, piped(lambda c: ops.sample(0.010, c.sched)), timed=True, weight=2)
    reg("throttle_first", 1, "all", E, piped(lambda c: ops.throttle_first(0.010, c.sched)), timed=True)
    reg("buffer_with_time", 1, "all", LE, piped(lambda c: ops.buffer_with_time(0.010, scheduler=c.sched)), timed=True)
    reg("buffer_with_time_or_count", 1, "all", LE,
        piped(lambda c: ops.buffer_with_time_or_count(0.010, 2, c.sched)), timed=True)
    reg("window_with_time+flat_map(to_list)", 1, "all", LE,
        piped(lambda c: ops.window_with_time(0.010, scheduler=c.sched), lambda c: ops.flat_map(to_list_of)), timed=True)
    reg("timestamp", 1, "all", ATTR("value", E), piped(lambda c: ops.timestamp(c.sched)), timed=True)
    reg("time_interval", 1, "all", ATTR("value", E), piped(lambda c: ops.time_interval(c.sched)), timed=True)
    reg("take_last_with_time", 1, "all", E, piped(lambda c: ops.take_last_with_time(0.010, c.sched)), timed=True)
    reg("skip_last_with_time", 1, "all", E, piped(lambda c: ops.skip_last_with_time(0.010, c.sched)), timed=True)
    reg("delay_subscription", 1, "all", E, piped(lambda c: ops.delay_subscription(0.005, c.sched)), timed=True)
    reg("timeout(other)", 2, "all", E, piped(lambda c: ops.timeout(0.020, c.src[1], c.sched)), timed=True)
    reg("observe_on(virtual)", 1, "all", E, piped(lambda c: ops.observe_on(c.sched)), timed=True)
    reg("replay(window)+connect", 1, "all", E,
        connectable(lambda c: ops.replay(window=0.015, scheduler=c.sched)), late=True, timed=True)
    return ents


_CAT = {}


def by_name():
    if not _CAT:
        for e in catalogue():
            assert e.name not in _CAT, e.name
            _CAT[e.name] = e
    return _CAT


# --------------------------------------------------------------------------
# scripts
# --------------------------------------------------------------------------

MODES = ["random", "second_first", "first_first", "last_first", "bursts", "round_robin_from_second"]
ADVANCES = [1, 4, 5, 10, 11, 30]      # milliseconds of virtual time


def gen_script(rng, entry, K, ci):
    """explicit script: [k, 'N', id] | [k, 'C'] | [k, 'E'] | ['sub2'] | ['adv', ms]"""
    n = entry.nsrc
    mode = MODES[ci % len(MODES)]
    style = rng.choice(["uniform", "sticky", "sticky", "random", "random"])
    uni = (ci // len(MODES)) % K
    streams = []
    for k in range(n):
        if k > 0 and streams and rng.random() < entry.corr:
            ids = [st[2] for st in streams[0] if st[1] == "N"]
            r = rng.random()
            if ids and r < 0.2:
                ids[rng.randrange(len(ids))] = rng.randrange(K)
            elif r < 0.3:
                ids.append(rng.randrange(K))
            elif ids and r < 0.4:
                ids.pop()
        else:
            ids = []
            for _ in range(rng.choice([0, 1, 1, 2, 2, 3, 3, 4, 5])):
                if style == "uniform":
                    ids.append(uni)
                elif style == "sticky" and ids and rng.random() < 0.5:
                    ids.append(ids[-1])
                else:
                    ids.append(rng.randrange(K))
        streams.append([[k, "N", i] for i in ids])
    deferred = []
    for k in range(n):
        r = rng.random()
        term = [k, "C"] if r < 0.55 else ([k, "E"] if r < 0.75 else None)
        if term is not None:
            if rng.random() < 0.6:
                streams[k].append(term)
            else:
                deferred.append(term)
    rng.shuffle(deferred)
    script = []
    rest = [list(s) for s in streams]
    if mode in ("second_first", "first_first", "last_first"):
        order = {"second_first": [1, 0, 2], "first_first": [0, 1, 2], "last_first": [2, 1, 0]}[mode]
        for k in order:
            if k < n:
                script.extend(rest[k])
    elif mode == "round_robin_from_second":
        k = 1 % max(n, 1)
        while any(rest):
            if rest[k]:
                script.append(rest[k].pop(0))
            k = (k - 1) % n
    else:
        while any(rest):
            k = rng.choice([j for j in range(n) if rest[j]])
            take = rng.randint(2, 3) if mode == "bursts" else 1
            for _ in range(take):
                if rest[k]:
                    script.append(rest[k].pop(0))
    script.extend(deferred)
    if entry.timed:
        timed = []
        for st in script:
            timed.append(st)
            if rng.random() < 0.5:
                timed.append(["adv", rng.choice(ADVANCES)])
        timed.append(["adv", 100])
        script = timed
    if entry.late and rng.random() < 0.85:
        script.insert(rng.randint(0, len(script)), ["sub2"])
    return script, mode, style


def second_ahead(script):
    """does the second source ever have delivered more elements than the first?"""
    c = [0, 0, 0]
    for st in script:
        if isinstance(st[0], int) and st[1] == "N":
            c[st[0]] += 1
            if c[1] > c[0]:
                return True
    return False


def readable(script, pal):
    vals = PALETTES[pal]
    out = []
    for st in script:
        if isinstance(st[0], int):
            out.append(f"source{st[0]}.on_next({vals[st[2]]!r})" if st[1] == "N" else
                       (f"source{st[0]}.on_completed()" if st[1] == "C" else f"source{st[0]}.on_error(UserError(11))"))
        elif st[0] == "adv":
            out.append(f"scheduler.advance_by({st[1]} ms)")
        else:
            out.append("second subscriber subscribes")
    return out


def readable_params(params, pal):
    vals = PALETTES[pal]
    out = []
    for label, x in params:
        if label.startswith("el:"):
            out.append(f"{label[3:]} = {vals[x]!r}")
        elif label == "second":
            out.append("second = [" + ", ".join(repr(vals[i]) for i in x) + "]")
        else:
            out.append(f"{label} = {x!r}")
    return out


# --------------------------------------------------------------------------
# running one case
# --------------------------------------------------------------------------

def run_case(entry, case, truthy):
    """-> dict(out=[[position, who, kind, payload]], subs=[[position, 'sub'|'unsub', source]], params)
    who: 0/1 = subscriber, -1 = exception escaping into the emitter, -2 = probe"""
    V = Vals(entry.pal, truthy)
    env = k2m.Env()
    srcs = [env.new_source() for _ in range(case["nsrc"])]
    sched = None
    if entry.timed:
        from reactivex.scheduler import VirtualTimeScheduler
        sched = VirtualTimeScheduler()
    c = Ctx(entry, case, V, srcs, sched)
    out = []
    try:
        obs = entry.build(c)
    except Exception as e:
        return {"out": [[0, -1, "build-error", err(e)]], "subs": [], "params": c.params}

    def subscribe(who):
        def on_next(v):
            out.append([env.tag, who, "N", safe_enc(entry.schema, v, V)])

        def on_error(e):
            out.append([env.tag, who, "E", err(e)])

        def on_completed():
            out.append([env.tag, who, "C", None])
        try:
            if sched is not None:
                obs.subscribe(on_next, on_error, on_completed, scheduler=sched)
            else:
                obs.subscribe(on_next, on_error, on_completed)
        except Exception as e:
            out.append([env.tag, -1, "X", err(e)])

    def probe():
        for label, schema, thunk in c.probes:
            try:
                out.append([env.tag, -2, label, safe_enc(schema, thunk(), V)])
            except Exception as e:
                out.append([env.tag, -2, label, ["probe-raised"] + err(e)])
    subscribe(0)
    try:
        for f in c.after_subscribe:
            f()
    except Exception as e:
        out.append([0, -1, "X", err(e)])
    probe()
    for pos, st in enumerate(case["script"]):
        env.tag = pos + 1
        try:
            if st[0] == "sub2":
                subscribe(1)
            elif st[0] == "adv":
                sched.advance_by(st[1] / 1000.0)
            else:
                k, kind = st[0], st[1]
                if k < len(srcs):
                    srcs[k].push(("N", V.v(st[2])) if kind == "N" else
                                 (("E", UserError(11)) if kind == "E" else ("C",)))
        except Exception as e:
            out.append([env.tag, -1, "X", err(e)])
        probe()
    subs = [[t, kind, a] for (t, kind, a, b) in env.log if kind in ("sub", "unsub")]
    return {"out": out, "subs": subs, "params": c.params}


def run_both(entry, case, budget=5.0):
    res = []
    for truthy in (False, True):
        st, r = lib.with_timeout(budget, run_case, entry, case, truthy)
        res.append(r if st == "ok" else {"out": [[0, -1, "HANG", None]], "subs": [], "params": []})
    return res


def same(rF, rT):
    return json.dumps([rF["out"], rF["subs"]], sort_keys=True, default=repr) == \
        json.dumps([rT["out"], rT["subs"]], sort_keys=True, default=repr)


def shrink(entry, case):
    """greedy: drop script steps while the two runs still differ"""
    cur = dict(case, script=list(case["script"]))
    changed = True
    while changed:
        changed = False
        for i in range(len(cur["script"])):
            cand = dict(cur, script=cur["script"][:i] + cur["script"][i + 1:])
            rF, rT = run_both(entry, cand)
            if not same(rF, rT):
                cur = cand
                changed = True
                break
    return cur


def replay_dict(entry, case, rF, rT):
    return {"family": "multi", "operator": entry.name, "nsrc": case["nsrc"], "pseed": case["pseed"],
            "script": case["script"], "palette": [repr(v) for v in PALETTES[entry.pal]],
            "palette_name": entry.pal,
            "script_readable": readable(case["script"], entry.pal),
            "parameters drawn from pseed (label, palette position or number)": rF["params"],
            "parameters_readable": readable_params(rF["params"], entry.pal),
            "output with falsy values [position, subscriber, kind, payload]": rF["out"],
            "output with truthy tokens": rT["out"],
            "source subscriptions with falsy values": rF["subs"],
            "source subscriptions with truthy tokens": rT["subs"],
            "expected": "identical recordings (elements encoded by palette position; position 0 = inside "
                        "subscribe, k = during the k-th script step; subscriber -1 = exception escaped into the "
                        "emitter, -2 = probe)"}


# --------------------------------------------------------------------------
# the family
# --------------------------------------------------------------------------

def run_family(chk, base_cases):
    """runs the whole catalogue; records violations and returns the coverage dict"""
    cat = by_name()
    per_op, falsy_hist, modes = {}, {}, {}
    nontrivial = set()
    ahead = two_plus = evaluations = differing = 0
    samples = []
    reported = {}
    for name, entry in cat.items():
        ncase = base_cases * entry.weight
        if entry.nsrc == 0:
            ncase = max(6, ncase // 3)
        K = len(PALETTES[entry.pal])
        for ci in range(ncase):
            rng = random.Random(chk.rng.getrandbits(48))
            script, mode, style = gen_script(rng, entry, K, ci)
            case = {"nsrc": entry.nsrc, "pseed": rng.getrandbits(32), "script": script}
            rF, rT = run_both(entry, case)
            evaluations += 2
            per_op[name] = per_op.get(name, 0) + 1
            modes[mode] = modes.get(mode, 0) + 1
            vals = PALETTES[entry.pal]
            for st in script:
                if isinstance(st[0], int) and st[1] == "N":
                    falsy_hist[repr(vals[st[2]])] = falsy_hist.get(repr(vals[st[2]]), 0) + 1
            for label, i in rF["params"]:
                if label.startswith("el:"):
                    key = "parameter " + repr(vals[i])
                    falsy_hist[key] = falsy_hist.get(key, 0) + 1
            if entry.nsrc >= 2:
                two_plus += 1
                if second_ahead(script):
                    ahead += 1
            if same(rF, rT):
                if len([o for o in rF["out"] if o[1] >= 0]) >= 2:
                    nontrivial.add(json.dumps([name, rF["params"], script]))
                    if not any(x["operator"] == name for x in samples[-1:]):     # first non-trivial case per operator
                        samples.append({"operator": name, "script": readable(script, entry.pal),
                                        "parameters": rF["params"], "output (both runs)": rF["out"]})
            else:
                differing += 1
                sigs, attempts = reported.setdefault(name, [set(), 0])
                if len(sigs) < 3 and attempts < 8:      # shrink and report a few distinct cases per operator
                    reported[name][1] += 1
                    small = shrink(entry, case)
                    sF, sT = run_both(entry, small)
                    sig = f"multi-falsy-differs|{name}|{json.dumps(small['script'])}|{json.dumps(sF['params'])}"
                    if sig not in sigs:
                        # lib.Check writes out the MAX_REPORT smallest: rank the first case of every operator
                        # before anybody's second one, so that the reported files show different operators
                        chk.violation(sig, replay_dict(entry, small, sF, sT),
                                      size=len(small["script"]) + 1000 * len(sigs))
                        sigs.add(sig)
    return {"evaluations": evaluations, "nontrivial": nontrivial, "per_operator": per_op,
            "falsy_value_occurrences": falsy_hist, "interleaving_modes": modes,
            "cases_with_two_or_more_sources": two_plus, "cases_second_source_ahead": ahead,
            "cases_differing": differing, "operators": len(cat), "samples": samples}


def replay_case(rep):
    """re-run one recorded case on the current tree -> (still_fails, falsy run, token run)"""
    entry = by_name().get(rep["operator"])
    if entry is None:
        raise KeyError(f"operator {rep['operator']!r} is not in the catalogue of harness/c08_multi.py")
    case = {"nsrc": rep["nsrc"], "pseed": rep["pseed"], "script": rep["script"]}
    rF, rT = run_both(entry, case)
    return (not same(rF, rT)), rF, rT
