"""subj_conc -- a small TWO-THREAD family for the subjects (wired into C21 and C23; the kinds
'subject' and 'replay' are supported too).

The single-threaded checks of harness/subj.py cannot see WHERE a subject holds its lock: with one
thread (the lock is re-entrant) a greeting sent after the lock has been released, or a test of
is_stopped made before the lock is taken, produce the same calls.  This family forces interleavings
deterministically:

  * thread A (the main thread) performs ONE operation: it subscribes a new observer or unsubscribes
    an existing one;
  * thread B performs ONE complete operation: on_next(v) / on_completed() / on_error(e) / dispose();
  * subject.lock is replaced by `HookLock`, a proxy around the subject's own RLock.  Every acquire()
    and release() A makes on it during its operation is an EVENT e_1 .. e_P.  The injection points are
        0          before A's operation starts,
        2i-1       inside A's i-th acquire/release call, just before it takes effect
                   (so after all the code A runs between e_(i-1) and e_i),
        2i         just after e_i took effect (before the code that follows it).
    At the chosen point A lets B go and waits until B's operation is finished -- or until B is blocked
    on the lock A holds; then A goes on and waits for B right after the release that frees the lock.
    Every run is therefore deterministic; P is measured by a dry run of the same scenario on the
    library under test (a changed library may have other points), and ALL points 0..2P are enumerated.

Oracle (independent reference `ref_run`, written from the statements of C20-C23): both operations are
single calls, so the observable outcome -- what every observer received, in order, and which of the
two calls raised DisposedException -- must be the outcome of one of the two sequential orders
[setup; A; B; rest] or [setup; B; A; rest].  For a new BehaviorSubject subscriber that is: the value
current at its registration first and then every later notification in call order, or (the terminal
having won the race) only the terminal; for an AsyncSubject subscriber: [last value; completion] /
[error] either as a current subscriber or as a late one -- never nothing.  Additionally the two
sequential orders are run on the real class without any thread and compared with the reference.
Anything escaping (exception other than DisposedException, hang, recursion) is a violation record.
"""
import threading
import time

import lib

TIMEOUT = 4.0          # seconds a thread waits for the other one before the run is called a hang
DISPOSED = "DisposedException"


# --------------------------------------------------------------------------
# reference (from the statements; never looks at the library)
# --------------------------------------------------------------------------

def ref_run(kind, v0, ops, buffer_size=None):
    """ops: ['sub', o] ['unsub', o] ['n', v] ['c'] ['e', code] ['d'] ->
    (per-observer notes {o: [...]}, per-op raised exception name or None)"""
    state, term = "live", None            # live | term | disposed
    value, has = v0, False
    buf = []
    subs, dead, got, raised = [], set(), {}, []

    def deliver(o, note):
        if o in dead:
            return
        got.setdefault(o, []).append(note)
        if note[0] in "CE":
            dead.add(o)

    for op in ops:
        t, exc = op[0], None
        if t == "sub":
            o = op[1]
            got.setdefault(o, [])
            if state == "disposed":
                deliver(o, ["E", DISPOSED])      # Observable.subscribe turns the exception into on_error
            elif state == "live":
                subs.append(o)
                if kind == "behavior":
                    deliver(o, ["N", repr(value)])
                elif kind == "replay":
                    for v in buf:
                        deliver(o, ["N", repr(v)])
            else:
                if kind == "replay":
                    for v in buf:
                        deliver(o, ["N", repr(v)])
                if kind == "async" and term == ["C"] and has:
                    deliver(o, ["N", repr(value)])
                deliver(o, term)
        elif t == "unsub":
            dead.add(op[1])
            if op[1] in subs:
                subs.remove(op[1])
        elif t == "d":
            state, subs = "disposed", []
        elif state == "disposed":
            exc = DISPOSED
        elif state == "term":
            pass
        elif t == "n":
            value, has = op[1], True
            buf.append(op[1])
            if buffer_size is not None:
                buf = buf[len(buf) - buffer_size:] if buffer_size else []
            if kind != "async":
                for o in list(subs):
                    deliver(o, ["N", repr(op[1])])
        elif t in "ce":
            state, term = "term", (["C"] if t == "c" else ["E", op[1]])
            for o in list(subs):
                if kind == "async" and t == "c" and has:
                    deliver(o, ["N", repr(value)])
                deliver(o, term)
            subs = []
        else:
            raise AssertionError(op)
        raised.append(exc)
    return got, raised


# --------------------------------------------------------------------------
# instrumented lock
# --------------------------------------------------------------------------

class Hang(BaseException):
    pass


class HookLock:
    """proxy around the subject's RLock.  While `armed`, the acquire/release calls of thread `a_ident`
    are counted as events; at point `k` the hook lets thread B run (see module docstring)."""

    def __init__(self, inner):
        self.inner = inner
        self.a_ident = None
        self.armed = False
        self.k = None
        self.events = 0
        self.depth_a = 0
        self.fired = False
        self.trail = []
        self.go = threading.Event()
        self.progress = threading.Event()     # set when B is done or blocked
        self.b_done = False
        self.b_blocked = False
        self.b_waited = False

    # -- thread A side --
    def point(self, p):
        if self.armed and not self.fired and self.k == p:
            self.fired = True
            self.trail.append(("inject", p, "A holds the lock" if self.depth_a else "lock free"))
            self.go.set()
            if not self.progress.wait(TIMEOUT):
                raise Hang("thread B neither finished nor blocked")
            if self.b_blocked and not self.b_done:
                self.trail.append(("B blocked on the lock",))

    def _after_full_release(self):
        if self.fired and self.b_blocked and not self.b_waited:
            self.b_waited = True
            t0 = time.time()
            while not self.b_done:
                if time.time() - t0 > TIMEOUT:
                    raise Hang("thread B did not finish after A released the lock")
                time.sleep(0.0002)
            self.trail.append(("B ran after A's release",))

    def acquire(self, blocking=True, timeout=-1):
        me = threading.get_ident()
        if me == self.a_ident and self.armed:
            self.events += 1
            i = self.events
            self.trail.append(("acquire", i))
            self.point(2 * i - 1)
            ok = self.inner.acquire(blocking, timeout)
            if ok:
                self.depth_a += 1
            self.point(2 * i)
            return ok
        if me != self.a_ident and self.armed and self.depth_a > 0 and not self.b_done:
            self.b_blocked = True
            self.progress.set()
        return self.inner.acquire(blocking, timeout)

    def release(self):
        me = threading.get_ident()
        if me == self.a_ident and self.armed:
            self.events += 1
            i = self.events
            self.trail.append(("release", i))
            self.point(2 * i - 1)
            self.depth_a -= 1
            full = self.depth_a == 0
            self.inner.release()
            if full:
                self._after_full_release()
            self.point(2 * i)
            return
        self.inner.release()

    def __enter__(self):
        self.acquire()
        return self

    def __exit__(self, *exc):
        self.release()

    def _is_owned(self):
        return self.inner._is_owned()


# --------------------------------------------------------------------------
# driver
# --------------------------------------------------------------------------

class Obs:
    def __init__(self, o, log):
        self.o, self.log = o, log

    def on_next(self, v):
        self.log.append((self.o, ["N", repr(v)], threading.current_thread().name))

    def on_error(self, e):
        self.log.append((self.o, ["E", err_name(e)], threading.current_thread().name))

    def on_completed(self):
        self.log.append((self.o, ["C"], threading.current_thread().name))


def err_name(e):
    code = getattr(e, "code", None)
    return code if isinstance(code, int) else type(e).__name__


def make_subject(kind, v0, buffer_size=None):
    import reactivex.subject as S
    if kind == "subject":
        return S.Subject()
    if kind == "behavior":
        return S.BehaviorSubject(v0)
    if kind == "async":
        return S.AsyncSubject()
    if kind == "replay":
        return S.ReplaySubject(buffer_size)
    raise AssertionError(kind)


class World:
    def __init__(self, scn):
        self.scn = scn
        self.subject = make_subject(scn["kind"], scn.get("v0"), scn.get("buffer_size"))
        self.log = []
        self.disp = {}

    def do(self, op):
        """-> name of the exception that escaped, or None"""
        import subj
        s, t = self.subject, op[0]
        try:
            if t == "sub":
                self.disp[op[1]] = s.subscribe(Obs(op[1], self.log))
            elif t == "unsub":
                self.disp[op[1]].dispose()
            elif t == "n":
                s.on_next(op[1])
            elif t == "c":
                s.on_completed()
            elif t == "e":
                s.on_error(subj.make_error(op[1]))
            elif t == "d":
                s.dispose()
            else:
                raise AssertionError(op)
        except Hang:
            raise
        except BaseException as ex:      # noqa: anything escaping becomes part of the outcome
            if type(ex).__name__ == "Budget":
                raise
            return type(ex).__name__
        return None

    def views(self, observers):
        got = {o: [] for o in observers}
        for o, n, _ in list(self.log):
            got.setdefault(o, []).append(n)
        return got


def observers_of(scn):
    ops = scn["pre"] + [scn["a"]] + scn["post"]
    return [op[1] for op in ops if op[0] == "sub"]


def run_seq(scn, order):
    """the real class, one thread, A before B ('AB') or B before A ('BA')"""
    w = World(scn)
    mid = [scn["a"], scn["b"]] if order == "AB" else [scn["b"], scn["a"]]
    raised = [w.do(op) for op in scn["pre"] + mid + scn["post"]]
    return w.views(observers_of(scn)), raised


def run_race(scn, k):
    """k=None: dry run (B never runs) -> number of lock events of A's operation.
    Otherwise -> dict(views, raised_pre, raised_a, raised_b, raised_post, events, trail, problem)"""
    w = World(scn)
    out = {"problem": None}
    out["raised_pre"] = [w.do(op) for op in scn["pre"]]
    hl = HookLock(w.subject.lock)
    w.subject.lock = hl
    hl.a_ident = threading.get_ident()
    hl.k = k
    res_b = []

    def b_main():
        if not hl.go.wait(TIMEOUT * 3):
            return
        try:
            res_b.append(w.do(scn["b"]))
        except BaseException as ex:      # noqa
            res_b.append(type(ex).__name__)
        finally:
            hl.b_done = True
            hl.progress.set()

    tb = None
    if k is not None:
        tb = threading.Thread(target=b_main, name="B", daemon=True)
        tb.start()
    hl.armed = True
    try:
        hl.point(0)
        out["raised_a"] = w.do(scn["a"])
        hl._after_full_release()
    except Hang as h:
        out["problem"] = "hang: " + str(h)
        out["raised_a"] = "Hang"
    finally:
        hl.armed = False
    out["events"] = hl.events
    out["trail"] = [list(t) for t in hl.trail]
    if k is None:
        return out
    if not hl.fired:
        hl.go.set()          # point beyond the events of this run: B after A (still a legal order)
        out["trail"].append(["point not reached; B ran after A"])
    tb.join(TIMEOUT)
    if tb.is_alive() and out["problem"] is None:
        out["problem"] = "hang: thread B did not finish"
    out["raised_b"] = res_b[0] if res_b else "Hang"
    if out["problem"] is None:
        w.subject.lock = hl.inner
        out["raised_post"] = [w.do(op) for op in scn["post"]]
    else:
        out["raised_post"] = []
    out["views"] = w.views(observers_of(scn))
    out["threads"] = [[o, n, th] for o, n, th in list(w.log)]
    return out


def guarded(fn, *a):
    st, r = lib.with_timeout(TIMEOUT * 2, fn, *a)
    return r if st == "ok" else {"problem": "hang: run exceeded its budget", "views": {}, "events": 0,
                                 "trail": [], "raised_a": "Hang", "raised_b": "Hang", "raised_pre": [],
                                 "raised_post": []}


# --------------------------------------------------------------------------
# oracle
# --------------------------------------------------------------------------

def expectations(scn):
    exp = {}
    for order in ("AB", "BA"):
        mid = [scn["a"], scn["b"]] if order == "AB" else [scn["b"], scn["a"]]
        got, raised = ref_run(scn["kind"], scn.get("v0"), scn["pre"] + mid + scn["post"], scn.get("buffer_size"))
        got = {o: got.get(o, []) for o in observers_of(scn)}
        np_ = len(scn["pre"])
        ra, rb = (raised[np_], raised[np_ + 1]) if order == "AB" else (raised[np_ + 1], raised[np_])
        exp[order] = {"views": got, "raised_pre": raised[:np_], "raised_a": ra, "raised_b": rb,
                      "raised_post": raised[np_ + 2:]}
    return exp


KEYS = ("views", "raised_pre", "raised_a", "raised_b", "raised_post")


def same(out, e):
    return all(_norm(out.get(k)) == _norm(e[k]) for k in KEYS)


def _norm(x):
    if isinstance(x, dict):
        return {str(k): _norm(v) for k, v in x.items()}
    if isinstance(x, (list, tuple)):
        return [_norm(v) for v in x]
    return x


def classify(scn, out, exp):
    """short reason used in the signature"""
    if out.get("problem"):
        return "hang"
    for k in ("raised_a", "raised_b"):
        if out.get(k) not in (None, DISPOSED):
            return "escaped-" + str(out.get(k))
    tgt = scn["a"][1]
    mine = _norm(out["views"].get(tgt, []))
    alts = [_norm(exp[o]["views"].get(tgt, [])) for o in exp]
    if mine not in alts:
        if any(sorted(map(repr, mine)) == sorted(map(repr, a)) for a in alts):
            return "reordered"
        if not mine and all(alts):
            return "nothing-delivered"
        if any(len(mine) < len(a) and _subseq(mine, a) for a in alts):
            return "notification-missing"
        return "wrong-notifications"
    return "other-observer-or-exception"


def _subseq(a, b):
    it = iter(b)
    return all(x in it for x in a)


def judge(scn, k):
    out = guarded(run_race, scn, k)
    exp = expectations(scn)
    if out.get("problem") is None and any(same(out, exp[o]) for o in exp):
        return None, out, exp
    return classify(scn, out, exp), out, exp


def judge_seq(scn):
    """the sequential orders on the real class against the reference"""
    bad = []
    exp = expectations(scn)
    for order in ("AB", "BA"):
        st, r = lib.with_timeout(TIMEOUT * 2, run_seq, scn, order)
        if st != "ok":
            bad.append((order, "hang", None))
            continue
        views, raised = r
        np_ = len(scn["pre"])
        ra, rb = (raised[np_], raised[np_ + 1]) if order == "AB" else (raised[np_ + 1], raised[np_])
        out = {"views": views, "raised_pre": raised[:np_], "raised_a": ra, "raised_b": rb,
               "raised_post": raised[np_ + 2:]}
        if not same(out, exp[order]):
            bad.append((order, out, exp[order]))
    return bad


# --------------------------------------------------------------------------
# scenarios
# --------------------------------------------------------------------------

FALSY = [None, 0, False, "", 0.0]


def scenarios(kind, tier, rng):
    """structure exhaustive over a small catalogue, values drawn from a pool headed by falsy ones"""
    def val():
        return rng.choice(FALSY + [1, 2, 3, "x", -7])

    def distinct(n):
        vs = []
        while len(vs) < n:
            v = val()
            if all(repr(v) != repr(u) for u in vs):
                vs.append(v)
        return vs

    pres_sub = [[], ["n"], ["s0"], ["s0", "n"], ["n", "n"], ["n", "c"], ["c"], ["e"], ["s0", "n", "e"]]
    pres_unsub = [["sA"], ["n", "sA"], ["s0", "sA", "n"]]
    bs = [["n"], ["c"], ["e", 11], ["e", 13], ["d"]]
    posts = [[], ["n", "c"], ["c"], ["sL"], ["n", "sL", "e"]]
    if tier != "quick":
        pres_sub += [["s0", "n", "n"], ["n", "d"], ["s0", "c"], ["n", "n", "n"]]
        pres_unsub += [["sA", "n", "n"], ["s0", "n", "sA"]]
        posts += [["n", "n"], ["d", "sL"], ["e", "sL"]]
    reps = 1 if tier == "quick" else 3
    out = []
    for _ in range(reps):
        for a_kind, pres in (("sub", pres_sub), ("unsub", pres_unsub)):
            for pre in pres:
                for b in bs:
                    for post in posts:
                        vs = distinct(8)
                        it = iter(vs[1:])

                        def conc(toks):
                            r = []
                            for t in toks:
                                if t == "n":
                                    r.append(["n", next(it)])
                                elif t == "c":
                                    r.append(["c"])
                                elif t == "e":
                                    r.append(["e", 12])
                                elif t == "d":
                                    r.append(["d"])
                                elif t == "s0":
                                    r.append(["sub", 0])
                                elif t == "sA":
                                    r.append(["sub", 1])
                                elif t == "sL":
                                    r.append(["sub", 2])
                            return r
                        scn = {"kind": kind, "v0": vs[0] if kind == "behavior" else None,
                               "pre": conc(pre), "a": [a_kind, 1],
                               "b": (["n", next(it)] if b == ["n"] else list(b)), "post": conc(post)}
                        if kind == "replay":
                            scn["buffer_size"] = rng.choice([None, None, 0, 1, 2])
                        out.append(scn)
    return out


def size_of(scn, k):
    return 4 * (len(scn["pre"]) + len(scn["post"])) + (k or 0)


# --------------------------------------------------------------------------
# family
# --------------------------------------------------------------------------

def family(chk, pid, kind):
    t0 = time.time()
    H = {"scenarios": 0, "runs": 0, "sequential_runs": 0, "points_per_A_operation": {}, "B_blocked_on_A": 0,
         "B_ran_inside_A": 0, "race_observable (the two orders differ)": 0, "outcome_AB": 0, "outcome_BA": 0,
         "by_pair": {}, "violations": 0}
    samples = []
    hangs = 0
    for scn in scenarios(kind, chk.tier, chk.rng):
        if hangs >= 3:                      # a library that hangs: three records are enough, do not burn the budget
            H["aborted_after_hangs"] = hangs
            break
        H["scenarios"] += 1
        for order, out, exp in judge_seq(scn):
            H["violations"] += 1
            hangs += out == "hang"
            chk.violation(f"subj_conc:{kind}:sequential-{order}-differs-from-reference:{scn['a'][0]}-vs-{scn['b'][0]}",
                          {"family": "subj_conc", "mode": "seq", "scenario": scn, "order": order,
                           "implementation": out, "reference": exp}, size=size_of(scn, 0))
        H["sequential_runs"] += 2
        dry = guarded(run_race, scn, None)
        P = dry.get("events", 0)
        key = f"{scn['a'][0]}:{P}"
        H["points_per_A_operation"][key] = H["points_per_A_operation"].get(key, 0) + 1
        exp = expectations(scn)
        differ = not all(_norm(exp["AB"][k]) == _norm(exp["BA"][k]) for k in KEYS)
        for k in range(0, 2 * P + 1):
            if hangs >= 3:
                break
            why, out, exp = judge(scn, k)
            H["runs"] += 1
            pair = f"{scn['a'][0]}-vs-{scn['b'][0]}"
            H["by_pair"][pair] = H["by_pair"].get(pair, 0) + 1
            if k > 0:
                H["B_ran_inside_A"] += 1
            if any(t and t[0] == "B blocked on the lock" for t in out.get("trail", [])):
                H["B_blocked_on_A"] += 1
            if differ:
                H["race_observable (the two orders differ)"] += 1
            if why is None:
                if same(out, exp["AB"]):
                    H["outcome_AB"] += 1
                else:
                    H["outcome_BA"] += 1
                if differ and k > 0 and len(samples) < 2:
                    samples.append({"subj_conc": scn, "point": k, "trail": out["trail"], "views": out["views"]})
                continue
            H["violations"] += 1
            hangs += why == "hang"
            chk.violation(f"subj_conc:{kind}:{pair}:{why}",
                          {"family": "subj_conc", "mode": "race", "scenario": scn, "point": k,
                           "lock_events_of_A": P, "trail": out.get("trail"), "problem": out.get("problem"),
                           "implementation": {kk: out.get(kk) for kk in KEYS},
                           "deliveries_with_thread": out.get("threads"),
                           "allowed_outcomes": exp}, size=size_of(scn, k))
    H["wall_s"] = round(time.time() - t0, 2)
    chk.cov["subj_conc"] = H
    chk.cov["evaluations"] = chk.cov.get("evaluations", 0) + H["runs"] + H["sequential_runs"]
    chk.cov["rule"] = (chk.cov.get("rule", "") +
                       "  TWO-THREAD family `subj_conc` (oracle-only): thread A subscribes a new observer or "
                       "unsubscribes one, thread B makes one complete on_next/on_completed/on_error(11, falsy 13)/"
                       "dispose call; subject.lock is wrapped by a proxy and B is released at every point of A's "
                       "operation: before it starts, and just before / just after each of A's acquire and release "
                       "calls on subject.lock (B blocks while A holds the lock and runs right after A's release); "
                       "all points of every scenario of the catalogue (setups: nothing / values / another "
                       "subscriber / terminated; continuations: nothing / value+completion / completion / late "
                       "subscriber) are enumerated, values from a pool headed by None, 0, False, '', 0.0.  Every "
                       "run must show exactly the outcome of [A; B] or of [B; A] according to an independent "
                       "reference written from the statements; the two sequential orders are also run without "
                       "threads against that reference.")
    chk.add_samples(samples, limit=8)
    return H


def replay(chk, pid, d, path):
    import json
    scn = d["scenario"]
    print("scenario", json.dumps(scn))
    if d.get("mode") == "seq":
        bad = judge_seq(scn)
        for order, out, exp in bad:
            print("order", order, "implementation", out, "reference", exp)
    else:
        why, out, exp = judge(scn, d["point"])
        print("point", d["point"], "trail", out.get("trail"))
        print("implementation   ", {k: out.get(k) for k in KEYS}, out.get("problem") or "")
        print("allowed [A; B]   ", exp["AB"])
        print("allowed [B; A]   ", exp["BA"])
        bad = why is not None
        if bad:
            print("ORACLE FAILS", why)
    if bad:
        print(f"VIOLATION property={pid} replay={path}")
    return 1 if bad else 0


def install(chk, pid, kind):
    """make chk.finish run the family first (the shared check_sync of harness/subj.py calls finish itself)"""
    orig = chk.finish

    def finish(level="proof", trusted_extra=(), assumptions=()):
        chk.finish = orig
        try:
            family(chk, pid, kind)
        except BaseException as ex:          # noqa: the family must never crash the check
            import traceback
            chk.violation(f"subj_conc:{kind}:driver-crash:{type(ex).__name__}",
                          {"family": "subj_conc", "mode": "crash", "traceback": traceback.format_exc()[-3000:]})
        return orig(level=level,
                    trusted_extra=list(trusted_extra) + [
                        "two-thread driver harness/subj_conc.py (lock proxy HookLock around subject.lock, "
                        "hand-over between the two threads by events; reference ref_run written from the statements)"],
                    assumptions=[("two-thread family: only thread A's operation (subscribe / unsubscribe) is cut, "
                                  "and only at its acquire/release calls on subject.lock; thread B's call runs as a "
                                  "whole (or waits for A's release); other locks (InnerSubscription, AutoDetachObserver) "
                                  "are not instrumented; everything else is single-threaded") if a.startswith("single thread") else a
                                 for a in assumptions])
    chk.finish = finish
