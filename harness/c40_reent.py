"""C40, oracle-only family `reentrant`: the finalizer / callback itself acts on the pipeline it belongs to.

Every other C40 family uses passive spies (they log and, at most, raise).  Here the spy -- using's
resource.dispose(), the finally_action / do_finally action, the do_on_dispose / do_on_terminate /
do_after_terminate callback, one of do_action's three callbacks -- runs a small HOOK PROGRAM when it is
invoked: its k-th invocation executes the k-th op list of the scenario (none afterwards, so the
re-entrancy is bounded whatever the library does):

    ['N', v] | ['C'] | ['E', code]   feed a notification / terminal back into the source
    ['stop']                          push into the `other` of a take_until mounted under the operator
    ['disp', i]                       dispose subscription i (usually the one the spy belongs to)
    ['sub']                           subscribe once more to the SAME built observable

The operator is mounted on one of three sources: a real Subject, the same Subject under take_until(stop),
or a raw hand-driven Observable.create-style source without any guard of its own (it may deliver a cold
prefix inside subscribe() and may be deaf to dispose).  A scenario is a list of top-level steps
(['sub'] | ['N', v] | ['C'] | ['E', code] | ['stop'] | ['disp', i]); every pushed value / error code is
used once, so a notification is identified by its payload.

Oracle, read off the property statement (never consults the Coq model).  A subscription has STOPPED once
its subscriber received a terminal notification or dispose() was called on its handle, whichever is first.

 (once)   using / finally_action / do_finally / do_on_dispose: after EVERY top-level step the number of
          finalizer runs so far equals the number of subscriptions stopped so far (so: exactly once per
          subscription, in the very step that stops it, never again however the finalizer is re-entered);
          the k-th run comes after the k-th stop in the chronological log (not before termination /
          disposal).  using's resources are numbered: each subscribe() call creates exactly one, and each
          resource's dispose() is CALLED exactly once (the spy resource is not idempotent itself).
 (term)   do_on_terminate / do_after_terminate: the callback ran at least once for every subscriber that
          received a terminal notification, never more often than there are subscriptions whose source
          pushed a terminal at all, and not at all if no terminal was ever pushed.
 (do)     do_action (all three callbacks present): a delivered notification was observed by the matching
          callback -- observed(x) >= delivered(x) for every payload x, observed(x) <= number of
          subscriptions; with a single subscription: observed exactly once, and an observed notification
          may stay undelivered only if a hook op that can stop the subscription (C / E / stop / disp) ran
          inside that very callback invocation (directly or nested).
 (seq)    every subscriber receives only payloads that were pushed, each at most once, at most one
          terminal and nothing after it; in a QUIET step (no hook op ran) each subscription that was live
          receives exactly the pushed notification and every other one nothing.
 (escape) hooks never raise, so nothing may escape from the library into the driver (exception,
          recursion error, hang under lib.with_timeout): any of these is a violation record.

Order of delivery is NOT judged inside a step in which a hook ran (a notification fed back from inside a
callback legitimately overtakes the one being processed)."""
from __future__ import annotations

import json

import lib

OPS = ("using", "finally_action", "do_finally", "do_on_dispose", "do_on_terminate", "do_after_terminate", "do_action")
FINALIZERS = ("using", "finally_action", "do_finally", "do_on_dispose")
SOURCES = ("subject", "take_until", "raw")
STOPPERS = ("C", "E", "stop", "disp")
MAX_SUBS = 6
BUDGET_S = 5.0


class HookError(Exception):
    """never raised on purpose; only used for err payloads"""

    def __init__(self, code):
        super().__init__(code)
        self.code = code


def _payload(ev):
    return ["N", ev[1]] if ev[0] == "N" else (["E", ev[1]] if ev[0] == "E" else ["C"])


class Run:
    """one execution of a scenario; everything observable goes into self.log as
    [step, kind, a, b]: kind in emit(a=sub, b=payload) | stop(a=sub, b=cause) | fin(a=resource or None) |
    created(a=resource) | obs(a=payload) | hook(a=invocation number, b=ops) | up-sub / up-unsub (a=record)"""

    def __init__(self, sc):
        lib.import_repo()
        self.sc = sc
        self.log = []
        self.step = 0
        self.handles = []           # per downstream subscription: handle or None
        self.stopped = []           # per downstream subscription: log index of its stop or None
        self.term_pushed = []       # per downstream subscription: its source pushed a terminal (even if undelivered)
        self.received = []          # per downstream subscription: payloads
        self.hook_calls = 0
        self.frames = []            # open spy-callback frames: [payload, marked]
        self.observed = []          # (payload, marked) per closed do_action callback frame
        self.escapes = []
        self.effective_hook_in_step = False
        self.n_res = 0
        self.res_calls = {}
        self.fin_steps = []         # step of each finalizer run
        self.term_cb = 0
        self.any_terminal = False
        self.done_ev = None         # subject / take_until: the terminal the shared subject ended with
        self.records = []           # raw source: [observer, live, sub index]
        self._build()

    # ---- the source ---------------------------------------------------------------
    def _build(self):
        import reactivex as rx
        from reactivex import operators as ops
        from reactivex.disposable import Disposable
        from reactivex.operators import _do
        from reactivex.subject import Subject
        sc, kind = self.sc, self.sc["source"]
        self.subject = self.stopper = None
        if kind in ("subject", "take_until"):
            self.subject = Subject()
            src = self.subject
            if kind == "take_until":
                self.stopper = Subject()
                src = self.subject.pipe(ops.take_until(self.stopper))
        else:
            pres = sc.get("pre") or []

            def subscribe(observer, scheduler=None):
                j = len(self.records)
                rec = [observer, True]
                self.records.append(rec)
                self.log.append([self.step, "up-sub", j, None])
                for ev in (pres[j] if j < len(pres) else []):
                    if ev[0] in "CE":
                        self._mark_terminal_for([j])
                    self._deliver(observer, ev)

                def dispose():
                    if rec[1]:
                        rec[1] = False
                        self.log.append([self.step, "up-unsub", j, None])
                return Disposable(dispose)
            src = rx.Observable(subscribe)
        op, where = sc["op"], sc.get("where", "next")

        def finalizer():
            self.log.append([self.step, "fin", None, None])
            self.fin_steps.append(self.step)
            self._hook()

        def term_cb():
            self.term_cb += 1
            self.log.append([self.step, "termcb", None, None])
            self._hook()

        def spy(kind_):
            def cb(*a):
                p = ["N", a[0]] if kind_ == "next" else (["E", getattr(a[0], "code", repr(a[0]))] if kind_ == "error" else ["C"])
                self.log.append([self.step, "obs", p, None])
                fr = [p, False]
                self.frames.append(fr)
                try:
                    if kind_ == where:
                        self._hook()
                finally:
                    self.frames.pop()
                    self.observed.append((p, fr[1]))
            return cb

        if op == "using":
            run = self

            class Resource:
                """counts dispose() CALLS: not idempotent on purpose"""

                def __init__(self):
                    self.rid = run.n_res
                    run.n_res += 1
                    run.res_calls[self.rid] = 0
                    run.log.append([run.step, "created", self.rid, None])
                    self.falsy = bool(self.rid % 2 == 0)

                def __len__(self):          # half of the resources are falsy, like an empty disposable bag
                    return 0 if self.falsy else 1

                def dispose(self):
                    run.res_calls[self.rid] += 1
                    run.log.append([run.step, "fin", self.rid, None])
                    run.fin_steps.append(run.step)
                    run._hook()
            self.obs = rx.using(Resource, lambda r: src)
        elif op == "finally_action":
            self.obs = src.pipe(ops.finally_action(finalizer))
        elif op == "do_finally":
            self.obs = _do.do_finally(finalizer)(src)
        elif op == "do_on_dispose":
            self.obs = _do.do_on_dispose(src, finalizer)
        elif op == "do_on_terminate":
            self.obs = _do.do_on_terminate(src, term_cb)
        elif op == "do_after_terminate":
            self.obs = _do.do_after_terminate(src, term_cb)
        else:
            self.obs = src.pipe(ops.do_action(spy("next"), spy("error"), spy("completed")))

    @staticmethod
    def _deliver(o, ev):
        if ev[0] == "N":
            o.on_next(ev[1])
        elif ev[0] == "E":
            o.on_error(HookError(ev[1]))
        else:
            o.on_completed()

    def _mark_terminal_for(self, subs):
        self.any_terminal = True
        for i in subs:
            while len(self.term_pushed) <= i:
                self.term_pushed.append(False)
            self.term_pushed[i] = True

    # ---- the ops (top level and hook) -----------------------------------------------
    def _mark_frames(self):
        for fr in self.frames:
            fr[1] = True

    def do_op(self, op):
        k = op[0]
        if k == "sub":
            self._subscribe()
        elif k == "disp":
            i = op[1]
            if i < len(self.handles) and self.handles[i] is not None:
                self._mark_frames()
                if self.stopped[i] is None:
                    self.stopped[i] = len(self.log)
                    self.log.append([self.step, "stop", i, "dispose"])
                self.handles[i].dispose()
        elif k == "stop":
            if self.stopper is not None:
                # ends the take_until subscriptions existing now; a later subscription starts afresh (the
                # stopper itself is still live)
                self._mark_frames()
                self._mark_terminal_for(range(len(self.handles)))
                self.stopper.on_next(0)
        else:
            if k in "CE":
                self._mark_frames()
            if self.subject is not None:
                if k in "CE":
                    if self.done_ev is None:
                        self.done_ev = _payload(op)
                    self._mark_terminal_for(range(len(self.handles)))
                self._deliver(self.subject, op)
            else:
                deaf = bool(self.sc.get("deaf"))
                for j, rec in enumerate(list(self.records)):
                    if rec[1] or deaf:
                        if k in "CE":
                            self._mark_terminal_for([j])
                        self._deliver(rec[0], op)

    def _subscribe(self):
        if len(self.handles) >= MAX_SUBS:
            return
        i = len(self.handles)
        self.handles.append(None)
        self.stopped.append(None)
        self.received.append([])
        while len(self.term_pushed) <= i:
            self.term_pushed.append(False)
        if self.subject is not None and self.done_ev is not None:
            self._mark_terminal_for([i])

        def emit(p):
            self.received[i].append(p)
            self.log.append([self.step, "emit", i, p])
            if p[0] in "CE" and self.stopped[i] is None:
                self.stopped[i] = len(self.log)
                self.log.append([self.step, "stop", i, "terminal"])
        h = self.obs.subscribe(lambda v: emit(["N", v]), lambda e: emit(["E", getattr(e, "code", repr(e))]),
                               lambda: emit(["C"]))
        self.handles[i] = h

    def _hook(self):
        k = self.hook_calls
        self.hook_calls += 1
        prog = self.sc.get("hook") or []
        ops_ = prog[k] if k < len(prog) else []
        self.log.append([self.step, "hook", k, ops_])
        for op in ops_:
            self.effective_hook_in_step = True
            self.do_op(op)

    # ---- driver ------------------------------------------------------------------------
    def execute(self):
        """-> per top-level step: dict(fin, stopped, quiet, live_before, received_before)"""
        marks = []
        for k, st in enumerate(self.sc["steps"]):
            self.step = k + 1
            self.effective_hook_in_step = False
            live = [i for i in range(len(self.handles))
                    if self.stopped[i] is None and not self.term_pushed[i]]
            before = [len(r) for r in self.received]
            status, _ = lib.with_timeout(BUDGET_S, self._guarded, st)
            if status == "timeout":
                self.escapes.append([self.step, "HANG: step did not return within %.0f s" % BUDGET_S])
            marks.append({"fin": len(self.fin_steps), "stopped": sum(s is not None for s in self.stopped),
                          "quiet": not self.effective_hook_in_step, "live_before": live, "received_before": before,
                          "received_after": [len(r) for r in self.received]})
            if status == "timeout":
                break
        return marks

    def _guarded(self, st):
        try:
            self.do_op(st)
        except Exception as e:      # RecursionError included; the watchdog's Budget is a BaseException
            self.escapes.append([self.step, type(e).__name__ + ": " + str(e)[:120]])


def pushed_payloads(sc):
    out = []
    for ev in list(sc["steps"]) + [o for ops_ in (sc.get("hook") or []) for o in ops_] + \
            [e for pre in (sc.get("pre") or []) for e in pre]:
        if ev[0] in ("N", "E", "C"):
            out.append(_payload(ev))
    if sc["source"] == "take_until":
        out.append(["C"])
    return out


def key(p):
    return json.dumps(p)


def oracle(sc, run, marks):
    """-> None or a sentence"""
    op, log = sc["op"], run.log
    n = len(run.handles)
    if run.escapes:
        return f"escaped from the library into the driver although no callback raises: {run.escapes[0][1]} (step {run.escapes[0][0]})"
    # (seq) grammar / no invention
    pushed = {key(p) for p in pushed_payloads(sc)}
    for i, rec in enumerate(run.received):
        seen = set()
        for idx, p in enumerate(rec):
            if key(p) not in pushed:
                return f"subscriber {i + 1} received {p}, which the source never pushed"
            if p[0] != "C" and key(p) in seen:
                return f"subscriber {i + 1} received {p} twice (pushed once)"
            seen.add(key(p))
            if p[0] in "CE" and idx != len(rec) - 1:
                return f"subscriber {i + 1} received {rec[idx + 1]} after the terminal {p}"
    # (seq) quiet steps are the identity
    for k, (st, m) in enumerate(zip(sc["steps"], marks)):
        if not m["quiet"] or st[0] not in ("N", "C", "E", "stop") or (st[0] == "stop" and sc["source"] != "take_until"):
            continue
        for i in range(len(m["received_before"])):
            got = run.received[i][m["received_before"][i]:m["received_after"][i]]
            want = [["C"] if st[0] == "stop" else _payload(st)] if i in m["live_before"] else []
            if got != want:
                return (f"step {k + 1} pushed {st} with no hook involved: subscriber {i + 1} "
                        f"({'live' if want else 'stopped'}) received {got}, expected {want}")
    if op in FINALIZERS:
        for k, m in enumerate(marks):
            if m["fin"] != m["stopped"]:
                prev = marks[k - 1] if k else {"fin": 0, "stopped": 0}
                return (f"the {op} finalizer ran {'MORE' if m['fin'] > m['stopped'] else 'LESS'} often than subscriptions "
                        f"stopped: after step {k + 1} {sc['steps'][k]} it had run {m['fin']} time(s) for "
                        f"{m['stopped']} stopped subscription(s) (before the step: {prev['fin']} for {prev['stopped']})")
        fins = [idx for idx, e in enumerate(log) if e[1] == "fin"]
        stops = [idx for idx, e in enumerate(log) if e[1] == "stop"]
        for a, b in zip(fins, stops):
            if a < b:
                return f"a {op} finalizer run (log entry {a}) precedes the stop it belongs to (log entry {b})"
        if op == "using":
            if run.n_res != n:
                return f"{run.n_res} resources were created for {n} subscribe() calls"
            for rid, c in sorted(run.res_calls.items()):
                want = 1 if run.stopped[rid] is not None else 0
                if c != want:
                    return (f"dispose() of the resource of subscription {rid + 1} was called {c} time(s), expected {want} "
                            f"(that subscription {'stopped' if want else 'is still running'})")
    elif op in ("do_on_terminate", "do_after_terminate"):
        deliv = sum(1 for r in run.received if r and r[-1][0] in "CE")
        tmax = sum(1 for i in range(n) if run.term_pushed[i]) if run.any_terminal else 0
        if not (deliv <= run.term_cb <= tmax):
            return (f"the {op} callback ran {run.term_cb} time(s); subscribers that received a terminal: {deliv}, "
                    f"subscriptions whose source pushed a terminal: {tmax}")
    else:
        obs, dlv = {}, {}
        for p, _ in run.observed:
            obs[key(p)] = obs.get(key(p), 0) + 1
        for r in run.received:
            for p in r:
                dlv[key(p)] = dlv.get(key(p), 0) + 1
        for x, c in dlv.items():
            if obs.get(x, 0) < c:
                return f"{x} was delivered {c} time(s) but observed by the do_action callback {obs.get(x, 0)} time(s)"
        for x, c in obs.items():
            if c > max(n, 1):
                return f"the do_action callback observed {x} {c} times for {n} subscription(s)"
        if n == 1:
            for p, marked in run.observed:
                if obs[key(p)] != 1:
                    return f"the do_action callback observed {p} {obs[key(p)]} times (pushed once, one subscription)"
                if not dlv.get(key(p)) and not marked:
                    return (f"the do_action callback observed {p} but it was not delivered, and nothing inside that "
                            f"callback stopped the subscription")
    return None


def run_scenario(sc):
    run = Run(sc)
    marks = run.execute()
    return run, marks, oracle(sc, run, marks)


def signature(sc, what):
    w = "".join(ch for ch in what.split(":")[0][:80] if not ch.isdigit())
    return f"C40|{sc['op']}|reentrant|{w}"


def size(sc):
    return len(sc["steps"]) + sum(len(o) for o in (sc.get("hook") or [])) + sum(len(p) for p in (sc.get("pre") or []))


def shrink(sc, sig):
    """greedy: drop steps / hook ops / prefix events while the same signature still fails"""
    def fails(c):
        try:
            _, _, v = run_scenario(c)
        except Exception:
            return False
        return v is not None and signature(c, v) == sig
    cur = json.loads(json.dumps(sc))
    changed = True
    while changed:
        changed = False
        for path in ("steps", "hook", "pre"):
            seq = cur.get(path) or []
            for i in range(len(seq)):
                cand = json.loads(json.dumps(cur))
                if path == "steps":
                    if cand["steps"][i][0] == "sub" and sum(1 for s in cand["steps"] if s[0] == "sub") == 1:
                        continue
                    del cand["steps"][i]
                    # a ['disp', i] must still point at something: keep indices as they are (no-op if absent)
                    if fails(cand):
                        cur, changed = cand, True
                        break
                else:
                    for j in range(len(seq[i])):
                        cand = json.loads(json.dumps(cur))
                        del cand[path][i][j]
                        if fails(cand):
                            cur, changed = cand, True
                            break
                    if changed:
                        break
            if changed:
                break
    while cur.get("hook") and not cur["hook"][-1]:
        cur["hook"].pop()
    return cur


# ---- generation ----------------------------------------------------------------------------

class Fresh:
    def __init__(self):
        self.v, self.e = 0, 10

    def n(self):
        self.v += 1
        return ["N", self.v]

    def err(self):
        self.e += 1
        return ["E", self.e]


def gen_hook_ops(rng, fr, source, shape):
    """one op list; shape: the kind of re-entrance this scenario is about"""
    pool = {"terminate": [["C"], fr.err()] + ([["stop"]] if source == "take_until" else []),
            "feed": [fr.n()], "dispose": [["disp", 0]], "resubscribe": [["sub"]]}
    ops_ = [rng.choice(pool[shape])]
    if rng.random() < 0.35:
        other = rng.choice(["terminate", "feed", "dispose", "resubscribe"])
        extra = rng.choice({"terminate": [["C"], fr.err()] + ([["stop"]] if source == "take_until" else []),
                            "feed": [fr.n()], "dispose": [["disp", rng.choice([0, 0, 1])]],
                            "resubscribe": [["sub"]]}[other])
        ops_.insert(rng.randrange(2), extra)
    return ops_


def gen_scenario(rng, op, shape):
    fr = Fresh()
    source = rng.choice(SOURCES)
    sc = {"family": "reentrant", "op": op, "source": source, "shape": shape}
    if op == "do_action":
        sc["where"] = rng.choice(["next", "next", "error", "completed"])
    if source == "raw":
        sc["deaf"] = rng.random() < 0.3
        pres = []
        for _ in range(2):
            pre = []
            if rng.random() < 0.3:
                pre = [fr.n() for _ in range(rng.choice([0, 1, 2]))]
                r = rng.random()
                if r < 0.4:
                    pre.append(["C"])
                elif r < 0.6:
                    pre.append(fr.err())
            pres.append(pre)
        if any(pres):
            sc["pre"] = pres
    steps = [["sub"]]
    for _ in range(rng.choice([0, 1, 1, 2, 3])):
        steps.append(fr.n())
    # how the subscription is brought to its end from outside (if at all); the hook may do it as well
    end = rng.choice(["disp", "disp", "C", "E", "stop" if source == "take_until" else "disp", "none"])
    if end == "disp":
        steps.append(["disp", 0])
    elif end == "C":
        steps.append(["C"])
    elif end == "E":
        steps.append(fr.err())
    elif end == "stop":
        steps.append(["stop"])
    # afterwards: the world goes on (more pushes, a second dispose, a late terminal, a second subscription)
    for _ in range(rng.choice([0, 1, 2, 2, 3])):
        r = rng.random()
        steps.append(fr.n() if r < 0.35 else (["disp", rng.choice([0, 0, 1])] if r < 0.6 else
                                               (["C"] if r < 0.75 else (fr.err() if r < 0.85 else ["sub"]))))
    sc["steps"] = steps
    sc["hook"] = [gen_hook_ops(rng, fr, source, shape) for _ in range(rng.choice([1, 1, 2]))]
    if rng.random() < 0.25:
        sc["hook"].insert(rng.randrange(len(sc["hook"]) + 1), [])
    return sc


SHAPES = ("terminate", "feed", "dispose", "resubscribe")


def run_family(chk):
    """-> (histogram, set of non-trivial scenario keys); violations are reported (smallest per signature, shrunk)"""
    per = 40 if chk.tier == "quick" else 400
    if chk.broken:
        per = max(per, 400)
    rng = chk.rng
    hist = {"scenarios": 0, "per_operator": {}, "per_shape": {}, "per_source": {}, "hook_ran": 0,
            "hook_ran_effectively_more_than_once": 0, "hook_inside_subscribe": 0, "resubscribed_from_hook": 0,
            "stop_in_a_step_with_hook": 0, "cold_prefix": 0, "deaf": 0}
    worst, nontrivial = {}, set()
    for op in OPS:
        for shape in SHAPES:
            for _ in range(per):
                sc = gen_scenario(rng, op, shape)
                try:
                    run, marks, v = run_scenario(sc)
                except Exception as e:          # the driver itself must not crash the check
                    run, marks, v = None, None, f"escaped while building the scenario: {type(e).__name__}: {str(e)[:100]}"
                chk.cov["evaluations"] += 1
                hist["scenarios"] += 1
                for k_, v_ in (("per_operator", op), ("per_shape", shape), ("per_source", sc["source"])):
                    hist[k_][v_] = hist[k_].get(v_, 0) + 1
                hist["cold_prefix"] += bool(sc.get("pre"))
                hist["deaf"] += bool(sc.get("deaf"))
                if run is not None:
                    eff = [e for e in run.log if e[1] == "hook" and e[3]]
                    hist["hook_ran"] += bool(eff)
                    hist["hook_ran_effectively_more_than_once"] += len(eff) > 1
                    hist["hook_inside_subscribe"] += any(sc["steps"][e[0] - 1][0] == "sub" for e in eff)
                    hist["resubscribed_from_hook"] += len(run.handles) > sum(1 for s in sc["steps"] if s[0] == "sub")
                    hist["stop_in_a_step_with_hook"] += any(e[1] == "stop" and any(h[0] == e[0] for h in eff) for e in run.log)
                if v:
                    sig = signature(sc, v)
                    if sig not in worst or size(sc) < size(worst[sig][0]):
                        worst[sig] = (sc, v)
                elif run is not None and any(e[1] == "hook" and e[3] for e in run.log) and any(s is not None for s in run.stopped):
                    nontrivial.add(json.dumps(sc, sort_keys=True))
    for sig, (sc, v) in worst.items():
        small = shrink(sc, sig)
        try:
            _, _, v2 = run_scenario(small)
        except Exception:
            v2 = None
        if v2 is None:
            small, v2 = sc, v
        chk.violation(sig, {"reentrant": small, "what": v2}, size=size(small))
    return hist, nontrivial


def replay(d):
    """-> (still fails?, printable dict)"""
    sc = d["reentrant"]
    try:
        run, marks, v = run_scenario(sc)
        log = [[str(x) for x in e] for e in run.log]
    except Exception as e:
        v, log = f"escaped while building the scenario: {type(e).__name__}: {str(e)[:100]}", []
    return bool(v), {"scenario": sc, "log [step, kind, a, b]": log, "oracle": v or "holds"}
