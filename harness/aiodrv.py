"""Driver for C33: AsyncIOScheduler / AsyncIOThreadSafeScheduler on a REAL asyncio loop
(k3_time.CLoop: the unmodified asyncio.BaseEventLoop with a controlled selector and clock) under
the time-aware thread controller.

Logical thread 0 is the loop thread: it makes the calls of `pre`, then (once no dispose that found
the loop not running is in progress -- the assumption of the property) calls loop.run_forever().
If the loop is stopped (op ["stop"] = loop.stop(), made by an action, by the loop thread between two
runs or -- the same store -- by a foreign thread) run_forever() returns between two iterations of
_run_once with whatever is queued still queued; the loop thread then makes the calls of the next
element of `again` and (under the same condition) calls run_forever() again; when `again` is used up the
thread ends.  Threads 1.. are foreign threads.  A clock thread comes last.

A case: {"ts": bool, "t0": int, "pre": [op...], "again": [[op...]...], "progs": [[op...]...],
         "bodies": {"label": [op...]}, "ticks": [...], "own_loop": bool},
  op = ["now", a] | ["rel", d_us, a] | ["abs", t_us, a] | ["dispose", a] | ["stop"] | ["sleep", t_us]
  (rel: schedule_relative, d_us may be negative; abs: schedule_absolute(datetime of t_us on the controlled clock) --
   both classes compute `duetime - self.now` and call schedule_relative; `now` is the scheduler's wall clock
   (reactivex.scheduler.scheduler.default_now, rebound to the SAME controlled clock as loop.time()))
  own_loop: every foreign thread makes its dispose() calls with a running event loop OF ITS OWN set
   (asyncio.events._set_running_loop(other) ... (None)): asyncio.get_running_loop() then succeeds and
   _on_self_loop_or_not_running reaches its last line `return self._loop == current_loop` (False: marshalled)
  (sleep: the calling thread waits until the controlled clock shows t_us -- a busy callback when made by
   an action, "run again later" when made between two runs)
Log entries: (tid, clock_us, kind, label), kind in ret dispret dispnoop start end cberr stopped slept
(+ harness markers call / dispcall / runret)."""
from __future__ import annotations

import ast
import asyncio.base_events as BE
import asyncio.events as EV
import inspect
import os
import sys
from datetime import timedelta

import eldrv as E
import k3
import k3_time as kt
import lib

lib.import_repo()
import reactivex.scheduler.eventloop.asyncioscheduler as ASM  # noqa: E402
import reactivex.scheduler.eventloop.asynciothreadsafescheduler as ATM  # noqa: E402

BE_PATH = os.path.abspath(BE.__file__)
EV_PATH = os.path.abspath(EV.__file__)
ATM_PATH = os.path.abspath(ATM.__file__)
ASM_PATH = os.path.abspath(ASM.__file__)


# --------------------------------------------------------------------------
# yield lines (derived from the sources; fail-closed)
# --------------------------------------------------------------------------

def _fn_node(fn):
    src, start = inspect.getsourcelines(fn)
    import textwrap
    tree = ast.parse(textwrap.dedent("".join(src)))
    return tree.body[0], start


def run_once_lines():
    """line of `if handle._cancelled:` inside the for-loop of _run_once, and of the plain `handle._run()`"""
    node, start = _fn_node(BE.BaseEventLoop._run_once)
    fors = [n for n in node.body if isinstance(n, ast.For)]
    if len(fors) != 1:
        raise ValueError("asyncio _run_once: expected exactly one for-loop")
    f = fors[0]
    body = f.body
    if not (len(body) == 3 and ast.unparse(body[0]) == "handle = self._ready.popleft()"
            and isinstance(body[1], ast.If) and ast.unparse(body[1].test) == "handle._cancelled"
            and isinstance(body[2], ast.If) and ast.unparse(body[2].test) == "self._debug"):
        raise ValueError("asyncio _run_once: the dispatch loop has an unexpected shape")
    run = body[2].orelse
    if not (len(run) == 1 and ast.unparse(run[0]) == "handle._run()"):
        raise ValueError("asyncio _run_once: unexpected non-debug branch")
    return start + body[1].lineno - 1, start + run[0].lineno - 1


def call_at_return_line():
    node, start = _fn_node(BE.BaseEventLoop.call_at)
    last = node.body[-1]
    if not (isinstance(last, ast.Return) and ast.unparse(last) == "return timer"):
        raise ValueError("asyncio call_at: unexpected end")
    return start + last.lineno - 1


def second_pop_line():
    """the second `handle.pop().cancel()` of do_cancel_handles"""
    tree = ast.parse(open(ATM_PATH).read())
    lines = []
    for n in ast.walk(tree):
        if isinstance(n, ast.FunctionDef) and n.name == "do_cancel_handles":
            for st in ast.walk(n):
                if isinstance(st, ast.Expr) and ast.unparse(st) == "handle.pop().cancel()":
                    lines.append(st.lineno)
    if len(lines) != 2:
        raise ValueError("do_cancel_handles: expected two `handle.pop().cancel()` statements")
    return max(lines)


def handle_shape_check():
    """the facts about asyncio.Handle the model relies on"""
    diffs = []
    src = inspect.getsource(EV.Handle.cancel)
    for needle in ("self._cancelled = True", "self._callback = None", "self._args = None"):
        if needle not in src:
            diffs.append(f"Handle.cancel no longer contains `{needle}`")
    src = inspect.getsource(EV.Handle._run)
    if "self._context.run(self._callback, *self._args)" not in src:
        diffs.append("Handle._run no longer calls self._context.run(self._callback, *self._args)")
    return diffs


def decision_shape():
    """-> what `_on_self_loop_or_not_running` returns in its `except RuntimeError` branch"""
    tree = ast.parse(open(ATM_PATH).read())
    for n in ast.walk(tree):
        if isinstance(n, ast.FunctionDef) and n.name == "_on_self_loop_or_not_running":
            for t in ast.walk(n):
                if isinstance(t, ast.ExceptHandler):
                    rets = [ast.unparse(r) for r in t.body if isinstance(r, ast.Return)]
                    return rets
    return None


def structure_check():
    diffs = []
    try:
        run_once_lines()
        call_at_return_line()
        second_pop_line()
    except ValueError as e:
        diffs.append(str(e))
    diffs += handle_shape_check()
    return diffs


def fixed_in_source():
    return decision_shape() == ["return False"]


def targets(fine, ts):
    if fine:
        t = {
            BE_PATH: {f: None for f in ("_run_once", "call_at", "call_later", "call_soon_threadsafe", "_call_soon",
                                        "call_soon", "run_forever", "_run_forever_setup", "_run_forever_cleanup")},
            # NOT "is_running" / "stop": one-line functions (a yield before their only line adds nothing to the yield
            # at the caller's line), and BaseEventLoop.__del__ calls is_running() from the garbage collector on
            # whatever logical thread happens to run it, which would make the step count of a run irreproducible
            EV_PATH: {"cancel": None, "_run": None},
            ATM_PATH: {f: None for f in ("schedule", "schedule_relative", "dispose", "do_cancel_handles", "stage2",
                                         "cancel_handle", "interval", "_on_self_loop_or_not_running",
                                         "_wait_for_loop", "schedule_absolute")},
            ASM_PATH: {f: None for f in ("schedule", "schedule_relative", "dispose", "interval",
                                         "schedule_absolute")},
        }
        return t
    l_check, l_run = run_once_lines()
    try:
        pops = {second_pop_line()}
    except ValueError:
        pops = set()        # the tie is reported broken by structure_check(); keep exploring
    t = {BE_PATH: {"_run_once": {l_check, l_run}}, ATM_PATH: {"do_cancel_handles": pops}}
    if ts:
        t[BE_PATH]["call_at"] = {call_at_return_line()}
    return t


# --------------------------------------------------------------------------
# one run
# --------------------------------------------------------------------------

class ATC(E.TC):
    """coarse mode: `cancel_handle` running on the loop thread is ONE step of the model (nobody else can touch
    that closure's handle list: Disposable lets one dispose() through, stage2 runs on the same thread), so the
    traced line of do_cancel_handles does not yield when it executes under cancel_handle"""

    def yield_point(self, kind="call"):
        if kind == "line" and not self.fine:
            f = sys._getframe(1)
            for _ in range(6):
                if f is None:
                    break
                if f.f_code.co_name == "cancel_handle" and f.f_code.co_filename == ATM_PATH:
                    return
                f = f.f_back
        super().yield_point(kind)


def run_case(case, chooser, fine=False, max_steps=3000):
    """must be called inside `with E.rebound()`"""
    clock = kt.Clock(case.get("t0", 0), yield_on_read=False)
    E.RB.set_clock(clock)
    ts = bool(case.get("ts", True))
    c = ATC(targets(fine, ts), clock=clock, fine=fine, max_steps=max_steps)
    loop = kt.CLoop(clock)
    loop.set_exception_handler(lambda lp, ctx: c.emit("cberr", 0))
    sch = (ATM.AsyncIOThreadSafeScheduler if ts else ASM.AsyncIOScheduler)(loop)
    bodies = {int(k): v for k, v in case.get("bodies", {}).items()}
    disp, actions = {}, {}
    world = {"direct": 0, "last_line": 0}
    # a second loop that is never run: the "running loop" of the foreign threads of an own_loop case
    other_loop = kt.CLoop(clock) if case.get("own_loop") else None
    holds = {}      # tid -> the thread has closed the gate (it may be / is on the direct path of a dispose)
    # The property assumes that the loop does not start while a dispose() that FOUND it not running is in
    # progress.  The moment of "finding" is inside `_on_self_loop_or_not_running`; the gate is therefore closed
    # (harness side, on the instance; the method itself is untouched) from the moment a foreign thread enters
    # that method until it returns False (marshalled path) or, if it returned True, until dispose() returns.
    # A loop that is already running is not affected by the gate; it only delays run_forever().
    orig_decide = getattr(sch, "_on_self_loop_or_not_running", None)
    if orig_decide is not None:
        def decide():
            me = c.tid()
            if me != 0 and not holds.get(me):
                holds[me] = True
                world["direct"] += 1
            if me != 0 and other_loop is not None and loop.is_running():
                # this thread has a running loop of its own and the scheduler's loop is running: the call goes
                # past `except RuntimeError` to the method's last line (counted for the coverage report)
                world["last_line"] += 1
            r = orig_decide()
            if me != 0 and not r and holds.get(me):
                holds[me] = False
                world["direct"] -= 1
            return r
        sch._on_self_loop_or_not_running = decide
    try:
        def do_op(op, on_loop):
            k = op[0]
            if k == "sleep":
                # one step, enabled once the clock shows op[1] (the controller advances the clock when
                # nobody else can run)
                c.wait_until(lambda: clock.us >= op[1], op[1], kind="call")
                c.emit("slept", 0)
                return
            c.yield_point("call")
            if k in ("now", "rel", "abs"):
                a = op[-1]
                c.emit("call", a)
                if k == "now":
                    d = sch.schedule(action_of(a))
                elif k == "abs":
                    d = sch.schedule_absolute(clock.at(op[1]), action_of(a))
                else:
                    d = sch.schedule_relative(timedelta(microseconds=op[1]), action_of(a))
                disp[a] = d
                c.emit("ret", a)
            elif k == "dispose":
                a = op[1]
                d = disp.get(a)
                if d is None or d.is_disposed:
                    c.emit("dispnoop", a)
                    if d is not None:
                        d.dispose()
                    return
                c.emit("dispcall", a)
                me = c.tid()
                counted = orig_decide is None and (not on_loop) and (not loop.is_running())
                if counted:
                    world["direct"] += 1
                own = other_loop is not None and not on_loop
                try:
                    if own:
                        # this (foreign) thread is inside a running event loop of its own
                        EV._set_running_loop(other_loop)
                    d.dispose()
                finally:
                    if own:
                        EV._set_running_loop(None)
                    if counted:
                        world["direct"] -= 1
                    if holds.get(me):
                        holds[me] = False
                        world["direct"] -= 1
                c.emit("dispret", a)
            elif k == "stop":
                loop.stop()
                c.emit("stopped", 0)
            else:
                raise ValueError(op)

        def action_of(a):
            if a not in actions:
                def action(scheduler, state, a=a):
                    c.emit("start", a)
                    for op in bodies.get(a, []):
                        do_op(op, True)
                    c.yield_point("call")
                    c.emit("end", a)
                    return None
                action.label = a
                actions[a] = action
            return actions[a]

        def loop_thread():
            for op in case.get("pre", []):
                do_op(op, True)
            c.wait_until(lambda: world["direct"] == 0, None, kind="call")
            loop.run_forever()
            c.emit("runret", 0)
            for seg in case.get("again", []):
                for op in seg:
                    do_op(op, True)
                c.wait_until(lambda: world["direct"] == 0, None, kind="call")
                loop.run_forever()
                c.emit("runret", 0)

        def mk(prog):
            def body():
                for op in prog:
                    do_op(op, False)
            return body
        c.spawn(loop_thread)
        for p in case["progs"]:
            c.spawn(mk(p))
        clk = c.spawn_clock(case["ticks"]) if case.get("ticks") else None
        err = None
        try:
            c.run(chooser)
        except k3.ControllerError as e:
            err = repr(e)
        r = E.Result()
        r.error = err
        r.log = [tuple(e) for e in c.log]
        r.moves = list(c.moves)
        r.trace = list(c.trace)
        r.schedule = [x for x, _ in c.trace]
        r.stuck = list(c.stuck)
        r.nprogs = len(case["progs"])
        r.clock_tid = clk
        r.final_clock = clock.us
        r.last_line = world["last_line"]
        r.status = {}
        for t in c.threads:
            if t.tid == clk:
                continue
            if t.tid not in c.stuck:
                r.status[t.tid] = 1
            else:
                r.status[t.tid] = 2 if getattr(t, "last_kind", None) in ("wait", "select") else 0
        return r
    finally:
        E.RB.set_clock(kt.Clock(0))
        for lp in (loop, other_loop):
            try:
                if lp is not None and not lp.is_running():
                    lp.close()
            except Exception:
                pass


# --------------------------------------------------------------------------
# Gallina
# --------------------------------------------------------------------------

AKIND = {"ret": 0, "dispret": 3, "dispnoop": 4, "start": 6, "end": 7, "cberr": 5, "stopped": 8, "slept": 9}
BIG = 999


def uid_map(r):
    m = {}
    for e in r.log:
        if e[2] == "ret":
            m.setdefault(e[3], len(m))
    return m


def g_aop(op, um):
    if op[0] == "now":
        return "ANow"
    if op[0] == "rel":
        return f"ARel {lib.gz(op[1])}"
    if op[0] == "abs":
        return f"AAbs {lib.gz(op[1])}"
    if op[0] == "stop":
        return "AStop"
    if op[0] == "sleep":
        return f"ASleep {lib.gz(op[1])}"
    return f"ADispose {um.get(op[1], BIG)}%nat"


def g_case(case, r, fixed):
    um = uid_map(r)

    def ops(l):
        return "[" + "; ".join(g_aop(o, um) for o in l) + "]"
    bodies = "[" + "; ".join(f"({um[int(a)]}%nat, {ops(b)})" for a, b in sorted(case.get("bodies", {}).items())
                             if int(a) in um) + "]"
    mv = []
    for m in r.moves:
        mv.append(f"AMTick {m[1]}%nat" if m[0] == "tick" else f"AMStep {m[1]}%nat")
    inp = (f"({lib.gbool(case.get('ts', True))}, {lib.gbool(fixed)}, {bodies}, {lib.gz(case.get('t0', 0))}, "
           f"{ops(case.get('pre', []))}, [{'; '.join(ops(p) for p in case.get('again', []))}], "
           f"[{'; '.join(ops(p) for p in case['progs'])}], [{'; '.join(mv)}])")
    obs = []
    for e in r.log:
        tid, us, kind = e[0], e[1], e[2]
        if kind not in AKIND:
            continue
        lbl = 0 if kind in ("cberr", "stopped", "slept") else um.get(e[3], BIG)
        obs.append(f"({tid}%nat, {lib.gz(us)}, ({AKIND[kind]}%nat, {lbl}%nat))")
    st = [r.status[t] for t in sorted(r.status)]
    return inp, f"([{'; '.join(obs)}], [{'; '.join(str(x) + '%nat' for x in st)}])"


CASE_TY = ("(bool * bool * list (nat * list aop) * Z * list aop * list (list aop) * list (list aop) * list amove) * "
           "(list (nat * Z * (nat * nat)) * list nat)")
MODEL_FN = ("(fun c => match c with (ts, fx, b, t0, pre, segs, progs, sched) => "
            "aoutcome (arun ts fx (abody_of b) (ainit t0 pre segs progs) sched) end)")
IMPORTS = "Base.Prelude Core.AsyncIO"


# --------------------------------------------------------------------------
# oracle
# --------------------------------------------------------------------------

def oracle(case, r):
    """-> [(signature, message)]: once dispose() returned the action does not start; actions run on the
    loop thread and not before their due time.  Judged on the whole history, across any number of
    stop / run-again cycles of the loop.  A signature that starts with NOTE is not a violation."""
    bad = []
    log = r.log
    ts = "threadsafe" if case.get("ts", True) else "plain"
    if r.error:
        return [(f"C33 controller-error|{ts}", r.error)]
    for e in log:
        if e[2] == "thread-died":
            bad.append((f"C33 thread-died|{ts}|{e[3]}", str(e)))
    pos = {}
    for i, e in enumerate(log):
        pos.setdefault((e[2], e[3]), i)
    kinds = {}
    for l in [case.get("pre", [])] + case.get("again", []) + case["progs"] + list(case.get("bodies", {}).values()):
        for op in l:
            if op[0] in ("now", "rel", "abs"):
                kinds[op[-1]] = op
    for a, op in kinds.items():
        i_start = pos.get(("start", a))
        if i_start is None:
            continue
        if log[i_start][0] != 0:
            bad.append((f"C33 action-off-loop-thread|{ts}", f"action {a} started on thread {log[i_start][0]}"))
        i_call = pos.get(("call", a))
        t_call = log[i_call][1]
        # due time, from the property text: the moment of the call (schedule), that moment + the relative time
        # (a negative one is in the past: nothing to wait for), the absolute time itself
        due = op[1] if op[0] == "abs" else t_call + (max(0, op[1]) if op[0] == "rel" else 0)
        if log[i_start][1] < due:
            bad.append((f"C33 early|{ts}|{'absolute' if op[0] == 'abs' else 'relative'}",
                        f"action {a} due {due} started at {log[i_start][1]}"))
        i_disp = pos.get(("dispret", a))
        if i_disp is not None and i_disp < i_start:
            who = "loop-thread" if log[i_disp][0] == 0 else "foreign-thread"
            delay = op[1] if op[0] == "rel" else (op[1] - t_call if op[0] == "abs" else 0)
            two = "two-stage" if (delay > 0 and case.get("ts", True)) else "single-handle"
            bad.append((f"C33 started-after-dispose-returned|{ts}|{who}|{two}",
                        f"dispose() of action {a} returned at log position {i_disp} (thread {log[i_disp][0]}), the "
                        f"action started at position {i_start}"))
    stuck_foreign = [t for t in r.stuck if t != 0 and t != r.clock_tid]
    if stuck_foreign and 0 in r.stuck:
        # the loop thread is alive (in select, or waiting to run the loop again) and yet a dispose() never returns
        bad.append((f"C33 deadlock|{ts}", f"threads {stuck_foreign} blocked for ever (a dispose() never returned) "
                                          f"although the loop thread is alive"))
    elif stuck_foreign:
        # the loop was stopped for good with a marshalled cancel_handle still queued: that dispose() stays in
        # future.result() for ever.  It has not returned, so the property is kept (Props/C33.v:
        # C33_ex_stopped_for_good); counted as a quirk
        bad.append(("NOTE C33 dispose-blocked-loop-stopped-for-good",
                    f"threads {stuck_foreign} wait in future.result(); the loop thread has ended"))
    return bad
