"""Fail-closed translator:  reactivex/operators/__init__.py + reactivex/__init__.py (and every private
implementation function they reach)  ->  Gen/AllocTable.v   (alloc_ops, alloc_table)

WHAT IT COMPUTES.  Every operator is a tower of closures

    factory(args)  ->  apply(source)  ->  subscribe(observer, scheduler)  ->  handlers(on_next ...)
       LFactory          LApply               LSub                              LHandler

(LModule: module top level).  For every expression that creates mutable per-use state the table
records the level at which the expression is EVALUATED (a_alloc) and the deepest level at which the
object is written / consumed afterwards (a_mut).  C04 needs: a_alloc >= LSub or a_mut <= a_alloc;
C44 needs the same with LApply.  The Coq side only evaluates these comparisons (Props/C04.v, C44.v).

LEVELS OF FUNCTION BODIES (lo = shallowest, hi = deepest level at which the body may run; sites
allocated inside take lo, writes performed inside take hi -- both conservative):
  * public function of reactivex.operators: body at LFactory; of reactivex (creation function): body
    at LApply ("the body that builds the observable"), except when the implementation it returns from
    itself returns a nested def (from_callback, to_async): LFactory.
  * a followed private function (imported from reactivex.operators._x / reactivex.observable.x or
    defined in the same module) runs at the level of its call site; if it is decorated with
    @curry_flip its body runs when the operator is applied: max(call level, LApply).
  * a nested def / lambda is classified by its uses (fixpoint over all uses):
      passed to Observable(...)                              -> max(., LSub)   (the subscribe function)
      `return f` from a body at LFactory                     -> LApply         (the operator function)
      called directly `f(...)` in a scope T                  -> levels of T
      argument of a public reactivex constructor/operator
        (reactivex.X, ops.X, X.pipe, compose, defer ...)     -> lo = max(., LSub), hi = LHandler
        [assumption A1: these never run a callback before subscription]
      anything else (stored, returned deeper, argument of
        an effect call such as subscribe/schedule, methods)  -> lo = lo of the using scope, hi = LHandler
  * comprehensions run in place; a generator expression is lazy (lo = here, hi = LHandler).

ALLOCATION SITES (kinds):
  KCell        a name assigned through `nonlocal` in a nested function (a_mut = deepest such function)
  KContainer   list/dict/set literal, comprehension, list()/dict()/set()/deque()/OrderedDict()/
               defaultdict(), `[x] * n`, list + list, bound to a name, that is mutated somewhere
               (append/extend/insert/pop/remove/clear/add/discard/update/setdefault/popitem/appendleft/
               popleft/sort/reverse/push, x[i] = v, del x[i], x[i] += v); includes `count = [0]`
  KIter        iter(..), map/filter/zip/enumerate/reversed(..), itertools.*, a generator expression, a
               call of a generator function (one containing `yield`, e.g. internal.utils.infinite) --
               unless consumed on the spot (argument of list/tuple/set/dict/sorted/sum/all/any/max/min/
               str.join, `*expr`, `for .. in expr`, a comprehension's iterable)
  KSubject     Subject / BehaviorSubject / ReplaySubject / AsyncSubject (...) instance
  KDisposable  any reactivex.disposable class instance
  KFuture      Future()
  KObject      instance of a class defined in an operator module that has methods (e.g. HashSet)
  KMulticast   a call of ops.publish/share/replay/publish_value/ref_count/multicast(subject)/
               ConnectableObservable(..): it allocates a subject / connection state at its level
  KLock        RLock()/Lock()                      (recorded, exempt: acquisitions are balanced)
  KSched       scheduler instance / X.singleton()  (recorded, exempt: shared service by design)
  KEffect      subscribe/schedule/call of a parameter below LSub (only tolerated in HOT entries)
  For KIter/KSubject/KDisposable/KFuture/KObject/KMulticast every later reference counts as a
  write (level hi of the referencing scope; LHandler when the object escapes into a call/return).

STRICT (FAIL-CLOSED) PART.  Everything evaluated BELOW LSub (module, factory, application level) must
be classified.  Accepted there:
  statements  docstring | expr-stmt | x = e | x: T = e | x op= e | x[i] = e | x.a = e | return e | if |
              for | while | try | with | raise | assert | pass | break | continue | import | def | class |
              nonlocal | del x[i]
  expressions constants, names, attribute/subscript reads, arithmetic/boolean/compare, `a if c else b`,
              tuples, f-strings, lambdas, container displays, comprehensions, generator expressions, calls
  calls       (1) a followed private function  (2) a public reactivex/ops function or X.pipe(..) [pure
              constructor: its own state is in its own rows]  (3) the constructors listed above  (4) the
              names in PURE_CALLS / PURE_METHODS / CONSUMERS below  (5) a call of the result of (1)/(2).
  Anything else raises TranslateError naming file:line.  At LSub and deeper nothing needs classifying
  (state allocated there is per subscription); the same walker runs there without failing and records
  the sites it recognises (they make the table sensitive to an allocation being moved UP).

ALLOWLISTS (each with its reason; keep short):
  HOT       entries that are hot / terminal by definition; effects below LSub tolerated, exempt from C04
  BENIGN    sites whose sharing cannot be observed
  MULTICAST the family excluded by the statement of C04 (+ any entry that itself calls one of them
            below LSub, e.g. partition = publish + ref_count: computed, flag a_mc)
Trusted assumptions: A1 above; A2: public reactivex functions do not mutate container arguments;
A3: aliasing is tracked only through `y = x`.
"""
import ast
import os

MODULE, FACTORY, APPLY, SUB, HANDLER = 0, 1, 2, 3, 4
LNAME = ["LModule", "LFactory", "LApply", "LSub", "LHandler"]


class TranslateError(Exception):
    pass


# --------------------------------------------------------------------------- allowlists
HOT = {
    "rx.hot": "hot observable by definition (marble timeline scheduled when it is built)",
    "rx.to_async": "the returned function starts the computation once when called; result cached in an AsyncSubject",
    "rx.start": "= to_async(func)(): runs the function once when built",
    "rx.start_async": "calls function_async() once when built; the future is a hot source",
    "ops.to_future": "terminal operator: applying it subscribes (returns a Future, not an Observable)",
}
BENIGN = {
    ("reactivex/operators/_repeat.py", "gen"):
        "infinite(): its values are discarded and it never terminates, so consuming it in one "
        "subscription is invisible to any other; the finite case is a re-iterable range",
    ("reactivex/operators/_skiplastwithtime.py", "duration"):
        "idempotent normalisation `duration = to_timedelta(duration)`: the value written depends only on "
        "the constant argument, every subscription writes the same value",
    ("reactivex/operators/_takelastwithtime.py", "duration"):
        "idempotent normalisation `duration = to_timedelta(duration)` (as skip_last_with_time)",
}
MULTICAST_API = {"publish", "share", "replay", "publish_value", "ref_count", "multicast"}
MULTICAST_FAMILY = {"ops." + n for n in MULTICAST_API}

MUTATORS = {"append", "extend", "insert", "pop", "remove", "clear", "add", "discard", "update",
            "setdefault", "popitem", "appendleft", "popleft", "sort", "reverse", "push", "extendleft"}
CONSUMERS = {"list", "tuple", "set", "frozenset", "dict", "sorted", "sum", "all", "any", "max", "min"}
PURE_CALLS = {  # builtins / stdlib / typing helpers whose result is an immutable value
    "isinstance", "issubclass", "callable", "len", "int", "float", "str", "bool", "abs", "repr", "type",
    "getattr", "hasattr", "range", "cast", "timedelta", "datetime", "TypeVar", "TypeVarTuple",
    "ParamSpec", "next", "id", "round", "divmod", "print",
}
ITER_CALLS = {"iter", "map", "filter", "zip", "enumerate", "reversed"}
CONTAINER_CALLS = {"list", "dict", "set", "deque", "OrderedDict", "defaultdict", "bytearray"}
LOCK_CALLS = {"RLock", "Lock"}
PURE_INTERNAL = {  # reactivex.internal helpers: pure functions of their arguments
    "is_future", "noop", "identity", "default_comparer", "default_sub_comparer", "default_error",
    "synchronized", "alias", "curry_flip", "add_ref", "default_now", "default_key_serializer",
}
PURE_METHODS = {  # methods of immutable values (str, re.Pattern, timedelta, dict reads ...)
    "pipe", "replace", "split", "findall", "total_seconds", "get", "join", "strip", "format",
    "startswith", "endswith", "lower", "upper", "items", "keys", "values", "index", "count",
    "to_seconds", "to_timedelta", "to_datetime",
}
EFFECT_METHODS = {"subscribe", "schedule", "schedule_relative", "schedule_absolute", "schedule_periodic",
                  "add_done_callback", "connect", "on_next", "on_error", "on_completed", "dispose",
                  "set_result", "set_exception", "cancel", "accept", "run", "start"}
EXT_MODULE_CALLS = {  # (module, attr) -> kind
    ("re", "compile"): "pure", ("logging", "getLogger"): "pure", ("asyncio", "get_running_loop"): "pure",
    ("threading", "RLock"): "lock", ("threading", "Lock"): "lock",
}
STATE_KINDS = ("container", "iter", "subject", "disposable", "future", "object", "multicast")
USE_IS_WRITE = ("iter", "subject", "disposable", "future", "object", "multicast")
KNAME = {"cell": "KCell", "container": "KContainer", "iter": "KIter", "subject": "KSubject",
         "disposable": "KDisposable", "future": "KFuture", "object": "KObject", "multicast": "KMulticast",
         "lock": "KLock", "sched": "KSched", "effect": "KEffect"}


# --------------------------------------------------------------------------- modules
class Mod:
    def __init__(self, loader, dotted, path):
        self.loader, self.dotted, self.path = loader, dotted, path
        self.rel = os.path.relpath(path, loader.repo)
        self.tree = ast.parse(open(path).read(), path)
        self.is_pkg = os.path.basename(path) == "__init__.py"
        self.funcs, self.classes, self.imports, self.assigns = {}, {}, {}, {}
        self._collect(self.tree.body)

    def _collect(self, body):
        for s in body:
            if isinstance(s, (ast.FunctionDef, ast.AsyncFunctionDef)):
                if not is_overload(s):
                    self.funcs[s.name] = s
            elif isinstance(s, ast.ClassDef):
                self.classes[s.name] = s
            elif isinstance(s, (ast.Import, ast.ImportFrom)):
                for k, v in import_bindings(self, s).items():
                    self.imports[k] = v
            elif isinstance(s, ast.Assign) and len(s.targets) == 1 and isinstance(s.targets[0], ast.Name):
                self.assigns[s.targets[0].id] = s
            elif isinstance(s, ast.AnnAssign) and isinstance(s.target, ast.Name) and s.value is not None:
                self.assigns[s.target.id] = s
            elif isinstance(s, ast.If) and isinstance(s.test, ast.Name) and s.test.id == "TYPE_CHECKING":
                self._collect(s.body)


def is_overload(fn):
    return any((isinstance(d, ast.Name) and d.id == "overload") or
               (isinstance(d, ast.Attribute) and d.attr == "overload") for d in fn.decorator_list)


def is_curry_flip(fn):
    return any(isinstance(d, ast.Name) and d.id == "curry_flip" for d in fn.decorator_list)


def import_bindings(mod, s):
    """local name -> ('mod', dotted) | ('sym', dotted module, name)"""
    out = {}
    if isinstance(s, ast.Import):
        for a in s.names:
            if a.asname:
                out[a.asname] = ("mod", a.name)
            else:
                out[a.name.split(".")[0]] = ("mod", a.name.split(".")[0])
        return out
    base = s.module or ""
    if s.level:
        pkg = mod.dotted if mod.is_pkg else mod.dotted.rsplit(".", 1)[0]
        for _ in range(s.level - 1):
            pkg = pkg.rsplit(".", 1)[0]
        base = pkg + ("." + base if base else "")
    for a in s.names:
        out[a.asname or a.name] = ("sym", base, a.name)
    return out


class Loader:
    def __init__(self, repo):
        self.repo = repo
        self.mods = {}

    def path_of(self, dotted):
        p = os.path.join(self.repo, *dotted.split("."))
        if os.path.isfile(p + ".py"):
            return p + ".py"
        if os.path.isfile(os.path.join(p, "__init__.py")):
            return os.path.join(p, "__init__.py")
        return None

    def mod(self, dotted):
        if dotted not in self.mods:
            p = self.path_of(dotted) if dotted.split(".")[0] == "reactivex" else None
            self.mods[dotted] = Mod(self, dotted, p) if p else None
        return self.mods[dotted]

    def resolve(self, dotted, name, depth=0):
        """symbol `name` of module `dotted` -> ('func'|'class'|'var', Mod, node) | ('mod', dotted) |
        ('ext', dotted, name)"""
        if depth > 12:
            return ("ext", dotted, name)
        m = self.mod(dotted)
        if m is None:
            return ("ext", dotted, name)
        if name in m.funcs:
            return ("func", m, m.funcs[name])
        if name in m.classes:
            return ("class", m, m.classes[name])
        if name in m.imports:
            t = m.imports[name]
            if t[0] == "mod":
                return ("mod", t[1])
            sub = t[1] + "." + t[2]
            if self.mod(t[1]) is not None and self.path_of(sub) and t[2] not in _names_of(self.mod(t[1])):
                return ("mod", sub)
            return self.resolve(t[1], t[2], depth + 1)
        if name in m.assigns:
            v = m.assigns[name].value
            if isinstance(v, ast.Name) and v.id != name:                    # to_list = to_iterable
                return self.resolve(dotted, v.id, depth + 1)
            if isinstance(v, ast.Call) and isinstance(v.func, ast.Name) and v.func.id == "alias" \
                    and len(v.args) == 3 and isinstance(v.args[2], ast.Name):  # from_ = alias(.., from_iterable)
                return self.resolve(dotted, v.args[2].id, depth + 1)
            return ("var", m, m.assigns[name])
        if m.is_pkg and self.path_of(dotted + "." + name):
            return ("mod", dotted + "." + name)
        return ("ext", dotted, name)


def _names_of(m):
    return set(m.funcs) | set(m.classes) | set(m.imports) | set(m.assigns)


# --------------------------------------------------------------------------- scopes
class Binding:
    def __init__(self, name, scope, node=None, what="local"):
        self.name, self.scope, self.node, self.what = name, scope, node, what
        self.sites = []          # Site objects allocated into this name
        self.defnode = None      # FunctionDef when the name is a nested def
        self.imp = None          # import target


class Scope:
    def __init__(self, node, parent, kind):
        self.node, self.parent, self.kind = node, parent, kind   # kind: func|lambda|comp|genexp|class|module
        self.names = {}
        self.nonlocals = set()
        self.lo, self.hi = None, None
        self.children = []
        if parent is not None:
            parent.children.append(self)

    def lookup(self, name):
        s = self
        first = True
        while s is not None:
            if name in s.names and (first or s.kind != "class") and name not in s.nonlocals:
                return s.names[name]
            first = False
            s = s.parent
        return None

    @property
    def strict(self):
        return self.lo is not None and self.lo < SUB


class Site:
    def __init__(self, kind, name, node, rel, alloc):
        self.kind, self.name, self.rel, self.alloc = kind, name, rel, alloc
        self.line = getattr(node, "lineno", 0)
        self.mut = alloc
        self.benign = None

    def key(self):
        return (self.rel, self.line, self.name, self.kind, self.alloc, self.mut)


def target_names(t):
    if isinstance(t, ast.Name):
        return [t]
    if isinstance(t, (ast.Tuple, ast.List)):
        return [n for e in t.elts for n in target_names(e)]
    if isinstance(t, ast.Starred):
        return target_names(t.value)
    return []


class ScopeBuilder(ast.NodeVisitor):
    """symbol table for one function subtree"""

    def __init__(self, root_scope, scope_of):
        self.cur = root_scope
        self.scope_of = scope_of

    def declare(self, name, node, what="local"):
        if name in self.cur.nonlocals:
            return None
        if name not in self.cur.names:
            self.cur.names[name] = Binding(name, self.cur, node, what)
        return self.cur.names[name]

    def enter(self, node, kind):
        sc = Scope(node, self.cur, kind)
        self.scope_of[id(node)] = sc
        return sc

    def visit_args(self, a):
        for p in a.posonlyargs + a.args + a.kwonlyargs + ([a.vararg] if a.vararg else []) + \
                ([a.kwarg] if a.kwarg else []):
            self.declare(p.arg, p, "param")

    def do_function(self, node, kind):
        for d in getattr(node, "decorator_list", []):
            self.visit(d)
        for d in node.args.defaults + [x for x in node.args.kw_defaults if x is not None]:
            self.visit(d)
        outer = self.cur
        self.cur = self.enter(node, kind)
        # nonlocal/global first
        body = node.body if isinstance(node.body, list) else [node.body]
        for s in ast.walk(node) if False else body:
            pass
        for s in _own_stmts(body):
            if isinstance(s, (ast.Nonlocal, ast.Global)):
                self.cur.nonlocals.update(s.names)
        self.visit_args(node.args)
        for s in body:
            self.visit(s)
        self.cur = outer

    def visit_FunctionDef(self, node):
        b = self.declare(node.name, node, "def")
        if b is not None:
            b.defnode = node
        self.do_function(node, "func")

    visit_AsyncFunctionDef = visit_FunctionDef

    def visit_Lambda(self, node):
        self.do_function(node, "lambda")

    def visit_ClassDef(self, node):
        self.declare(node.name, node, "class")
        for b in node.bases:
            self.visit(b)
        outer = self.cur
        self.cur = self.enter(node, "class")
        for s in node.body:
            self.visit(s)
        self.cur = outer

    def comp(self, node, kind):
        gens = node.generators
        self.visit(gens[0].iter)          # evaluated in the enclosing scope
        outer = self.cur
        self.cur = self.enter(node, kind)
        for i, g in enumerate(gens):
            for n in target_names(g.target):
                self.declare(n.id, n)
            if i > 0:
                self.visit(g.iter)
            for c in g.ifs:
                self.visit(c)
        if isinstance(node, ast.DictComp):
            self.visit(node.key)
            self.visit(node.value)
        else:
            self.visit(node.elt)
        self.cur = outer

    def visit_ListComp(self, node):
        self.comp(node, "comp")

    visit_SetComp = visit_ListComp
    visit_DictComp = visit_ListComp

    def visit_GeneratorExp(self, node):
        self.comp(node, "genexp")

    def visit_Name(self, node):
        if isinstance(node.ctx, (ast.Store, ast.Del)):
            self.declare(node.id, node)

    def visit_Import(self, node):
        for a in node.names:
            self.declare(a.asname or a.name.split(".")[0], node, "import")

    def visit_ImportFrom(self, node):
        for a in node.names:
            self.declare(a.asname or a.name, node, "import")

    def visit_ExceptHandler(self, node):
        if node.name:
            self.declare(node.name, node)
        self.generic_visit(node)


def _own_stmts(body):
    """statements of a function body, descending into compound statements but not nested scopes"""
    for s in body:
        yield s
        for f in ("body", "orelse", "finalbody"):
            sub = getattr(s, f, None)
            if isinstance(sub, list) and not isinstance(s, (ast.FunctionDef, ast.AsyncFunctionDef,
                                                           ast.ClassDef, ast.Lambda)):
                yield from _own_stmts(sub)
        if isinstance(s, ast.Try):
            for h in s.handlers:
                yield from _own_stmts(h.body)


# --------------------------------------------------------------------------- the analysis
class Ctx:
    def __init__(self, entry, tolerant):
        self.entry, self.tolerant = entry, tolerant
        self.sites = []
        self.deps = set()        # public reactivex / ops functions called (at any level)
        self.stack = []


class Analyzer:
    def __init__(self, repo):
        self.repo = repo
        self.loader = Loader(repo)
        self.memo = {}
        self.module_sites = {}

    # ---- errors
    def fail(self, mod, node, why):
        raise TranslateError(f"translator cannot classify {mod.rel}:{getattr(node, 'lineno', '?')}: {why}")

    # ---- a root: one top-level function analysed at (lo, hi)
    def analyse_root(self, mod, fn, lo, hi, ctx):
        key = (mod.dotted, fn.name, lo, hi, ctx.tolerant)
        if key in ctx.stack:
            return "pure"
        if key in self.memo:
            sites, ret, deps = self.memo[key]
            ctx.sites.extend(sites)
            ctx.deps |= deps
            return ret
        ctx.stack.append(key)
        outer_sites, ctx.sites = ctx.sites, []
        outer_deps, ctx.deps = ctx.deps, set()
        run = RootRun(self, mod, fn, lo, hi, ctx)
        ret = run.go()
        sites, deps = ctx.sites, ctx.deps
        ctx.sites, ctx.deps = outer_sites, outer_deps
        ctx.sites.extend(sites)
        ctx.deps |= deps
        ctx.stack.pop()
        self.memo[key] = (sites, ret, deps)
        return ret

    # ---- module level
    def analyse_module(self, mod):
        if mod.dotted in self.module_sites:
            return self.module_sites[mod.dotted]
        ctx = Ctx("<module>", False)
        run = RootRun(self, mod, None, MODULE, MODULE, ctx)
        run.go_module()
        self.module_sites[mod.dotted] = ctx.sites
        return ctx.sites


class RootRun:
    """analysis of one top-level function (with all its nested scopes) at a given level"""

    def __init__(self, an, mod, fn, lo, hi, ctx):
        self.an, self.mod, self.fn, self.ctx = an, mod, fn, ctx
        self.lo0, self.hi0 = lo, hi
        self.scope_of = {}
        self.uses = []            # (binding, scope, node, context)
        self.writes = []          # (binding, scope, node)
        self.lambda_ctx = {}      # id(lambda node) -> (scope, context)
        self.parents = {}

    # -- helpers
    def fail(self, node, why, scope=None):
        if scope is None or scope.strict:
            self.an.fail(self.mod, node, why)

    def mod_scope(self):
        ms = Scope(self.mod.tree, None, "module")
        ms.lo = ms.hi = MODULE
        for n in _names_of(self.mod):
            b = Binding(n, ms, None, "module")
            ms.names[n] = b
        return ms

    def go_module(self):
        ms = self.mod_scope()
        self.root = ms
        self.scope_of[id(self.mod.tree)] = ms
        body = []
        for s in self.mod.tree.body:
            if isinstance(s, (ast.FunctionDef, ast.AsyncFunctionDef)):
                # defaults and decorators are evaluated at module level
                sc = ms
                for d in s.decorator_list:
                    self.expr(d, sc)
                for d in s.args.defaults + [x for x in s.args.kw_defaults if x is not None]:
                    k = self.expr(d, sc)
                    if k in STATE_KINDS:
                        self.anon_site(k, d, sc, HANDLER, name="<default of %s>" % s.name)
                continue
            if isinstance(s, ast.ClassDef):
                continue
            if isinstance(s, ast.If) and isinstance(s.test, ast.Name) and s.test.id == "TYPE_CHECKING":
                continue
            body.append(s)
        for s in body:
            self.stmt(s, ms)
        # writes to module-level state from anywhere in the module (conservative: by name)
        for b in ms.names.values():
            if not b.sites:
                continue
            for node in ast.walk(self.mod.tree):
                if self.is_mutation_of_name(node, b.name):
                    for st in b.sites:
                        st.mut = HANDLER
            for st in b.sites:
                if st.kind in USE_IS_WRITE:
                    st.mut = HANDLER
        self.ctx.sites[:] = [st for st in self.ctx.sites if not (st.kind == "container" and st.mut == MODULE)]
        for node in ast.walk(self.mod.tree):
            if isinstance(node, ast.Global):
                self.an.fail(self.mod, node, "`global` statement (module-level cell) is outside the grammar")

    @staticmethod
    def is_mutation_of_name(node, name):
        if isinstance(node, ast.Call) and isinstance(node.func, ast.Attribute) and node.func.attr in MUTATORS \
                and root_name(node.func.value) == name:
            return True
        if isinstance(node, (ast.Assign, ast.AugAssign, ast.Delete)):
            ts = node.targets if not isinstance(node, ast.AugAssign) else [node.target]
            for t in ts:
                if isinstance(t, (ast.Subscript, ast.Attribute)) and root_name(t.value) == name:
                    return True
        return False

    def go(self):
        fn = self.fn
        ms = self.mod_scope()
        sb = ScopeBuilder(ms, self.scope_of)
        sb.do_function(fn, "func")
        self.root = self.scope_of[id(fn)]
        self.root.lo, self.root.hi = self.lo0, self.hi0
        self.index_parents(fn)
        self.collect_uses(fn, self.root)
        self.solve_levels()
        self.walk_function(fn, self.root)
        self.finish_sites()
        return self.ret_kind(fn, self.root)

    def index_parents(self, root):
        for p in ast.walk(root):
            for c in ast.iter_child_nodes(p):
                self.parents[id(c)] = p

    # -- pass 1: uses of names (with their syntactic context) and writes
    def collect_uses(self, node, scope):
        """walk the subtree of a scope node; nested scope nodes switch scope"""
        for child in ast.iter_child_nodes(node):
            self._cu(child, scope)

    def _cu(self, node, scope):
        sc = self.scope_of.get(id(node))
        if isinstance(node, (ast.FunctionDef, ast.AsyncFunctionDef, ast.Lambda)):
            for d in getattr(node, "decorator_list", []):
                self._cu(d, scope)
            for d in node.args.defaults + [x for x in node.args.kw_defaults if x is not None]:
                self._cu(d, scope)
            if isinstance(node, ast.Lambda):
                self.lambda_ctx[id(node)] = (scope, self.context_of(node, scope))
                self._cu(node.body, sc)
            else:
                for s in node.body:
                    self._cu(s, sc)
            return
        if isinstance(node, ast.ClassDef):
            for b in node.bases:
                self._cu(b, scope)
            for s in node.body:
                self._cu(s, sc)
            return
        if isinstance(node, (ast.ListComp, ast.SetComp, ast.DictComp, ast.GeneratorExp)):
            self._cu(node.generators[0].iter, scope)
            for i, g in enumerate(node.generators):
                self._cu(g.target, sc)
                if i > 0:
                    self._cu(g.iter, sc)
                for c in g.ifs:
                    self._cu(c, sc)
            if isinstance(node, ast.DictComp):
                self._cu(node.key, sc)
                self._cu(node.value, sc)
            else:
                self._cu(node.elt, sc)
            return
        if isinstance(node, ast.Name):
            b = scope.lookup(node.id)
            if b is not None and b.scope.kind != "module":
                if isinstance(node.ctx, ast.Load):
                    self.uses.append((b, scope, node, self.context_of(node, scope)))
                elif b.scope is not scope:
                    self.writes.append((b, scope, node))       # store through nonlocal
            elif b is not None and isinstance(node.ctx, ast.Load):
                self.uses.append((b, scope, node, self.context_of(node, scope)))
            return
        # container / attribute writes through a name
        if isinstance(node, ast.Call) and isinstance(node.func, ast.Attribute) and node.func.attr in MUTATORS:
            rn = root_name(node.func.value)
            b = scope.lookup(rn) if rn else None
            if b is not None:
                self.writes.append((b, scope, node))
        if isinstance(node, (ast.Assign, ast.AugAssign, ast.Delete, ast.AnnAssign)):
            ts = node.targets if isinstance(node, (ast.Assign, ast.Delete)) else [node.target]
            for t in ts:
                for tt in (t.elts if isinstance(t, (ast.Tuple, ast.List)) else [t]):
                    if isinstance(tt, (ast.Subscript, ast.Attribute)):
                        rn = root_name(tt.value)
                        b = scope.lookup(rn) if rn else None
                        if b is not None:
                            self.writes.append((b, scope, node))
        for child in ast.iter_child_nodes(node):
            self._cu(child, scope)

    def context_of(self, node, scope):
        """how a function-valued expression is used: ('call',) ('observable',) ('return',)
        ('apiarg',) ('other',)"""
        p = self.parents.get(id(node))
        if isinstance(p, ast.Call):
            if p.func is node:
                return ("call",)
            k = self.callee_class(p, scope)
            if k == "Observable":
                return ("observable",)
            if k == "api":
                return ("apiarg",)
            return ("arg",)
        if isinstance(p, ast.keyword):
            pp = self.parents.get(id(p))
            if isinstance(pp, ast.Call):
                k = self.callee_class(pp, scope)
                if k == "Observable":
                    return ("observable",)
                if k == "api":
                    return ("apiarg",)
            return ("arg",)
        if isinstance(p, ast.Return):
            return ("return",)
        if isinstance(p, ast.Starred):
            return self.context_of(p, scope)
        q, child = p, node
        while isinstance(q, (ast.BoolOp, ast.IfExp)) and not (isinstance(q, ast.IfExp) and q.test is child):
            child, q = q, self.parents.get(id(q))
        if isinstance(q, (ast.Assign, ast.AnnAssign)) and q.value is child:
            ts = q.targets if isinstance(q, ast.Assign) else [q.target]
            if len(ts) == 1 and isinstance(ts[0], ast.Name) and ts[0].id not in scope.nonlocals:
                tb = scope.lookup(ts[0].id)
                if tb is not None and tb.scope is scope:
                    return ("alias", tb)
        return ("other",)

    def callee_class(self, call, scope):
        """'Observable' | 'api' (public reactivex constructor / pipe / compose) | None"""
        f = call.func
        if isinstance(f, ast.Attribute) and f.attr == "pipe":
            return "api"
        r = self.resolve_expr(f, scope)
        if r is None:
            if isinstance(f, ast.Call):      # ops.x(...)(source)
                return self.callee_class(f, scope)
            return None
        if r[0] == "class" and r[2].name == "Observable":
            return "Observable"
        if r[0] == "class" and r[1].dotted.startswith("reactivex.disposable"):
            return "api"
        if r[0] == "func" and r[1].dotted in ("reactivex", "reactivex.operators", "reactivex.pipe",
                                             "reactivex._version"):
            return "api"
        if r[0] == "func" and r[1].dotted.startswith(("reactivex.operators.", "reactivex.observable.")):
            return "api"      # a followed implementation: same convention for its callback arguments
        return None

    # -- name resolution to module-level / imported symbols
    def resolve_expr(self, e, scope):
        """-> loader.resolve result for a Name / dotted Attribute expression, or None when it denotes
        a local value"""
        if isinstance(e, ast.Name):
            b = scope.lookup(e.id)
            if b is None:
                return ("ext", "builtins", e.id)
            if b.scope.kind != "module":
                if b.what == "import":
                    imp = self.local_import(b)
                    if imp is not None:
                        return imp
                return None
            return self.an.loader.resolve(self.mod.dotted, e.id)
        if isinstance(e, ast.Attribute):
            base = self.resolve_expr(e.value, scope)
            if base is None:
                return None
            if base[0] == "mod":
                if self.an.loader.mod(base[1]) is None:
                    return ("ext", base[1], e.attr)
                return self.an.loader.resolve(base[1], e.attr)
            if base[0] == "class":
                return ("classattr", base[1], base[2], e.attr)
            if base[0] == "ext":
                return ("ext", base[1] + "." + base[2], e.attr)
            return None
        return None

    def local_import(self, b):
        node = b.node
        binds = import_bindings(self.mod, node)
        t = binds.get(b.name)
        if t is None:
            return None
        if t[0] == "mod":
            return ("mod", t[1])
        ld = self.an.loader
        sub = t[1] + "." + t[2]
        m = ld.mod(t[1])
        if m is not None and ld.path_of(sub) and t[2] not in _names_of(m):
            return ("mod", sub)
        return ld.resolve(t[1], t[2])

    # -- pass 2: levels of nested scopes
    def solve_levels(self):
        scopes = [s for s in self.scope_of.values() if s is not self.root]
        INF = 99
        for s in scopes:
            s.lo, s.hi = INF, -1
        defs = {}
        for s in scopes:
            if s.kind in ("func",):
                b = s.parent.lookup(s.node.name) if s.parent.kind != "class" else None
                if s.parent.kind == "class":
                    b = s.parent.names.get(s.node.name)
                defs[id(s.node)] = (s, b)
        changed = True
        rounds = 0
        while changed:
            rounds += 1
            if rounds > 50:
                self.an.fail(self.mod, self.fn, "level fixpoint does not converge")
            changed = False
            for s in scopes:
                lo, hi = s.lo, s.hi
                contrib = []
                P = s.parent
                if P.lo is None or P.lo == INF:
                    continue
                if s.kind == "comp":
                    contrib.append((P.lo, P.hi))
                elif s.kind == "genexp":
                    contrib.append((P.lo, HANDLER))
                elif s.kind == "class":
                    contrib.append((P.lo, P.hi))
                elif s.kind == "lambda":
                    us, cx = self.lambda_ctx[id(s.node)]
                    contrib.append(self.level_for_use(cx, us, s))
                elif s.kind == "func":
                    if P.kind == "class":
                        contrib.append((P.lo, HANDLER))       # a method: called whenever
                    else:
                        b = P.names.get(s.node.name)
                        n = 0
                        for (ub, us, un, cx) in self.uses:
                            if ub is b and b is not None and b.defnode is s.node:
                                if us.lo is None or us.lo == INF:
                                    continue
                                n += 1
                                contrib.append(self.level_for_use(cx, us, s))
                        if b is not None and b.defnode is not s.node:
                            contrib.append((P.lo, HANDLER))   # name rebound: be conservative
                        if n == 0 and not any(ub is b for (ub, _, _, _) in self.uses):
                            contrib.append((P.lo, HANDLER))   # never referenced
                for lh in contrib:
                    if lh is None:
                        continue
                    lo, hi = min(lo, lh[0]), max(hi, lh[1])
                if (lo, hi) != (s.lo, s.hi):
                    s.lo, s.hi = lo, hi
                    changed = True
        for s in scopes:
            if s.lo == INF or s.hi == -1:
                # only reachable through scopes that are themselves unreachable
                s.lo, s.hi = (s.parent.lo if s.parent.lo not in (None, INF) else self.root.lo), HANDLER

    def level_for_use(self, cx, us, s):
        k = cx[0]
        if k == "call":
            return (us.lo, us.hi)
        if k == "observable":
            return (max(us.lo, SUB), max(us.hi, SUB))
        if k == "return":
            if us is s.parent and us.lo <= FACTORY and us.hi <= FACTORY:
                return (APPLY, APPLY)
            if us is s.parent and us.lo <= FACTORY:
                return (APPLY, HANDLER)
            return (us.lo, HANDLER)
        if k == "apiarg":
            return (max(us.lo, SUB), HANDLER)
        if k == "alias":
            # y = f  /  y = p or f : the function runs where y is used
            tb = cx[1]
            lo, hi, n, m = 99, -1, 0, 0
            for (ub, us2, un, cx2) in self.uses:
                if ub is tb:
                    m += 1
                    if us2.lo is None or us2.lo == 99:
                        continue
                    if cx2[0] == "alias":
                        cx2 = ("other",)
                    l, h = self.level_for_use(cx2, us2, s)
                    lo, hi, n = min(lo, l), max(hi, h), n + 1
            if n:
                return (lo, hi)
            if m:
                return None           # not known yet in this round of the fixpoint
            return (us.lo, HANDLER)
        return (us.lo, HANDLER)

    # -- pass 3: walk, classify, record sites
    def walk_function(self, fn, scope):
        if isinstance(fn, ast.Lambda):
            k = self.expr(fn.body, scope)
            if k in STATE_KINDS:
                self.anon_site(k, fn.body, scope, HANDLER)
            return
        for s in fn.body:
            self.stmt(s, scope)

    def site(self, kind, name, node, scope, binding=None, mut=None):
        st = Site(kind, name, node, self.mod.rel, scope.lo)
        if mut is not None:
            st.mut = max(st.mut, mut)
        b = BENIGN.get((self.mod.rel, name))
        if b:
            st.benign = b
        self.ctx.sites.append(st)
        if binding is not None:
            binding.sites.append(st)
        return st

    def anon_site(self, kind, node, scope, mut, name=None):
        return self.site(kind, name or "<expr>", node, scope, None, mut)

    def stmt(self, s, S):
        if isinstance(s, ast.Expr):
            if isinstance(s.value, ast.Constant):
                return
            k = self.expr(s.value, S)
            if k in STATE_KINDS:
                self.anon_site(k, s.value, S, S.hi)
            return
        if isinstance(s, (ast.Assign, ast.AnnAssign)):
            if isinstance(s, ast.AnnAssign) and s.value is None:
                return
            k = self.expr(s.value, S)
            targets = s.targets if isinstance(s, ast.Assign) else [s.target]
            for t in targets:
                self.assign_target(t, k, s, S)
            return
        if isinstance(s, ast.AugAssign):
            self.expr(s.value, S)
            if isinstance(s.target, (ast.Subscript, ast.Attribute)):
                self.expr(s.target.value, S)
                if isinstance(s.target, ast.Subscript):
                    self.expr(s.target.slice, S)
            elif not isinstance(s.target, ast.Name):
                self.fail(s, "augmented assignment target outside the grammar", S)
            return
        if isinstance(s, ast.Return):
            if s.value is not None:
                k = self.expr(s.value, S)
                if k in STATE_KINDS and not isinstance(s.value, ast.Name):
                    self.anon_site(k, s.value, S, HANDLER)
            return
        if isinstance(s, (ast.If, ast.While)):
            self.expr(s.test, S)
            for x in s.body + s.orelse:
                self.stmt(x, S)
            return
        if isinstance(s, ast.For):
            self.expr(s.iter, S)          # consumed here, at this level
            for n in target_names(s.target):
                pass
            for x in s.body + s.orelse:
                self.stmt(x, S)
            return
        if isinstance(s, ast.Try):
            for x in s.body + s.orelse + s.finalbody:
                self.stmt(x, S)
            for h in s.handlers:
                if h.type is not None:
                    self.expr(h.type, S)
                for x in h.body:
                    self.stmt(x, S)
            return
        if isinstance(s, ast.With):
            for it in s.items:
                self.expr(it.context_expr, S)
            for x in s.body:
                self.stmt(x, S)
            return
        if isinstance(s, ast.Raise):
            if s.exc is not None:
                self.expr(s.exc, S)
            if s.cause is not None:
                self.expr(s.cause, S)
            return
        if isinstance(s, ast.Assert):
            self.expr(s.test, S)
            return
        if isinstance(s, (ast.Pass, ast.Break, ast.Continue, ast.Nonlocal, ast.Import, ast.ImportFrom)):
            return
        if isinstance(s, ast.Global):
            self.an.fail(self.mod, s, "`global` statement is outside the grammar")
        if isinstance(s, ast.Delete):
            for t in s.targets:
                if isinstance(t, ast.Subscript):
                    self.expr(t.value, S)
                    self.expr(t.slice, S)
                elif not isinstance(t, ast.Name):
                    self.fail(s, "del target outside the grammar", S)
            return
        if isinstance(s, (ast.FunctionDef, ast.AsyncFunctionDef)):
            for d in s.decorator_list:
                self.expr(d, S)
            inner = self.scope_of[id(s)]
            for d in s.args.defaults + [x for x in s.args.kw_defaults if x is not None]:
                k = self.expr(d, S)
                if k in STATE_KINDS:
                    self.anon_site(k, d, S, HANDLER, name="<default of %s>" % s.name)
            self.walk_function(s, inner)
            return
        if isinstance(s, ast.ClassDef):
            for b in s.bases:
                self.expr(b, S)
            csc = self.scope_of[id(s)]
            for x in s.body:
                if isinstance(x, (ast.FunctionDef, ast.AsyncFunctionDef)):
                    self.walk_function(x, self.scope_of[id(x)])
                elif isinstance(x, ast.Expr) and isinstance(x.value, ast.Constant):
                    pass
                elif isinstance(x, ast.AnnAssign) and x.value is None:
                    pass
                else:
                    self.stmt(x, csc)
            return
        self.fail(s, f"statement {type(s).__name__} is outside the grammar", S)

    def assign_target(self, t, k, s, S):
        if isinstance(t, ast.Name):
            b = S.lookup(t.id) if t.id not in S.nonlocals else None
            if t.id in S.nonlocals:
                b = S.parent.lookup(t.id) if S.parent else None
            if k in STATE_KINDS or k in ("lock", "sched"):
                if isinstance(s.value, ast.Name):
                    src = S.lookup(s.value.id)          # alias  y = x
                    if src is not None and b is not None:
                        b.sites.extend(x for x in src.sites if x not in b.sites)
                    return
                self.site(k, t.id, s, S, b)
            return
        if isinstance(t, (ast.Tuple, ast.List)):
            if k in STATE_KINDS:
                self.fail(s, "state object unpacked into several names", S)
                self.anon_site(k, s.value, S, HANDLER)
            return
        if isinstance(t, ast.Subscript):
            self.expr(t.value, S)
            self.expr(t.slice, S)
            if k in STATE_KINDS:
                self.anon_site(k, s.value, S, HANDLER)
            return
        if isinstance(t, ast.Attribute):
            self.expr(t.value, S)
            if k in STATE_KINDS:
                self.anon_site(k, s.value, S, HANDLER)
            return
        self.fail(s, "assignment target outside the grammar", S)

    # ---- expressions: returns a kind
    def expr(self, e, S):
        if e is None or isinstance(e, ast.Constant):
            return "pure"
        if isinstance(e, ast.Name):
            b = S.lookup(e.id)
            if b is not None and b.sites:
                ks = [x.kind for x in b.sites if x.kind in STATE_KINDS]
                if ks:
                    return ks[0]
            return "pure"
        if isinstance(e, ast.Attribute):
            self.expr(e.value, S)
            return "pure"
        if isinstance(e, ast.Subscript):
            self.expr(e.value, S)
            self.expr(e.slice, S)
            return "pure"
        if isinstance(e, ast.Slice):
            for x in (e.lower, e.upper, e.step):
                self.expr(x, S)
            return "pure"
        if isinstance(e, ast.BinOp):
            a, b = self.expr(e.left, S), self.expr(e.right, S)
            if "container" in (a, b) and isinstance(e.op, (ast.Add, ast.Mult)):
                return "container"
            self.escape_operands(e, [(e.left, a), (e.right, b)], S)
            return "pure"
        if isinstance(e, ast.UnaryOp):
            self.expr(e.operand, S)
            return "pure"
        if isinstance(e, ast.Compare):
            self.expr(e.left, S)
            for c in e.comparators:
                self.expr(c, S)
            return "pure"
        if isinstance(e, ast.BoolOp):
            ks = [self.expr(v, S) for v in e.values]
            return next((k for k in ks if k != "pure"), "pure")
        if isinstance(e, ast.IfExp):
            self.expr(e.test, S)
            ks = [self.expr(e.body, S), self.expr(e.orelse, S)]
            return next((k for k in ks if k != "pure"), "pure")
        if isinstance(e, ast.Tuple):
            ks = [(x, self.expr(x, S)) for x in e.elts]
            self.escape_operands(e, ks, S)
            return "pure"
        if isinstance(e, ast.Starred):
            k = self.expr(e.value, S)
            return "pure" if k == "iter" else k      # unpacking consumes on the spot
        if isinstance(e, ast.JoinedStr):
            for v in e.values:
                if isinstance(v, ast.FormattedValue):
                    self.expr(v.value, S)
            return "pure"
        if isinstance(e, ast.Lambda):
            self.walk_function(e, self.scope_of[id(e)])
            return "pure"
        if isinstance(e, (ast.List, ast.Set)):
            ks = [(x, self.expr(x, S)) for x in e.elts]
            self.escape_operands(e, ks, S)
            return "container"
        if isinstance(e, ast.Dict):
            ks = [(x, self.expr(x, S)) for x in list(e.keys) + list(e.values) if x is not None]
            self.escape_operands(e, ks, S)
            return "container"
        if isinstance(e, (ast.ListComp, ast.SetComp, ast.DictComp, ast.GeneratorExp)):
            self.expr(e.generators[0].iter, S)        # consumed by the comprehension (lazily for genexp)
            C = self.scope_of[id(e)]
            if isinstance(e, ast.GeneratorExp):
                k0 = self.expr_kind_only(e.generators[0].iter, S)
                if k0 == "iter" and not isinstance(e.generators[0].iter, ast.Name):
                    self.anon_site("iter", e.generators[0].iter, S, HANDLER)
            for i, g in enumerate(e.generators):
                if i > 0:
                    self.expr(g.iter, C)
                for c in g.ifs:
                    self.expr(c, C)
            if isinstance(e, ast.DictComp):
                self.expr(e.key, C)
                self.expr(e.value, C)
            else:
                k = self.expr(e.elt, C)
                if k in STATE_KINDS and not isinstance(e.elt, ast.Name):
                    self.anon_site(k, e.elt, C, HANDLER)
            return "iter" if isinstance(e, ast.GeneratorExp) else "container"
        if isinstance(e, ast.Call):
            return self.call(e, S)
        if isinstance(e, ast.Await):
            self.fail(e, "await is outside the grammar", S)
            return "pure"
        self.fail(e, f"expression {type(e).__name__} is outside the grammar", S)
        return "pure"

    def expr_kind_only(self, e, S):
        """kind of an expression already visited (no new sites): shallow"""
        if isinstance(e, ast.Call):
            f = e.func
            r = self.resolve_expr(f, S)
            if r is not None and r[0] == "ext" and r[2] in ITER_CALLS:
                return "iter"
            if r is not None and r[0] == "ext" and r[1].endswith("itertools"):
                return "iter"
            if r is not None and r[0] == "func" and has_yield(r[2]):
                return "iter"
        if isinstance(e, ast.GeneratorExp):
            return "iter"
        if isinstance(e, ast.Name):
            b = S.lookup(e.id)
            if b is not None and any(x.kind == "iter" for x in b.sites):
                return "iter"
        return "pure"

    def escape_operands(self, parent, ks, S):
        """state objects created inline inside a larger expression escape into it"""
        for (x, k) in ks:
            if k in STATE_KINDS and not isinstance(x, ast.Name) and k != "container":
                self.anon_site(k, x, S, HANDLER)

    # ---- calls
    def args_of(self, c):
        return list(c.args) + [k.value for k in c.keywords]

    def visit_args(self, c, S, consumer=False, escaping=True):
        for a in self.args_of(c):
            k = self.expr(a, S)
            inner = a.value if isinstance(a, ast.Starred) else a
            if isinstance(inner, ast.Name):
                continue                      # uses of named objects are handled by the use pass
            if k == "iter" and (consumer or isinstance(a, ast.Starred)):
                continue
            if k in STATE_KINDS and k != "container":
                self.anon_site(k, inner, S, HANDLER if escaping else S.hi)

    def call(self, c, S):
        f = c.func
        # call of a call:  f_(a)(source) / ops.x()(source)
        if isinstance(f, ast.Call):
            k = self.call(f, S)
            if k in STATE_KINDS:
                self.anon_site(k, f, S, HANDLER)
            self.visit_args(c, S)
            return "pure"
        if isinstance(f, ast.Name):
            b = S.lookup(f.id)
            if b is not None and b.scope.kind != "module" and b.what != "import":
                if b.defnode is not None:                       # nested def called directly
                    self.visit_args(c, S)
                    return self.shallow_ret(b.defnode, self.scope_of[id(b.defnode)])
                if b.what == "class":
                    self.visit_args(c, S)
                    return self.local_class_kind(b.node)
                # a parameter / local variable is called
                self.visit_args(c, S)
                if S.strict:
                    if self.ctx.tolerant:
                        self.anon_site("effect", c, S, S.hi, name=f.id + "()")
                        return "object"
                    self.fail(c, f"call of the local value `{f.id}` below subscription level", S)
                return "pure"
        if isinstance(f, ast.Attribute):
            r = self.resolve_expr(f, S)
            if r is None:
                return self.method_call(c, f, S)
        elif not isinstance(f, ast.Name):
            self.visit_args(c, S)
            self.fail(c, "callee expression outside the grammar", S)
            return "pure"
        r = self.resolve_expr(f, S)
        return self.resolved_call(c, r, S)

    def method_call(self, c, f, S):
        m = f.attr
        self.expr(f.value, S)
        if m == "pipe":
            self.visit_args(c, S)
            return "pure"
        if m == "join":
            self.visit_args(c, S, consumer=True)
            return "pure"
        if m in MUTATORS:
            self.visit_args(c, S)
            return "pure"
        if m in PURE_METHODS:
            self.visit_args(c, S)
            return "pure"
        self.visit_args(c, S)
        if S.strict:
            if m in EFFECT_METHODS or True:
                if self.ctx.tolerant:
                    self.anon_site("effect", c, S, S.hi, name="." + m + "()")
                    return "pure"
                what = "effect" if m in EFFECT_METHODS else "unknown method"
                self.fail(c, f"{what} `.{m}(...)` below subscription level", S)
        return "pure"

    def resolved_call(self, c, r, S):
        kind = r[0]
        if kind == "ext":
            return self.ext_call(c, r, S)
        if kind == "mod":
            self.visit_args(c, S)
            self.fail(c, "call of a module", S)
            return "pure"
        if kind == "classattr":
            _, m, cls, attr = r
            self.visit_args(c, S)
            if attr == "singleton" and m.dotted.startswith("reactivex.scheduler"):
                return "pure"                 # the shared scheduler service (not allocated here)
            if S.strict:
                self.fail(c, f"class attribute call {cls.name}.{attr}(...) is outside the grammar", S)
            return "pure"
        if kind == "var":
            self.visit_args(c, S)
            if S.strict:
                self.fail(c, "call of a module-level variable", S)
            return "pure"
        if kind == "class":
            _, m, cls = r
            d = m.dotted
            if cls.name == "Observable":
                self.visit_args(c, S)
                return "pure"
            if cls.name == "ConnectableObservable":
                self.visit_args(c, S)
                return "multicast"
            if d.startswith("reactivex.observable"):
                self.visit_args(c, S)
                return "pure"
            if d.startswith("reactivex.subject"):
                self.visit_args(c, S)
                return "subject"
            if d.startswith("reactivex.disposable"):
                self.visit_args(c, S)
                return "disposable"
            if d.startswith("reactivex.scheduler"):
                self.visit_args(c, S)
                return "sched"
            if d.startswith(("reactivex.notification", "reactivex.internal.exceptions")):
                self.visit_args(c, S)
                return "pure"
            if d == "reactivex.internal.utils" and cls.name == "NotSet":
                self.visit_args(c, S)
                return "pure"                 # a sentinel object without state
            if d.startswith(("reactivex.operators.", "reactivex.observable.")):
                self.visit_args(c, S)
                return self.local_class_kind(cls)
            self.visit_args(c, S)
            if S.strict:
                self.fail(c, f"constructor {d}.{cls.name} is not classified", S)
            return "object"
        if kind == "func":
            _, m, fn = r
            d = m.dotted
            if d in ("reactivex", "reactivex.operators"):
                self.ctx.deps.add(("rx." if d == "reactivex" else "ops.") + fn.name)
                self.visit_args(c, S)
                if d == "reactivex.operators" and fn.name in MULTICAST_API:
                    kws = {k.arg for k in c.keywords}
                    if fn.name == "multicast" and "subject_factory" in kws and not c.args \
                            and "subject" not in kws:
                        return "pure"          # a fresh subject per subscription
                    return "multicast"
                return "pure"
            if d.startswith("reactivex.internal"):
                if has_yield(fn):
                    self.visit_args(c, S)
                    return "iter"
                self.visit_args(c, S)
                if fn.name in PURE_INTERNAL:
                    return "pure"
                if S.strict:
                    self.fail(c, f"internal helper {fn.name} is not classified", S)
                return "pure"
            if d == "reactivex.pipe":
                self.visit_args(c, S)
                return "pure"
            if d.startswith(("reactivex.operators.", "reactivex.observable.")):
                self.visit_args(c, S)
                if has_yield(fn):
                    return "iter"
                if is_curry_flip(fn):
                    lo, hi = max(S.lo, APPLY), max(S.hi, APPLY)
                else:
                    lo, hi = S.lo, S.hi
                self.an.analyse_module(m)
                return self.an.analyse_root(m, fn, lo, hi, self.ctx)
            self.visit_args(c, S)
            if S.strict:
                self.fail(c, f"function {d}.{fn.name} is not classified", S)
            return "pure"
        self.visit_args(c, S)
        self.fail(c, "callee is not classified", S)
        return "pure"

    def ext_call(self, c, r, S):
        _, modname, name = r
        last = modname.split(".")[-1]
        if (last, name) in EXT_MODULE_CALLS:
            self.visit_args(c, S)
            return EXT_MODULE_CALLS[(last, name)]
        if last == "itertools":
            self.visit_args(c, S)
            return "iter"
        if name in CONSUMERS and name not in ("list", "dict", "set"):
            self.visit_args(c, S, consumer=True)
            return "pure"
        if name in CONTAINER_CALLS:
            self.visit_args(c, S, consumer=True)
            return "container"
        if name in ITER_CALLS:
            self.visit_args(c, S, consumer=False)
            return "iter"
        if name in LOCK_CALLS:
            self.visit_args(c, S)
            return "lock"
        if name == "Future":
            self.visit_args(c, S)
            return "future"
        if name in PURE_CALLS or name.endswith(("Error", "Exception")):
            self.visit_args(c, S, consumer=(name == "next"), escaping=False)
            return "pure"
        self.visit_args(c, S)
        if S.strict:
            self.fail(c, f"call of `{modname}.{name}` is not classified", S)
        return "pure"

    def local_class_kind(self, cls):
        deco = any((isinstance(d, ast.Name) and d.id == "dataclass") or
                   (isinstance(d, ast.Call) and isinstance(d.func, ast.Name) and d.func.id == "dataclass")
                   for d in cls.decorator_list)
        has_methods = any(isinstance(x, (ast.FunctionDef, ast.AsyncFunctionDef)) for x in cls.body)
        if deco and not has_methods:
            return "pure"          # record built once, never written (no `x.attr =` is a write below)
        return "object"

    def shallow_ret(self, fn, scope):
        """kind of the value a nested def returns (syntactic, conservative)"""
        return self.ret_kind(fn, scope, shallow=True)

    def ret_kind(self, fn, scope, shallow=False):
        if isinstance(fn, ast.Lambda):
            return "pure"
        kinds = []
        for s in _own_stmts(fn.body):
            if isinstance(s, ast.Return) and s.value is not None:
                v = s.value
                if isinstance(v, ast.Name):
                    b = scope.lookup(v.id)
                    if b is not None:
                        if b.sites:
                            kinds.extend(x.kind for x in b.sites)
                        elif shallow:
                            kinds.extend(self.shallow_assigned_kinds(fn, v.id, scope))
                elif isinstance(v, (ast.List, ast.Dict, ast.Set, ast.ListComp, ast.SetComp, ast.DictComp)):
                    kinds.append("container")
                elif isinstance(v, ast.GeneratorExp):
                    kinds.append("iter")
                elif isinstance(v, ast.Call):
                    kinds.append(self.expr_kind_only(v, scope))
        for k in kinds:
            if k in STATE_KINDS:
                return k
        return "pure"

    def shallow_assigned_kinds(self, fn, name, scope):
        out = []
        for s in _own_stmts(fn.body):
            if isinstance(s, ast.Assign) and any(isinstance(t, ast.Name) and t.id == name for t in s.targets):
                v = s.value
                if isinstance(v, (ast.List, ast.Dict, ast.Set, ast.ListComp, ast.SetComp, ast.DictComp)):
                    out.append("container")
                elif isinstance(v, ast.GeneratorExp):
                    out.append("iter")
                elif isinstance(v, ast.Call):
                    out.append(self.expr_kind_only(v, scope))
        return out

    # -- pass 4: writes and uses -> a_mut ; cells
    def finish_sites(self):
        # cells: a name stored through nonlocal from a nested scope
        cells = {}
        for (b, sc, node) in self.writes:
            if isinstance(node, ast.Name):
                st = cells.get(id(b))
                if st is None:
                    st = Site("cell", b.name, b.node if b.node is not None else node, self.mod.rel,
                              b.scope.lo)
                    bn = BENIGN.get((self.mod.rel, b.name))
                    if bn:
                        st.benign = bn
                    cells[id(b)] = st
                    self.ctx.sites.append(st)
                st.mut = max(st.mut, sc.hi)
        # container / attribute writes
        for (b, sc, node) in self.writes:
            if isinstance(node, ast.Name):
                continue
            for st in b.sites:
                if st.kind in STATE_KINDS:
                    st.mut = max(st.mut, sc.hi)
                    st.written = True
        # uses of iterators / subjects / disposables ...
        for (b, sc, node, cx) in self.uses:
            for st in b.sites:
                if st.kind in USE_IS_WRITE:
                    lvl = sc.hi
                    if cx[0] in ("apiarg", "arg", "observable", "return", "other") and \
                            not self.is_local_consumption(node, sc):
                        lvl = HANDLER if cx[0] != "other" else sc.hi
                        if cx[0] == "other" and self.stored_elsewhere(node):
                            lvl = HANDLER
                    st.mut = max(st.mut, lvl)
        # containers that are never written are values, not state
        self.ctx.sites[:] = [st for st in self.ctx.sites
                             if not (st.kind == "container" and not getattr(st, "written", False))]

    def is_local_consumption(self, node, sc):
        """next(x) / for .. in x / list(x) ..: consumed at the level of the using scope"""
        p = self.parents.get(id(node))
        if isinstance(p, ast.Call) and isinstance(p.func, ast.Name) and \
                (p.func.id == "next" or p.func.id in CONSUMERS):
            return True
        if isinstance(p, (ast.For, ast.comprehension)) and p.iter is node:
            return True
        if isinstance(p, ast.Starred):
            return True
        return False

    def stored_elsewhere(self, node):
        p = self.parents.get(id(node))
        return isinstance(p, (ast.List, ast.Tuple, ast.Dict, ast.Set, ast.Assign, ast.AnnAssign, ast.keyword))


def root_name(e):
    """x, x[i], x.a, x[i].a[j] ... -> 'x'"""
    while isinstance(e, (ast.Subscript, ast.Attribute)):
        e = e.value
    return e.id if isinstance(e, ast.Name) else None


def has_yield(fn):
    for n in ast.walk(fn):
        if isinstance(n, (ast.Yield, ast.YieldFrom)):
            # not inside a nested def
            return True
    return False


# --------------------------------------------------------------------------- entries
def public_entries(an):
    """[(qualified name, namespace, Mod, FunctionDef)] + aliases {alias: canonical}"""
    out, aliases = [], {}
    for ns, dotted in (("ops", "reactivex.operators"), ("rx", "reactivex")):
        m = an.loader.mod(dotted)
        if m is None:
            raise TranslateError(f"cannot read module {dotted}")
        for s in m.tree.body:
            if isinstance(s, (ast.FunctionDef, ast.AsyncFunctionDef)):
                continue
            if isinstance(s, (ast.Import, ast.ImportFrom)):
                continue
            if isinstance(s, ast.ClassDef):
                raise TranslateError(f"translator cannot classify {m.rel}:{s.lineno}: class at top level")
            if isinstance(s, ast.Expr) and isinstance(s.value, ast.Constant):
                continue
            if isinstance(s, ast.If) and isinstance(s.test, ast.Name) and s.test.id == "TYPE_CHECKING":
                continue
            if isinstance(s, ast.Assign) and len(s.targets) == 1 and isinstance(s.targets[0], ast.Name):
                t, v = s.targets[0].id, s.value
                if t == "__all__" or t.startswith("_"):
                    continue
                if isinstance(v, ast.Name) and v.id in m.funcs:
                    aliases[f"{ns}.{t}"] = f"{ns}.{v.id}"
                    continue
                if isinstance(v, ast.Call) and isinstance(v.func, ast.Name) and v.func.id == "alias" \
                        and len(v.args) == 3 and isinstance(v.args[2], ast.Name) and v.args[2].id in m.funcs:
                    aliases[f"{ns}.{t}"] = f"{ns}.{v.args[2].id}"
                    continue
            raise TranslateError(f"translator cannot classify {m.rel}:{s.lineno}: top-level statement "
                                 f"{ast.unparse(s)[:60]}")
        for name, fn in m.funcs.items():
            if name.startswith("_"):
                continue
            out.append((f"{ns}.{name}", ns, m, fn))
    return out, aliases


def creation_level(an, m, fn):
    """LFactory when the creation function returns a function (from_callback, to_async), else LApply"""
    for s in _own_stmts(fn.body):
        if isinstance(s, ast.Return) and isinstance(s.value, ast.Call) and isinstance(s.value.func, ast.Name):
            # resolve through a function-local import
            for imp in _own_stmts(fn.body):
                if isinstance(imp, ast.ImportFrom):
                    t = import_bindings(m, imp).get(s.value.func.id)
                    if t and t[0] == "sym":
                        r = an.loader.resolve(t[1], t[2])
                        if r[0] == "func" and not is_curry_flip(r[2]):
                            inner = r[2]
                            nested = {x.name for x in inner.body if isinstance(x, ast.FunctionDef)}
                            for q in _own_stmts(inner.body):
                                if isinstance(q, ast.Return) and isinstance(q.value, ast.Name) \
                                        and q.value.id in nested:
                                    return FACTORY
    return APPLY


def analyse(repo):
    """-> dict  {entries: {qname: {...}}, aliases, stats}"""
    an = Analyzer(repo)
    entries, aliases = public_entries(an)
    res = {}
    for (q, ns, m, fn) in entries:
        ctx = Ctx(q, q in HOT)
        lvl = FACTORY if ns == "ops" else creation_level(an, m, fn)
        an.analyse_root(m, fn, lvl, lvl, ctx)
        seen, sites = set(), []
        for st in ctx.sites:
            if st.key() not in seen:
                seen.add(st.key())
                sites.append(st)
        uses_mc = any(st.kind == "multicast" and st.alloc < SUB for st in sites)
        res[q] = {"ns": ns, "creation": ns == "rx", "root_level": lvl, "sites": sites,
                  "deps": sorted(ctx.deps - {q}),
                  "multicast": q in MULTICAST_FAMILY or uses_mc, "hot": q in HOT,
                  "line": fn.lineno}
    mods = {}
    for dotted, sites in an.module_sites.items():
        if sites:
            mods[dotted] = sites
    for q, r in res.items():
        rows = [(q, st, r["creation"], r["multicast"], r["hot"]) for st in r["sites"]]
        r["flag_C04"] = [row[1] for row in rows if not row_ok(row, "C04")]
        r["flag_C44"] = [row[1] for row in rows if not row_ok(row, "C44")]
    return {"entries": res, "aliases": aliases, "modules": mods}


# --------------------------------------------------------------------------- Gallina
def gstr(s):
    assert '"' not in s and "\\" not in s and "\n" not in s, s
    return '"' + s + '"'


def gbool(b):
    return "true" if b else "false"


def table_rows(a):
    """rows of alloc_table in emission order: (operator, Site, creation, multicast, hot)"""
    ents = a["entries"]
    rows = []
    for q in sorted(ents):
        r = ents[q]
        for st in sorted(r["sites"], key=lambda s: (s.rel, s.line, s.name, s.kind)):
            rows.append((q, st, r["creation"], r["multicast"], r["hot"]))
    for dotted in sorted(a["modules"]):
        for st in sorted(a["modules"][dotted], key=lambda s: (s.line, s.name)):
            rows.append(("<module " + dotted + ">", st, False, False, False))
    return rows


def row_ok(row, prop):
    """python twin of entry_ok_C04 / entry_ok_C44 (Ops/Closure.v); compared with Coq on every run"""
    (q, st, cre, mc, hot) = row
    if st.kind in ("lock", "sched") or st.benign:
        return True
    if prop == "C04":
        return mc or hot or not (st.alloc < SUB and st.alloc < st.mut)
    return cre or not (st.alloc < APPLY and st.alloc < st.mut)


def translate(repo):
    a = analyse(repo)
    L = ["(* GENERATED by harness/translate/alloc_tr.py from /repo/reactivex/operators/__init__.py, "
         "/repo/reactivex/__init__.py and the implementation modules they reach -- do not edit *)",
         "From Coq Require Import List String ZArith.",
         "From RxVerif Require Import Ops.Closure.",
         "Import ListNotations.",
         "Local Open Scope string_scope.",
         "Local Open Scope Z_scope.",
         ""]
    ents = a["entries"]
    L.append(f"(* {len(ents)} public functions analysed; aliases: " +
             ", ".join(f"{k}={v}" for k, v in sorted(a["aliases"].items())) + " *)")
    L.append("(* name, creation function?, multicast family (excluded by C04)?, hot/terminal (allowlist)?, "
             "level of the public function's body *)")
    L.append("Definition alloc_ops : list op_info := [")
    rows = []
    for q in sorted(ents):
        r = ents[q]
        rows.append(f"  mk_op {gstr(q)} {gbool(r['creation'])} {gbool(r['multicast'])} {gbool(r['hot'])} "
                    f"{LNAME[r['root_level']]}")
    L.append(";\n".join(rows))
    L.append("].")
    L.append("")
    L.append("(* operator, file, line, name, kind, allocation level, deepest write/consume level, "
             "creation?, multicast?, hot?, benign (allowlisted)? *)")
    L.append("Definition alloc_table : list alloc_entry := [")
    rows = []
    for (q, st, cre, mc, hot) in table_rows(a):
        rows.append(f"  mk_site {gstr(q)} {gstr(st.rel)} {st.line} {gstr(st.name)} {KNAME[st.kind]} "
                    f"{LNAME[st.alloc]} {LNAME[st.mut]} {gbool(cre)} {gbool(mc)} "
                    f"{gbool(hot)} {gbool(bool(st.benign))}")
    L.append(";\n".join(rows))
    L.append("].")
    L.append("")
    return "\n".join(L)


if __name__ == "__main__":
    import sys
    repo = sys.argv[1] if len(sys.argv) > 1 else "/repo"
    if len(sys.argv) > 2 and sys.argv[2] == "--report":
        a = analyse(repo)
        for q in sorted(a["entries"]):
            r = a["entries"][q]
            tag = ("MC " if r["multicast"] else "") + ("HOT " if r["hot"] else "")
            for st in r["sites"]:
                bad4 = st in r["flag_C04"]
                bad44 = st in r["flag_C44"]
                print(f"{q:32s} {tag:7s} {st.rel}:{st.line:<4d} {st.name:24s} {st.kind:10s} "
                      f"{LNAME[st.alloc]:9s} {LNAME[st.mut]:9s} {'C04!' if bad4 else ''} {'C44!' if bad44 else ''}"
                      f"{' benign' if st.benign else ''}")
        for d, ss in a["modules"].items():
            for st in ss:
                print(f"<module {d}> {st.rel}:{st.line} {st.name} {st.kind} {LNAME[st.alloc]} {LNAME[st.mut]}")
    else:
        sys.stdout.write(translate(repo))
