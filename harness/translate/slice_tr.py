"""Fail-closed translator: reactivex/operators/_slice.py:slice_  ->  Gen/SliceGen.v

Accepted grammar (anything else raises TranslateError naming file:line):
  body   := [docstring] stmt*
  stmt   := NAME[: ann] = DEFAULT if PARAM is None else PARAM          (defaulting)
          | pipeline[: ann] = []
          | if test: stmt+ [elif ...] [else: stmt+]
          | pipeline.append(ops.OP)
          | raise TypeError(...)                                       (-> None)
          | return source.pipe(*pipeline)                              (-> Some plan)
  test   := iexpr (<|<=|>|>=|==|!=) iexpr [chained] | test and test | test or test | not test
  iexpr  := NAME | INT | maxsize | -iexpr | iexpr (+|-) iexpr
  OP     := take(e) | skip(e) | take_last(e) | skip_last(e)
          | filter_indexed(lambda x, i: i % e == 0)
          | map_indexed(lambda x, i: (i, x)) | filter(lambda ix: ix[0] < e) | map(lambda ix: ix[1])
"""
import ast
import sys


class TranslateError(Exception):
    pass


PATH = "reactivex/operators/_slice.py"


def fail(node, why):
    raise TranslateError(f"translator cannot read {PATH}:{getattr(node, 'lineno', '?')}: {why}")


def iexpr(e, names):
    if isinstance(e, ast.Name):
        if e.id == "maxsize":
            return "maxsize"
        if e.id in names:
            return "v" + e.id
        fail(e, f"unknown name {e.id}")
    if isinstance(e, ast.Constant) and isinstance(e.value, int) and not isinstance(e.value, bool):
        return f"({e.value})"
    if isinstance(e, ast.UnaryOp) and isinstance(e.op, ast.USub):
        return f"(- {iexpr(e.operand, names)})"
    if isinstance(e, ast.BinOp) and isinstance(e.op, (ast.Add, ast.Sub)):
        op = "+" if isinstance(e.op, ast.Add) else "-"
        return f"({iexpr(e.left, names)} {op} {iexpr(e.right, names)})"
    fail(e, "integer expression outside the grammar: " + ast.dump(e))


CMP = {ast.Lt: "<?", ast.LtE: "<=?", ast.Gt: ">?", ast.GtE: ">=?", ast.Eq: "=?"}


def test(e, names):
    if isinstance(e, ast.Compare):
        parts = []
        left = e.left
        for op, right in zip(e.ops, e.comparators):
            if type(op) in CMP:
                parts.append(f"({iexpr(left, names)} {CMP[type(op)]} {iexpr(right, names)})")
            elif isinstance(op, ast.NotEq):
                parts.append(f"(negb ({iexpr(left, names)} =? {iexpr(right, names)}))")
            else:
                fail(e, "comparison operator outside the grammar")
            left = right
        return "(" + " && ".join(parts) + ")"
    if isinstance(e, ast.BoolOp):
        op = " && " if isinstance(e.op, ast.And) else " || "
        return "(" + op.join(test(v, names) for v in e.values) + ")"
    if isinstance(e, ast.UnaryOp) and isinstance(e.op, ast.Not):
        return f"(negb {test(e.operand, names)})"
    fail(e, "test outside the grammar: " + ast.dump(e))


def lam(e, nargs):
    if not (isinstance(e, ast.Lambda) and len(e.args.args) == nargs and not e.args.defaults
            and not e.args.vararg and not e.args.kwarg and not e.args.kwonlyargs):
        fail(e, "lambda of unexpected shape")
    return [a.arg for a in e.args.args], e.body


def op_of(call, names):
    if not (isinstance(call, ast.Call) and isinstance(call.func, ast.Attribute)
            and isinstance(call.func.value, ast.Name) and call.func.value.id == "ops"
            and len(call.args) == 1 and not call.keywords):
        fail(call, "expected ops.NAME(arg)")
    name, arg = call.func.attr, call.args[0]
    simple = {"take": "PTake", "skip": "PSkip", "take_last": "PTakeLast", "skip_last": "PSkipLast"}
    if name in simple:
        return f"{simple[name]} {iexpr(arg, names)}"
    if name == "filter_indexed":
        (x, i), body = lam(arg, 2)
        # i % E == 0
        if (isinstance(body, ast.Compare) and len(body.ops) == 1 and isinstance(body.ops[0], ast.Eq)
                and isinstance(body.left, ast.BinOp) and isinstance(body.left.op, ast.Mod)
                and isinstance(body.left.left, ast.Name) and body.left.left.id == i
                and isinstance(body.comparators[0], ast.Constant) and body.comparators[0].value == 0):
            return f"PEveryNth {iexpr(body.left.right, names)}"
        fail(arg, "filter_indexed lambda is not `lambda x, i: i % E == 0`")
    if name == "map_indexed":
        (x, i), body = lam(arg, 2)
        if (isinstance(body, ast.Tuple) and len(body.elts) == 2
                and all(isinstance(t, ast.Name) for t in body.elts)
                and [t.id for t in body.elts] == [i, x]):
            return "PTagIndex"
        fail(arg, "map_indexed lambda is not `lambda x, i: (i, x)`")
    if name == "filter":
        (ix,), body = lam(arg, 1)
        if (isinstance(body, ast.Compare) and len(body.ops) == 1 and isinstance(body.ops[0], ast.Lt)
                and isinstance(body.left, ast.Subscript) and isinstance(body.left.value, ast.Name)
                and body.left.value.id == ix and isinstance(body.left.slice, ast.Constant)
                and body.left.slice.value == 0):
            return f"PFilterTagLt {iexpr(body.comparators[0], names)}"
        fail(arg, "filter lambda is not `lambda ix: ix[0] < E`")
    if name == "map":
        (ix,), body = lam(arg, 1)
        if (isinstance(body, ast.Subscript) and isinstance(body.value, ast.Name) and body.value.id == ix
                and isinstance(body.slice, ast.Constant) and body.slice.value == 1):
            return "PUntag"
        fail(arg, "map lambda is not `lambda ix: ix[1]`")
    fail(call, f"operator ops.{name} outside the grammar")


def stmts(body, names, rest):
    """Coq term of type option (list pop), the plan so far being bound to `p`;
    `rest` is the Coq text to continue with (also with `p` bound), or None."""
    if not body:
        return rest if rest is not None else "Some p"
    s, tail = body[0], body[1:]
    cont = stmts(tail, names, rest)
    if isinstance(s, ast.Expr) and isinstance(s.value, ast.Call):
        c = s.value
        if (isinstance(c.func, ast.Attribute) and c.func.attr == "append"
                and isinstance(c.func.value, ast.Name) and c.func.value.id == "pipeline"
                and len(c.args) == 1 and not c.keywords):
            return f"(let p := p ++ [{op_of(c.args[0], names)}] in\n {cont})"
        fail(s, "expression statement outside the grammar")
    if isinstance(s, ast.If):
        t = test(s.test, names)
        a = stmts(s.body, names, None)
        b = stmts(s.orelse, names, None)
        return f"(obind (if {t} then {a} else {b}) (fun p =>\n {cont}))"
    if isinstance(s, ast.Raise):
        if (isinstance(s.exc, ast.Call) and isinstance(s.exc.func, ast.Name)
                and s.exc.func.id == "TypeError"):
            return "None"
        fail(s, "raise of something other than TypeError")
    if isinstance(s, ast.Return):
        v = s.value
        if (isinstance(v, ast.Call) and isinstance(v.func, ast.Attribute) and v.func.attr == "pipe"
                and isinstance(v.func.value, ast.Name) and v.func.value.id == "source"
                and len(v.args) == 1 and isinstance(v.args[0], ast.Starred)
                and isinstance(v.args[0].value, ast.Name) and v.args[0].value.id == "pipeline"
                and not v.keywords):
            if tail:
                fail(tail[0], "statement after return")
            return "Some p"
        fail(s, "return outside the grammar")
    fail(s, "statement outside the grammar: " + type(s).__name__)


def translate(src):
    mod = ast.parse(src)
    fn = [n for n in mod.body if isinstance(n, ast.FunctionDef) and n.name == "slice_"]
    if len(fn) != 1:
        raise TranslateError(f"translator cannot read {PATH}: no unique slice_ function")
    fn = fn[0]
    params = [a.arg for a in fn.args.args]
    if params != ["source", "start", "stop", "step"]:
        fail(fn, f"unexpected parameters {params}")
    defaults = fn.args.defaults
    if len(defaults) != 3 or not all(isinstance(d, ast.Constant) and d.value is None for d in defaults):
        fail(fn, "start/stop/step must default to None")
    body = list(fn.body)
    if body and isinstance(body[0], ast.Expr) and isinstance(body[0].value, ast.Constant) \
            and isinstance(body[0].value.value, str):
        body = body[1:]
    names, lets = [], []
    i = 0
    while i < len(body):
        s = body[i]
        tgt = val = None
        if isinstance(s, ast.AnnAssign) and isinstance(s.target, ast.Name) and s.value is not None:
            tgt, val = s.target.id, s.value
        elif isinstance(s, ast.Assign) and len(s.targets) == 1 and isinstance(s.targets[0], ast.Name):
            tgt, val = s.targets[0].id, s.value
        else:
            break
        if tgt == "pipeline":
            if not (isinstance(val, ast.List) and not val.elts):
                fail(s, "pipeline must start empty")
            i += 1
            break
        # NAME = DEFAULT if PARAM is None else PARAM
        if not (isinstance(val, ast.IfExp) and isinstance(val.test, ast.Compare)
                and len(val.test.ops) == 1 and isinstance(val.test.ops[0], ast.Is)
                and isinstance(val.test.left, ast.Name) and val.test.left.id in ("start", "stop", "step")
                and isinstance(val.test.comparators[0], ast.Constant)
                and val.test.comparators[0].value is None
                and isinstance(val.orelse, ast.Name) and val.orelse.id == val.test.left.id):
            fail(s, "assignment is not `X = D if P is None else P`")
        lets.append(f"  let v{tgt} := match {val.test.left.id} with None => {iexpr(val.body, names)}"
                    f" | Some v => v end in")
        names.append(tgt)
        i += 1
    else:
        fail(fn, "no `pipeline = []` found")
    term = stmts(body[i:], names, None)
    out = ["(* GENERATED by harness/translate/slice_tr.py from /repo/" + PATH + " -- do not edit *)",
           "From RxVerif Require Import Base.Prelude Ops.Slice.",
           "",
           "Definition slice_plan (start stop step : option Z) : option (list pop) :=",
           *lets,
           "  let p : list pop := [] in",
           "  " + term + ".", ""]
    return "\n".join(out)


if __name__ == "__main__":
    repo = sys.argv[1] if len(sys.argv) > 1 else "/repo"
    print(translate(open(f"{repo}/{PATH}").read()))
