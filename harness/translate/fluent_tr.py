"""Fail-closed translator:  reactivex/observable/mixins/*.py + reactivex/operators/__init__.py
                          ->  Gen/FluentTable.v   (fluent_table, op_table)

Nothing is guessed: whatever is outside the grammar below raises TranslateError
naming file:line, which the check reports as a broken tie for C39.

Mixin modules (every *.py of observable/mixins except __init__.py)
  module  := docstring? (import | `if TYPE_CHECKING:` imports | NAME = TypeVar(..)/TypeVarTuple(..))* class+
  class   := `class XMixin(...)`: docstring? method*
  method  := `_as_observable`  with body exactly  `return cast(<str>, self)`          (skipped)
           | @overload def ...                                                       (skipped; the
             undecorated def of the same name must follow and is the one translated)
           | def NAME(self, PARAMS) -> ...: BODY       (no other decorator, NAME not starting with _)
  PARAMS  := positional-or-keyword params, optional *NAME, keyword-only params; defaults are
             None/True/False/numbers/strings or the name NotSet.  No positional-only, no **kw.
  BODY    := docstring? (import | assign | guard)* `return FORM`
  import  := `from reactivex import operators as ops` (binds `ops`; required before any ops.N) or any
             other `from X import a, b` whose bound names are then used nowhere in a FORM
             except `cast`/`NotSet`
  assign  := NAME [: ann] = EXPR        with EXPR := SELF | OPCALL | PARAMREF  (a local alias; every alias
             must be used exactly once afterwards)
  guard   := `if P is None:` / `if P is NotSet:`  assign* `return FORM`   (no else; P a parameter)
  FORM    := SELF.pipe(OPCALL) | OPCALL(SELF) | self.M(ARGS) | cast(T, FORM)
  SELF    := self._as_observable() | cast(T, SELF) | alias of SELF
  OPCALL  := ops.N(ARGS) | cast(T, OPCALL) | alias of OPCALL
  ARGS    := positional: PARAMREF | *VARPARAM | constant ; keyword: k=PARAMREF | k=constant ; no **
  PARAMREF:= parameter name | cast(T, PARAMREF) | alias of PARAMREF

operators/__init__.py
  top level := imports | NAME = TypeVar(..)/TypeVarTuple(..) | `if TYPE_CHECKING:` imports | __all__ = [...]
             | def (possibly @overload; the last undecorated def of a name is its signature)
             | ALIAS = NAME   where NAME is a function defined above  (same function object)
  Only signatures are read (the bodies of the operator functions are the subject of other properties).

observable/observable.py: class Observable must not define (shadow) any translated method name.
"""
import ast
import glob
import os
import sys


class TranslateError(Exception):
    pass


MIXIN_DIR = "reactivex/observable/mixins"
OPS_PATH = "reactivex/operators/__init__.py"
OBS_PATH = "reactivex/observable/observable.py"
GUARD_CONSTS = ("None", "NotSet")


class Ctx:
    def __init__(self, rel):
        self.rel = rel

    def fail(self, node, why):
        raise TranslateError(f"translator cannot read {self.rel}:{getattr(node, 'lineno', '?')}: {why}")


def gstr(s):
    assert '"' not in s and "\\" not in s and "\n" not in s, s
    return '"' + s + '"'


def const_of(cx, e):
    """default / argument constant -> canonical text"""
    if isinstance(e, ast.Constant):
        v = e.value
        if v is None or isinstance(v, (bool, int, float, str)):
            r = repr(v)
            if '"' in r or "\\" in r:
                cx.fail(e, "string constant with quote/backslash")
            return r
        cx.fail(e, f"constant of type {type(v).__name__} outside the grammar")
    if isinstance(e, ast.Name) and e.id == "NotSet":
        return "NotSet"
    if isinstance(e, ast.UnaryOp) and isinstance(e.op, ast.USub) and isinstance(e.operand, ast.Constant) \
            and isinstance(e.operand.value, (int, float)) and not isinstance(e.operand.value, bool):
        return repr(-e.operand.value)
    cx.fail(e, "expression is not a constant of the grammar: " + ast.unparse(e))


def signature(cx, fn, drop_self):
    """-> list of (name, kind, default-or-None)"""
    a = fn.args
    if a.posonlyargs:
        cx.fail(fn, "positional-only parameters are outside the model")
    if a.kwarg is not None:
        cx.fail(fn, "**kwargs parameter is outside the model")
    pos = list(a.args)
    defaults = [None] * (len(pos) - len(a.defaults)) + list(a.defaults)
    if drop_self:
        if not pos or pos[0].arg != "self" or defaults[0] is not None:
            cx.fail(fn, "first parameter must be a plain `self`")
        pos, defaults = pos[1:], defaults[1:]
    out = []
    for p, d in zip(pos, defaults):
        out.append((p.arg, "PosKw", None if d is None else const_of(cx, d)))
    if a.vararg is not None:
        out.append((a.vararg.arg, "VarPos", None))
    for p, d in zip(a.kwonlyargs, a.kw_defaults):
        out.append((p.arg, "KwOnly", None if d is None else const_of(cx, d)))
    names = [n for n, _, _ in out]
    if len(set(names)) != len(names):
        cx.fail(fn, "duplicate parameter name")
    return out


def is_overload(fn):
    return any((isinstance(d, ast.Name) and d.id == "overload") or
               (isinstance(d, ast.Attribute) and d.attr == "overload") for d in fn.decorator_list)


def strip_doc(body):
    if body and isinstance(body[0], ast.Expr) and isinstance(body[0].value, ast.Constant) \
            and isinstance(body[0].value.value, str):
        return body[1:]
    return body


def is_typevar_assign(s):
    return (isinstance(s, ast.Assign) and len(s.targets) == 1 and isinstance(s.targets[0], ast.Name)
            and isinstance(s.value, ast.Call) and isinstance(s.value.func, ast.Name)
            and s.value.func.id in ("TypeVar", "TypeVarTuple", "ParamSpec"))


def is_type_checking_if(s):
    return (isinstance(s, ast.If) and isinstance(s.test, ast.Name) and s.test.id == "TYPE_CHECKING"
            and not s.orelse and all(isinstance(x, (ast.Import, ast.ImportFrom)) for x in s.body))


# --------------------------------------------------------------------------
# method bodies
# --------------------------------------------------------------------------

class Body:
    """one method body; `env` maps local names to ('self',) | ('op', name, args) | ('param', p)"""

    def __init__(self, cx, fn, sig, module_ops):
        self.cx, self.fn = cx, fn
        self.params = {n: k for n, k, _ in sig}
        self.have_ops = module_ops
        self.cast_ok = True

    # -- expressions ------------------------------------------------------
    def uncast(self, e):
        while (isinstance(e, ast.Call) and isinstance(e.func, ast.Name) and e.func.id == "cast"
               and len(e.args) == 2 and not e.keywords):
            e = e.args[1]
        return e

    def classify(self, e, env, used):
        """-> ('self',) | ('op', name, args) | ('param', p) | None"""
        e = self.uncast(e)
        if isinstance(e, ast.Name):
            if e.id in env:
                used[e.id] = used.get(e.id, 0) + 1
                return env[e.id]
            if e.id in self.params:
                return ("param", e.id)
            return None
        if (isinstance(e, ast.Call) and isinstance(e.func, ast.Attribute) and e.func.attr == "_as_observable"
                and isinstance(e.func.value, ast.Name) and e.func.value.id == "self"
                and not e.args and not e.keywords):
            return ("self",)
        if (isinstance(e, ast.Call) and isinstance(e.func, ast.Attribute)
                and isinstance(e.func.value, ast.Name) and e.func.value.id == "ops"):
            if not self.have_ops:
                self.cx.fail(e, "`ops` used without `from reactivex import operators as ops`")
            return ("op", e.func.attr, self.args(e, env, used))
        return None

    def src(self, e, env, used):
        c = self.classify(e, env, used)
        if c is not None and c[0] == "param":
            if self.params[c[1]] == "VarPos":
                self.cx.fail(e, f"*-parameter `{c[1]}` passed as a single value")
            return f"SParam {gstr(c[1])}"
        if c is not None:
            self.cx.fail(e, "argument is neither a parameter nor a constant: " + ast.unparse(e))
        return f"SConst {gstr(const_of(self.cx, self.uncast(e)))}"

    def args(self, call, env, used):
        out = []
        for a in call.args:
            if isinstance(a, ast.Starred):
                v = self.uncast(a.value)
                if not (isinstance(v, ast.Name) and self.params.get(v.id) == "VarPos"):
                    self.cx.fail(a, "`*X` where X is not the method's own *-parameter")
                out.append(f"AStar {gstr(v.id)}")
            else:
                out.append(f"APos ({self.src(a, env, used)})")
        for k in call.keywords:
            if k.arg is None:
                self.cx.fail(call, "`**X` in a call is outside the model")
            out.append(f"AKw {gstr(k.arg)} ({self.src(k.value, env, used)})")
        return out

    def form(self, e, env, used):
        e = self.uncast(e)
        if not isinstance(e, ast.Call):
            self.cx.fail(e, "return value is not a call: " + ast.unparse(e))
        f = e.func
        # self.M(ARGS)
        if (isinstance(f, ast.Attribute) and isinstance(f.value, ast.Name) and f.value.id == "self"
                and f.attr not in ("pipe", "_as_observable")):
            return f"FSelf {gstr(f.attr)} [{'; '.join(self.args(e, env, used))}]"
        # SELF.pipe(OPCALL)
        if isinstance(f, ast.Attribute) and f.attr == "pipe":
            recv = self.classify(f.value, env, used)
            if recv != ("self",):
                self.cx.fail(e, "receiver of .pipe is not self._as_observable()")
            if len(e.args) != 1 or e.keywords or isinstance(e.args[0], ast.Starred):
                self.cx.fail(e, ".pipe must receive exactly one operator")
            op = self.classify(e.args[0], env, used)
            if op is None or op[0] != "op":
                self.cx.fail(e, ".pipe argument is not ops.N(...)")
            return f"FOp {gstr(op[1])} [{'; '.join(op[2])}]"
        # OPCALL(SELF)
        op = self.classify(f, env, used)
        if op is not None and op[0] == "op":
            if len(e.args) != 1 or e.keywords or isinstance(e.args[0], ast.Starred):
                self.cx.fail(e, "operator must be applied to exactly one source")
            if self.classify(e.args[0], env, used) != ("self",):
                self.cx.fail(e, "operator is applied to something other than self._as_observable()")
            return f"FOp {gstr(op[1])} [{'; '.join(op[2])}]"
        self.cx.fail(e, "return value outside the grammar: " + ast.unparse(e))

    # -- statements -------------------------------------------------------
    def block(self, stmts, env, top):
        """-> (branches so far [(guards, form)], final form or None)"""
        env = dict(env)
        used = {}
        assigned = {}
        branches = []
        for i, s in enumerate(stmts):
            if isinstance(s, ast.ImportFrom):
                for al in s.names:
                    bound = al.asname or al.name
                    if s.module == "reactivex" and al.name == "operators" and bound == "ops" and s.level == 0:
                        self.have_ops = True
                    elif bound in ("ops", "self") or bound in self.params:
                        self.cx.fail(s, f"import rebinds `{bound}`")
                    elif bound == "cast" and s.module != "typing":
                        self.cx.fail(s, "`cast` is not typing.cast")
                continue
            if isinstance(s, (ast.Assign, ast.AnnAssign)):
                if isinstance(s, ast.Assign):
                    if len(s.targets) != 1:
                        self.cx.fail(s, "multiple assignment")
                    tgt, val = s.targets[0], s.value
                else:
                    tgt, val = s.target, s.value
                if not isinstance(tgt, ast.Name) or val is None:
                    self.cx.fail(s, "assignment target outside the grammar")
                if tgt.id in self.params or tgt.id in ("self", "ops", "cast") or tgt.id in env:
                    self.cx.fail(s, f"assignment rebinds `{tgt.id}`")
                c = self.classify(val, env, used)
                if c is None:
                    self.cx.fail(s, "assigned expression outside the grammar: " + ast.unparse(val))
                env[tgt.id] = c
                assigned[tgt.id] = s
                continue
            if isinstance(s, ast.If):
                if not top:
                    self.cx.fail(s, "nested if")
                t = s.test
                if s.orelse:
                    self.cx.fail(s, "if with else")
                if not (isinstance(t, ast.Compare) and len(t.ops) == 1 and isinstance(t.ops[0], ast.Is)
                        and isinstance(t.left, ast.Name) and self.params.get(t.left.id) in ("PosKw", "KwOnly")):
                    self.cx.fail(s, "guard is not `PARAM is None` / `PARAM is NotSet`")
                c = const_of(self.cx, t.comparators[0])
                if c not in GUARD_CONSTS:
                    self.cx.fail(s, "guard constant is not None/NotSet")
                sub_br, sub_final = self.block(s.body, env, top=False)
                if sub_br or sub_final is None:
                    self.cx.fail(s, "guarded suite must be assignments followed by one return")
                branches.append((f"[({gstr(t.left.id)}, {gstr(c)})]", sub_final))
                continue
            if isinstance(s, ast.Return):
                if i != len(stmts) - 1:
                    self.cx.fail(stmts[i + 1], "statement after return")
                if s.value is None:
                    self.cx.fail(s, "bare return")
                final = self.form(s.value, env, used)
                for name, st in assigned.items():
                    if used.get(name, 0) != 1:
                        self.cx.fail(st, f"local `{name}` is used {used.get(name, 0)} times (must be exactly once)")
                return branches, final
            self.cx.fail(s, "statement outside the grammar: " + type(s).__name__)
        for name, st in assigned.items():
            self.cx.fail(st, f"local `{name}` assigned but block does not return")
        return branches, None


def translate_mixins(repo):
    entries = []          # (name, where, sig, branches)
    seen = {}
    files = sorted(glob.glob(os.path.join(repo, MIXIN_DIR, "*.py")))
    if not files:
        raise TranslateError(f"translator cannot read {MIXIN_DIR}: no files")
    for path in files:
        rel = os.path.relpath(path, repo)
        if os.path.basename(path) == "__init__.py":
            continue
        cx = Ctx(rel)
        try:
            mod = ast.parse(open(path).read())
        except SyntaxError as e:
            raise TranslateError(f"translator cannot read {rel}:{e.lineno}: syntax error")
        module_ops = False
        nclasses = 0
        for s in strip_doc(mod.body):
            if isinstance(s, ast.ImportFrom):
                for al in s.names:
                    if (al.asname or al.name) == "ops":
                        if s.module == "reactivex" and al.name == "operators" and s.level == 0:
                            module_ops = True
                        else:
                            cx.fail(s, "`ops` bound to something other than reactivex.operators")
                    if (al.asname or al.name) == "cast" and s.module != "typing":
                        cx.fail(s, "`cast` is not typing.cast")
                continue
            if isinstance(s, ast.Import) or is_typevar_assign(s) or is_type_checking_if(s):
                continue
            if not isinstance(s, ast.ClassDef):
                cx.fail(s, "module-level statement outside the grammar: " + type(s).__name__)
            if s.decorator_list or s.keywords:
                cx.fail(s, "decorated class / class keywords")
            nclasses += 1
            pending_overload = set()
            members = strip_doc(s.body)
            last_def = {}
            for m in members:
                if isinstance(m, ast.FunctionDef):
                    last_def[m.name] = m
            for m in members:
                if not isinstance(m, ast.FunctionDef):
                    cx.fail(m, "class member outside the grammar: " + type(m).__name__)
                if is_overload(m):
                    if len(m.decorator_list) != 1 or last_def[m.name] is m:
                        cx.fail(m, "@overload without a following implementation")
                    pending_overload.add(m.name)
                    continue
                if m.decorator_list:
                    cx.fail(m, "decorated method")
                if last_def[m.name] is not m:
                    cx.fail(m, f"method `{m.name}` is redefined later in the class")
                if m.name == "_as_observable":
                    b = strip_doc(m.body)
                    ok = (len(b) == 1 and isinstance(b[0], ast.Return) and isinstance(b[0].value, ast.Call)
                          and isinstance(b[0].value.func, ast.Name) and b[0].value.func.id == "cast"
                          and len(b[0].value.args) == 2 and isinstance(b[0].value.args[0], ast.Constant)
                          and isinstance(b[0].value.args[1], ast.Name) and b[0].value.args[1].id == "self"
                          and [a.arg for a in m.args.args] == ["self"] and not m.args.vararg
                          and not m.args.kwonlyargs and not m.args.kwarg)
                    if not ok:
                        cx.fail(m, "_as_observable is not `return cast(<str>, self)`")
                    continue
                if m.name.startswith("_"):
                    cx.fail(m, "private/dunder method in a mixin")
                sig = signature(cx, m, drop_self=True)
                body = Body(cx, m, sig, module_ops)
                branches, final = body.block(strip_doc(m.body), {}, top=True)
                if final is None:
                    cx.fail(m, "method body does not end with return")
                if m.name in seen:
                    cx.fail(m, f"method `{m.name}` also defined in {seen[m.name]}")
                seen[m.name] = f"{rel}:{m.lineno}"
                entries.append((m.name, f"{os.path.basename(rel)}:{m.lineno}", sig,
                                branches + [("[]", final)]))
        if nclasses == 0:
            cx.fail(mod, "no mixin class")
    # Observable itself must not shadow a translated method
    cx = Ctx(OBS_PATH)
    mod = ast.parse(open(os.path.join(repo, OBS_PATH)).read())
    cls = [c for c in mod.body if isinstance(c, ast.ClassDef) and c.name == "Observable"]
    if len(cls) != 1:
        cx.fail(mod, "no unique class Observable")
    for m in cls[0].body:
        nm = getattr(m, "name", None)
        if isinstance(m, (ast.Assign, ast.AnnAssign)):
            tg = m.targets if isinstance(m, ast.Assign) else [m.target]
            for t in tg:
                if isinstance(t, ast.Name) and t.id in seen:
                    cx.fail(m, f"Observable rebinds mixin method `{t.id}`")
        if nm in seen:
            cx.fail(m, f"Observable overrides mixin method `{nm}` ({seen[nm]})")
    bases = [ast.unparse(b) for b in cls[0].bases]
    return entries, bases


def translate_ops(repo):
    cx = Ctx(OPS_PATH)
    mod = ast.parse(open(os.path.join(repo, OPS_PATH)).read())
    sigs, canon, order = {}, {}, []
    pending = set()
    for s in strip_doc(mod.body):
        if isinstance(s, (ast.Import, ast.ImportFrom)) or is_typevar_assign(s) or is_type_checking_if(s):
            if isinstance(s, (ast.Import, ast.ImportFrom)):
                for al in s.names:
                    if (al.asname or al.name.split(".")[0]) in sigs:
                        cx.fail(s, f"import rebinds operator `{al.asname or al.name}`")
            continue
        if isinstance(s, ast.FunctionDef):
            if is_overload(s):
                if len(s.decorator_list) != 1:
                    cx.fail(s, "overload with further decorators")
                pending.add(s.name)
                sigs.pop(s.name, None)
                continue
            if s.decorator_list:
                cx.fail(s, "decorated operator function")
            if s.name in sigs:
                cx.fail(s, f"operator `{s.name}` defined twice")
            pending.discard(s.name)
            sigs[s.name] = signature(cx, s, drop_self=False)
            canon[s.name] = s.name
            order.append(s.name)
            continue
        if isinstance(s, ast.Assign) and len(s.targets) == 1 and isinstance(s.targets[0], ast.Name):
            t = s.targets[0].id
            if t == "__all__":
                continue
            if isinstance(s.value, ast.Name) and s.value.id in sigs and t not in sigs:
                sigs[t] = sigs[s.value.id]
                canon[t] = canon[s.value.id]
                order.append(t)
                continue
        cx.fail(s, "module-level statement outside the grammar: " + ast.unparse(s)[:60])
    if pending:
        cx.fail(mod, f"@overload without implementation: {sorted(pending)}")
    return [(n, canon[n], sigs[n]) for n in order if not n.startswith("_")]


def gparam(p):
    n, k, d = p
    return f"mkp {gstr(n)} {k} " + ("None" if d is None else f"(Some {gstr(d)})")


def translate(repo):
    entries, bases = translate_mixins(repo)
    optab = translate_ops(repo)
    out = ["(* GENERATED by harness/translate/fluent_tr.py from /repo/" + MIXIN_DIR + "/*.py and /repo/"
           + OPS_PATH + " -- do not edit *)",
           "From Coq Require Import List String.",
           "From RxVerif Require Import Ops.Fluent.",
           "Import ListNotations.",
           "Open Scope string_scope.",
           "",
           f"(* {len(entries)} fluent methods; Observable bases: {', '.join(bases)} *)",
           "Definition fluent_table : list entry := ["]
    rows = []
    for name, where, sig, branches in sorted(entries):
        br = ";\n      ".join(f"mkbr {g} ({f})" for g, f in branches)
        rows.append(f"  (* {where} *)\n  mke {gstr(name)} [{'; '.join(gparam(p) for p in sig)}]\n     [{br}]")
    out.append(";\n".join(rows))
    out.append("].")
    out.append("")
    out.append(f"(* {len(optab)} public names of reactivex.operators (aliases carry the aliased function's name) *)")
    out.append("Definition op_table : list opsig := [")
    out.append(";\n".join(f"  mko {gstr(n)} {gstr(c)} [{'; '.join(gparam(p) for p in sig)}]"
                          for n, c, sig in sorted(optab)))
    out.append("].")
    out.append("")
    return "\n".join(out)


if __name__ == "__main__":
    print(translate(sys.argv[1] if len(sys.argv) > 1 else "/repo"))
