"""C19 -- oracle-only re-entrant FEEDBACK family for group_by_until / group_by / partition.

The source is a hand-made hot probe (no Subject, no lock, no queue): the handlers of the group subscribers
(on_next / on_completed / on_error) and the outer subscriber's on_next push further elements (same key / other key)
or terminals into that probe RE-ENTRANTLY, per a seeded reaction table; durations of group_by_until are hot probes
fired by the top-level script.

Reference (written from the statement, depth-first = the order in which things are made): a push is
  [key has no live group -> a new group is announced (callbacks of the announcement run to their end)] ;
  [the element is delivered to the live group of its key (callbacks of the delivery run to their end)].
A group whose duration fired is NOT live any more when its subscribers hear on_completed, so an element of that key
made inside that very callback opens a new group and is delivered to it.  A terminal reaches every open group, then
the outer; the probe is a conforming source: once it has started a terminal it makes nothing more.

What is left open is accepted:
 * while a group is being announced (inside the outer subscriber's on_next) the driver makes no terminal (the
   element that opened the group is still on its way; whether it or the terminal comes first is not stated);
 * elements reaching a group while that group is still being announced may come before or after the element that
   opened it: such a group's elements are compared as a multiset;
 * nothing is demanded about the order BETWEEN groups, only each group's own sequence and the announcement order.
"""

OPS = ["group_by_until", "group_by", "partition"]


def _key_of(a, key, nk):
    return key if a[1] == "same" else (key + 1) % nk


def run_feedback(case):
    """-> (groups [[key, events]], outer events, escaped)"""
    import reactivex
    from reactivex import operators as ops
    from reactivex.disposable import Disposable
    op, nk, react = case["op"], case["nk"], case["react"]

    class Probe:
        def __init__(self):
            self.obs, self.stopped = [], False

        def observable(self):
            def sub(o, scheduler=None):
                self.obs.append(o)
                return Disposable(lambda: self.obs.remove(o) if o in self.obs else None)
            return reactivex.Observable(sub)

        def next(self, v):
            if self.stopped:
                return
            for o in list(self.obs):
                o.on_next(v)

        def term(self, kind):
            if self.stopped:
                return
            self.stopped = True
            for o in list(self.obs):
                if kind == "C":
                    o.on_completed()
                else:
                    o.on_error(RuntimeError("boom"))
    src = Probe()
    durs = []
    groups, outer, escaped = [], [], []
    st = {"in_outer": 0}

    def do(actions, key):
        for a in actions:
            if a[0] == "N":
                src.next([_key_of(a, key, nk), a[2]])
            elif not st["in_outer"]:
                src.term(a[1])

    def handlers(g, key):
        rec = groups[g][1]

        def on_next(v):
            rec.append(["N", v[1]])
            do(react["on_next"].get(str(v[1]), []), v[0])

        def on_error(e):
            rec.append(["E"])
            do(react["on_error"].get(str(g), []), key)

        def on_completed():
            rec.append(["C"])
            do(react["on_completed"].get(str(g), []), key)
        return on_next, on_error, on_completed

    def dur(_g):
        p = Probe()
        durs.append(p)
        return p.observable()

    def on_group(go):
        g = len(groups)
        groups.append([go.key, []])
        outer.append(["G", go.key])
        go.subscribe(*handlers(g, go.key))
        st["in_outer"] += 1
        try:
            do(react["outer"].get(str(g), []), go.key)
        finally:
            st["in_outer"] -= 1
    key = lambda kv: kv[0]
    if op == "partition":
        outs = src.observable().pipe(ops.partition(lambda kv: kv[0] == 0))
        for g in (0, 1):
            groups.append([g, []])
        for g in (0, 1):
            outs[g].subscribe(*handlers(g, g))
    else:
        o = ops.group_by_until(key, None, dur) if op == "group_by_until" else ops.group_by(key)
        src.observable().pipe(o).subscribe(on_group, lambda e: outer.append(["E"]), lambda: outer.append(["C"]))
    try:
        for step in case["script"]:
            if step[0] == "N":
                src.next([step[1], step[2]])
            elif step[0] == "expire":
                if step[1] < len(durs):
                    durs[step[1]].next(0)
            else:
                src.term(step[1])
    except Exception as e:      # noqa: BLE001  nothing may escape into the emitter
        escaped.append(type(e).__name__)
    return groups, outer, escaped


def ref_feedback(case):
    """-> (groups, outer, loose group ids, stats)"""
    op, nk, react = case["op"], case["nk"], case["react"]
    part, until = op == "partition", op == "group_by_until"
    groups = [[0, []], [1, []]] if part else []
    live = {0: 0, 1: 1} if part else {}
    outer, loose, handing = [], set(), []
    st = {"stopped": False, "in_outer": 0, "reborn_in_own_completion": 0, "fed_back": 0, "nested_terminal": 0}

    def do(actions, key, completing=None):
        for a in actions:
            if a[0] == "N":
                k = _key_of(a, key, nk)
                if not st["stopped"]:
                    st["fed_back"] += 1
                    if completing is not None and k == completing and k not in live:
                        st["reborn_in_own_completion"] += 1
                push_next(k, a[2])
            elif not st["in_outer"]:
                if not st["stopped"]:
                    st["nested_terminal"] += 1
                push_term(a[1])

    def push_next(k, uid):
        if st["stopped"]:
            return
        if k not in live:
            g = len(groups)
            groups.append([k, []])
            live[k] = g
            outer.append(["G", k])
            st["in_outer"] += 1
            handing.append(g)
            do(react["outer"].get(str(g), []), k)
            handing.pop()
            st["in_outer"] -= 1
        g = live[k]
        if g in handing:
            loose.add(g)
        groups[g][1].append(["N", uid])
        do(react["on_next"].get(str(uid), []), k)

    def push_term(kind):
        if st["stopped"]:
            return
        st["stopped"] = True
        for g in sorted(live.values()):
            groups[g][1].append([kind])
        live.clear()
        if not part:
            outer.append([kind])

    def expire(g):
        if until and g < len(groups) and live.get(groups[g][0]) == g:
            k = groups[g][0]
            del live[k]
            groups[g][1].append(["C"])
            do(react["on_completed"].get(str(g), []), k, completing=k)
    for step in case["script"]:
        if step[0] == "N":
            push_next(step[1], step[2])
        elif step[0] == "expire":
            expire(step[1])
        else:
            push_term(step[1])
    return groups, outer, sorted(loose), st


def _norm(events, is_loose):
    if not is_loose:
        return events
    return sorted(e for e in events if e[0] == "N") + [e for e in events if e[0] != "N"]


def check_feedback(case, timeout=3.0):
    """-> (difference kind or None, got, expected)"""
    import lib
    exp = ref_feedback(case)
    try:
        status, got = lib.with_timeout(timeout, run_feedback, case)
    except Exception as e:       # noqa: BLE001  escaped from the library into the driver (subscribe time, ...)
        return "escaped", f"exception escaped into the driver: {e!r}", exp
    if status != "ok":
        return "timeout", "no answer within the budget", exp
    groups, outer, escaped = got
    got = ([[k, list(ev)] for k, ev in groups], list(outer), list(escaped))
    if escaped:
        return "escaped", got, exp
    if [g[0] for g in groups] != [g[0] for g in exp[0]]:
        return "groups-announced", got, exp
    for i, (a, b) in enumerate(zip(groups, exp[0])):
        if _norm(a[1], i in exp[2]) != _norm(b[1], i in exp[2]):
            return "group-content", got, exp
    if outer != exp[1]:
        return "outer", got, exp
    return None, got, exp


def gen_feedback(rng, op):
    nk = 2 if op == "partition" else rng.choice([1, 2, 2, 3])
    uid = [0]

    def fresh():
        uid[0] += 1
        return uid[0] - 1
    script = []
    for _ in range(rng.choice([2, 3, 4, 6])):
        if op == "group_by_until" and rng.random() < 0.38:
            script.append(["expire", rng.randrange(4)])
        else:
            script.append(["N", rng.randrange(nk), fresh()])
    r = rng.random()
    if r < 0.5:
        script.append(["term", "C"])
    elif r < 0.65:
        script.append(["term", "E"])
    budget = [rng.choice([1, 2, 3, 5])]

    def actions(allow_term):
        acts = []
        for _ in range(rng.choice([1, 1, 2])):
            if budget[0] <= 0:
                break
            budget[0] -= 1
            if allow_term and rng.random() < 0.12:
                acts.append(["term", rng.choice("CCE")])
            else:
                acts.append(["N", rng.choice(["same", "same", "other"]), fresh()])
        return acts
    react = {"on_next": {}, "on_completed": {}, "on_error": {}, "outer": {}}
    order = ["on_completed", "outer", "on_error"]
    rng.shuffle(order)
    for tab in order:
        p = {"on_completed": 0.55 if op == "group_by_until" else 0.1, "outer": 0.25, "on_error": 0.15}[tab]
        for g in range(4):
            if rng.random() < p:
                acts = actions(tab != "outer")
                if acts:
                    react[tab][str(g)] = acts
    u = 0
    while u < uid[0]:
        if rng.random() < 0.3:
            acts = actions(True)
            if acts:
                react["on_next"][str(u)] = acts
        u += 1
    return {"op": op, "nk": nk, "script": script, "react": react}


def case_size(case):
    return len(case["script"]) + sum(len(a) for t in case["react"].values() for a in t.values())


def feedback_scenarios(chk):
    n = 500 if chk.tier == "quick" else 8000
    worst = {}
    nontrivial = set()
    stats = {"cases": 0, "fed_back_elements": 0, "reborn_in_own_completion": 0, "nested_terminals": 0,
             "order_loose_groups": 0}
    per_op = {o: 0 for o in OPS}
    for _ in range(n):
        op = chk.rng.choice(["group_by_until"] * 3 + ["group_by", "partition"])
        case = gen_feedback(chk.rng, op)
        diff, got, exp = check_feedback(case)
        chk.cov["evaluations"] += 1
        stats["cases"] += 1
        per_op[op] += 1
        if diff:
            sig = f"C19|feedback|{op}|{diff}"
            if sig not in worst or case_size(case) < case_size(worst[sig][0]):
                worst[sig] = (case, got, exp)
            continue
        s = exp[3]
        stats["fed_back_elements"] += s["fed_back"]
        stats["reborn_in_own_completion"] += s["reborn_in_own_completion"]
        stats["nested_terminals"] += s["nested_terminal"]
        stats["order_loose_groups"] += len(exp[2])
        if s["fed_back"] or s["nested_terminal"]:
            nontrivial.add(repr(case))
    for sig, (case, got, exp) in worst.items():
        chk.violation(sig, {"feedback_case": case,
                            "got (groups [key, events], outer, escaped)": repr(got),
                            "expected (groups, outer, groups compared as multisets)": repr(exp[:3]),
                            "oracle": "every element made -- also re-entrantly from a handler of a group / of the "
                                      "outer subscriber -- goes to exactly the live group of its key; a key seen "
                                      "after its group expired (also from inside that group's own on_completed) "
                                      "opens a new group; a terminal reaches every open group, then the outer"},
                      size=case_size(case))
    chk.cov["feedback_cases"] = stats["cases"]
    chk.cov["feedback_cases_per_operator"] = per_op
    chk.cov["feedback_elements_fed_back"] = stats["fed_back_elements"]
    chk.cov["feedback_groups_reborn_inside_own_completion"] = stats["reborn_in_own_completion"]
    chk.cov["feedback_nested_terminals"] = stats["nested_terminals"]
    chk.cov["feedback_groups_compared_as_multisets"] = stats["order_loose_groups"]
    return nontrivial
