"""Shared machinery of the /verif checks.

One check = one call of  ./check <id> [--tier quick|thorough] [--replay file]:
  1. translators regenerate coq/theories/Gen/*.v from /repo's working tree
  2. `make` (full .vo build, incremental) under a file lock
  3. the property's theorem file Props/<id>.v is re-compiled, its
     `Print Assumptions` output is captured and its theorems are counted
  4. correspondence: cases run on the implementation (imported from /repo) are
     written, with the observed outputs, into a Coq file; Coq evaluates the
     model on the same inputs with vm_compute and prints the indices on which
     model and implementation differ
  5. a direct oracle of the property statement is evaluated on the
     implementation's outputs
  6. verdict + evidence/<id>.json
"""
from __future__ import annotations

import fcntl
import hashlib
import json
import os
import random
import re
import subprocess
import sys
import time
import traceback

VERIF = os.path.dirname(os.path.dirname(os.path.abspath(__file__)))
REPO = os.environ.get("VERIF_REPO", "/repo")
COQ = os.path.join(VERIF, "coq")
SCRATCH = os.path.join(COQ, "scratch")
EVIDENCE = os.path.join(VERIF, "evidence")
REPLAY = os.path.join(VERIF, "replay")
GUARD = "REACTIVEX_RXPY_VERIF"
MAX_REPORT = 3

COQ_WARN = ["-w", "-notation-overridden,-deprecated-hint-without-locality,"
            "-deprecated-instance-without-locality"]

TRUSTED_BASE_COMMON = [
    "Coq 8.16.1 kernel (coqc); vm_compute for closed computations (witness Examples and the "
    "evaluation of models on correspondence cases); no native_compute",
    "no Axiom/Parameter/Admitted in the development (grep-checked on every run); axioms per theorem "
    "as printed by Print Assumptions (recorded in coverage.assumptions_printed)",
    "correspondence harness (python): case generators, Gallina literal printer, drivers of the "
    "implementation, canonicalisation of outputs",
    "CPython 3.12 executing /repo/reactivex (imported from the working tree, asserted)",
]


def import_repo():
    """Make `import reactivex` resolve to /repo's working tree (asserted)."""
    if REPO not in sys.path:
        sys.path.insert(0, REPO)
    os.environ[GUARD] = "1"
    import reactivex  # noqa
    f = os.path.abspath(reactivex.__file__)
    assert f.startswith(os.path.abspath(REPO) + "/"), f"reactivex imported from {f}, not {REPO}"
    return reactivex


# --------------------------------------------------------------------------
# Coq side
# --------------------------------------------------------------------------

def _run(cmd, cwd=None, timeout=900, env=None):
    try:
        p = subprocess.run(cmd, cwd=cwd, stdout=subprocess.PIPE, stderr=subprocess.STDOUT,
                           timeout=timeout, text=True, env=env)
        return p.returncode, p.stdout
    except subprocess.TimeoutExpired as e:
        out = e.stdout if isinstance(e.stdout, str) else (e.stdout or b"").decode("utf8", "replace")
        return 124, out + f"\n[timeout after {timeout}s]"


def write_if_changed(path, text):
    try:
        if open(path).read() == text:
            return False
    except FileNotFoundError:
        pass
    os.makedirs(os.path.dirname(path), exist_ok=True)
    tmp = path + ".tmp%d" % os.getpid()
    with open(tmp, "w") as f:
        f.write(text)
    os.replace(tmp, path)
    return True


class Lock:
    def __init__(self, name="build"):
        os.makedirs(SCRATCH, exist_ok=True)
        self.path = os.path.join(SCRATCH, f".{name}.lock")

    def __enter__(self):
        self.f = open(self.path, "w")
        fcntl.flock(self.f, fcntl.LOCK_EX)
        return self

    def __exit__(self, *a):
        fcntl.flock(self.f, fcntl.LOCK_UN)
        self.f.close()


def translators():
    """name -> (generated file, function producing its text).  Fail-closed."""
    sys.path.insert(0, os.path.join(VERIF, "harness"))
    out = {}
    from translate import slice_tr
    out["slice"] = ("theories/Gen/SliceGen.v",
                    lambda: slice_tr.translate(open(f"{REPO}/{slice_tr.PATH}").read()))
    try:
        from translate import fluent_tr
        out["fluent"] = ("theories/Gen/FluentTable.v", lambda: fluent_tr.translate(REPO))
    except ImportError:
        pass
    try:
        from translate import alloc_tr
        out["alloc"] = ("theories/Gen/AllocTable.v", lambda: alloc_tr.translate(REPO))
    except ImportError:
        pass
    return out


# which Props files depend on which translator (a translator failure is a
# broken tie for exactly these properties)
TRANSLATOR_USERS = {"slice": ["C07"], "fluent": ["C39"], "alloc": ["C04", "C44"]}

FORBIDDEN = re.compile(r"\b(Admitted|admit|Axiom|Axioms|Parameter|Parameters|Conjecture|Hypothesis|"
                       r"Variable|Variables|Hypotheses)\b|Unset\s+Guard|bypass_check|type-in-type|"
                       r"impredicative-set|Admit\s+Obligations")


def scan_forbidden():
    """grep the development; Variable/Hypothesis are allowed only inside a Section."""
    hits = []
    for root, _, files in os.walk(os.path.join(COQ, "theories")):
        for fn in sorted(files):
            if not fn.endswith(".v"):
                continue
            path = os.path.join(root, fn)
            depth = 0
            text = re.sub(r"\(\*.*?\*\)", lambda m: "\n" * m.group(0).count("\n"),
                          open(path).read(), flags=re.S)
            for ln, line in enumerate(text.split("\n"), 1):
                if re.match(r"\s*Section\b", line):
                    depth += 1
                elif re.match(r"\s*End\b", line) and depth > 0:
                    depth -= 1
                for m in FORBIDDEN.finditer(line):
                    w = m.group(0)
                    if w.startswith(("Variable", "Hypothes")) and depth > 0:
                        continue
                    hits.append(f"{os.path.relpath(path, COQ)}:{ln}: {w}")
    return hits


def coq_build(jobs=16):
    """Regenerate Gen/*.v, then a full incremental `make`.  Returns a dict:
    ok, log, translator_errors {name: msg}, failed_file."""
    res = {"ok": True, "log": "", "translator_errors": {}, "failed_file": None, "regenerated": []}
    with Lock("build"):
        for name, (rel, fn) in translators().items():
            try:
                text = fn()
            except Exception as e:  # fail closed: a broken tie, not a crash
                res["translator_errors"][name] = f"{type(e).__name__}: {e}"
                continue
            if write_if_changed(os.path.join(COQ, rel), text):
                res["regenerated"].append(rel)
        files = []
        for root, _, fs in os.walk(os.path.join(COQ, "theories")):
            for fn in fs:
                if fn.endswith(".v"):
                    files.append(os.path.relpath(os.path.join(root, fn), COQ))
        head = open(os.path.join(COQ, "_CoqProject.head")).read()
        changed = write_if_changed(os.path.join(COQ, "_CoqProject"), head + "\n".join(sorted(files)) + "\n")
        if changed or not os.path.exists(os.path.join(COQ, "Makefile")):
            rc, out = _run(["coq_makefile", "-f", "_CoqProject", "-o", "Makefile"], cwd=COQ, timeout=120)
            if rc != 0:
                res.update(ok=False, log=out)
                return res
        # -k: keep going so that one broken proof does not hide the others
        rc, out = _run(["make", "-k", f"-j{jobs}"], cwd=COQ, timeout=3000)
        res["log"] = out
        if rc != 0:
            res["ok"] = False
            m = re.findall(r'File "\./(theories/[^"]+)", line (\d+)', out)
            res["failed_files"] = sorted({f for f, _ in m})
            res["failed_file"] = res["failed_files"][0] if res["failed_files"] else None
    return res


def vo_ok(rel_v):
    """.vo exists and is newer than its source"""
    v = os.path.join(COQ, rel_v)
    vo = v + "o"
    return os.path.exists(vo) and os.path.getmtime(vo) >= os.path.getmtime(v)


def props_check(pid):
    """Re-compile Props/<pid>.v alone (its dependencies come from make) and
    read theorems + Print Assumptions.  Returns dict."""
    rel = f"theories/Props/{pid}.v"
    src = open(os.path.join(COQ, rel)).read()
    nocomment = re.sub(r"\(\*.*?\*\)", "", src, flags=re.S)
    theorems = re.findall(r"^\s*Theorem\s+(\w+)", nocomment, flags=re.M)
    examples = re.findall(r"^\s*Example\s+(\w+)", nocomment, flags=re.M)
    with Lock("build"):
        rc, out = _run(["coqc", *COQ_WARN, "-R", "theories", "RxVerif", rel], cwd=COQ, timeout=900)
    blocks = []
    cur = None
    for line in out.split("\n"):
        if line.startswith("Closed under the global context"):
            blocks.append([])
            cur = None
        elif line.startswith("Axioms:"):
            cur = []
            blocks.append(cur)
        elif cur is not None and line.strip():
            cur.append(line.rstrip())
    axioms = sorted({re.split(r"\s*:", a.strip())[0] for b in blocks for a in b
                     if a and not a.startswith(" " * 4)})
    return {"file": rel, "ok": rc == 0, "log": out if rc != 0 else "", "theorems": theorems,
            "examples": examples, "obligations": len(theorems) + len(examples),
            "discharged": (len(theorems) + len(examples)) if rc == 0 else 0,
            "print_assumptions_blocks": len(blocks), "axioms": axioms}


def coq_eval(pid, name, body, imports, timeout=600):
    """Compile a scratch file `body` (a string of vernacular) and return (rc, stdout)."""
    os.makedirs(SCRATCH, exist_ok=True)
    fn = f"S_{pid}_{name}_{os.getpid()}"
    path = os.path.join(SCRATCH, fn + ".v")
    with open(path, "w") as f:
        f.write("Set Printing Width 1000000.\nSet Printing Depth 1000000.\n")
        f.write(f"From RxVerif Require Import {imports}.\n")
        f.write(body)
    rc, out = _run(["coqc", *COQ_WARN, "-R", "theories", "RxVerif", "-Q", "scratch", "Scratch",
                    os.path.join("scratch", fn + ".v")], cwd=COQ, timeout=timeout)
    for ext in (".v", ".vo", ".vok", ".vos", ".glob"):
        try:
            os.remove(os.path.join(SCRATCH, fn + ext))
        except FileNotFoundError:
            pass
    try:
        os.remove(os.path.join(SCRATCH, "." + fn + ".aux"))
    except FileNotFoundError:
        pass
    return rc, out


def parse_nat_list(out):
    """parse the LAST `= [..] : list nat` (or `= [] ...`) printed by Eval"""
    m = re.findall(r"=\s*\[([^\]]*)\]\s*:\s*list nat", out.replace("\n", " "))
    if not m:
        return None
    s = m[-1].strip()
    if not s:
        return []
    return [int(x.replace("%nat", "").strip()) for x in s.split(";")]


def correspondence(pid, name, imports, case_ty, model_fn, eqb, cases, shard=400, jobs=16,
                   prelude=""):
    """cases: list of (gallina_input, gallina_expected_output) strings.
    Coq computes  bad_idx (fun c => eqb (model (fst c)) (snd c)) cases.
    Returns (bad indices (global), raw logs for failures)."""
    from concurrent.futures import ThreadPoolExecutor
    shards = [(i, cases[i:i + shard]) for i in range(0, len(cases), shard)]

    def one(sh):
        base, cs = sh
        body = [prelude, f"Definition cases : list ({case_ty}) := ["]
        body.append(";\n".join(f"({a}, {b})" for a, b in cs))
        body.append("].")
        body.append(f"Definition ok (c : {case_ty}) : bool := {eqb} ({model_fn} (fst c)) (snd c).")
        body.append("Eval vm_compute in (bad_idx ok cases).")
        for attempt in range(3):
            rc, out = coq_eval(pid, f"{name}{base}", "\n".join(body), imports)
            bad = parse_nat_list(out) if rc == 0 else None
            if bad is not None:
                return base, [base + b for b in bad], out
            # a shard that failed to EVALUATE (not a disagreement): most likely a concurrent `make`
            # was rewriting an imported .vo; wait for the build lock and try again
            with Lock("build"):
                pass
        return base, None, out

    bad_all, logs = [], []
    with ThreadPoolExecutor(max_workers=jobs) as ex:
        for base, bad, out in ex.map(one, shards):
            if bad is None:
                logs.append(out[-4000:])
                bad_all.append(-1 - base)   # marker: shard failed to evaluate
            else:
                bad_all.extend(bad)
    return bad_all, logs


def coq_show(pid, imports, term, prelude=""):
    rc, out = coq_eval(pid, "show", f"{prelude}\nEval vm_compute in ({term}).", imports)
    return out.strip()


# --------------------------------------------------------------------------
# Gallina literal printers
# --------------------------------------------------------------------------

def gz(n):
    return f"({int(n)})" if n < 0 else str(int(n))


def gopt(x, f=gz):
    return "None" if x is None else f"(Some {f(x)})"


def glist(xs, f=gz):
    return "[" + "; ".join(f(x) for x in xs) + "]"


def gbool(b):
    return "true" if b else "false"


def gnat(n):
    return f"{int(n)}%nat"


class Interner:
    """Python values -> small integers (model element type Z).  Values are
    interned by identity-of-representation (type and repr), so that None, 0,
    False, '' and () all get different ids."""

    def __init__(self):
        self.ids = {}
        self.vals = []

    def id(self, v):
        k = (type(v).__name__, repr(v))
        if k not in self.ids:
            self.ids[k] = len(self.vals)
            self.vals.append(v)
        return self.ids[k]


# --------------------------------------------------------------------------
# verdicts / evidence
# --------------------------------------------------------------------------

class Check:
    def __init__(self, pid, tier, seed, keep_replays=False):
        self.pid, self.tier, self.seed = pid, tier, seed
        self.rng = random.Random(seed)
        self.t0 = time.time()
        self.cov = {"evaluations": 0, "distinct_nontrivial": 0, "samples": [], "rule": "",
                    "obligations": 0, "discharged": 0, "checker_cmd": "", "trusted_base": [],
                    "traces_validated_against_impl": 0, "disagreements_checked": 0}
        self.assumptions = []
        self.violations = []      # (signature, replay dict)
        self.known_hits = []
        self.broken = []          # (what no longer checks, detail)
        self.notes = []
        os.makedirs(REPLAY, exist_ok=True)
        for fn in ([] if keep_replays else os.listdir(REPLAY)):   # replay files of earlier runs of this property
            if fn.startswith(pid + "-"):
                os.remove(os.path.join(REPLAY, fn))
        kf = os.path.join(VERIF, "known_findings.json")
        self.known = json.load(open(kf)) if os.path.exists(kf) else {"findings": [], "fixed": []}

    # -- reporting -------------------------------------------------------
    def violation(self, signature, replay, size=0):
        """A concrete failing input of the implementation (oracle failed).
        Only the MAX_REPORT smallest are written out as replay files."""
        replay = dict(replay, _size=size)
        for k in self.known.get("findings", []):
            if k["property"] == self.pid and k["signature"] == signature:
                if signature not in [s for s, _ in self.known_hits]:
                    self.known_hits.append((signature, k["what"]))
                return
        if signature not in [s for s, _ in self.violations]:
            self.violations.append((signature, replay))

    def tie_broken(self, what, detail):
        self.broken.append((what, detail))

    def add_samples(self, xs, limit=6):
        for x in xs:
            if len(self.cov["samples"]) < limit:
                self.cov["samples"].append(x)

    # -- standard first phase: build + theorems ---------------------------
    def build_and_prove(self):
        b = coq_build()
        self.build = b
        forb = scan_forbidden()
        if forb:
            self.tie_broken("forbidden-vernacular", forb)
        for name, msg in b["translator_errors"].items():
            if self.pid in TRANSLATOR_USERS.get(name, []):
                self.tie_broken(f"translator:{name}", msg)
        p = props_check(self.pid)
        self.props = p
        self.cov["obligations"] = p["obligations"]
        self.cov["discharged"] = p["discharged"]
        self.cov["theorems"] = p["theorems"]
        self.cov["assumptions_printed"] = p["axioms"] if p["axioms"] else ["Closed under the global context"]
        self.cov["checker_cmd"] = (f"cd /verif/coq && make -k -j16 && coqc -R theories RxVerif "
                                   f"theories/Props/{self.pid}.v  (Print Assumptions under every theorem)")
        if not p["ok"]:
            failed = b.get("failed_files") or []
            self.tie_broken(f"theorem-file:Props/{self.pid}.v",
                            {"failed_files": failed, "log": (b["log"][-3000:] if not b["ok"] else p["log"][-3000:])})
        if p["print_assumptions_blocks"] < len(p["theorems"]) and p["ok"]:
            self.tie_broken("print-assumptions-missing", p["theorems"])
        return p["ok"]

    # -- end ---------------------------------------------------------------
    def finish(self, level="proof", trusted_extra=(), assumptions=()):
        os.makedirs(EVIDENCE, exist_ok=True)
        os.makedirs(REPLAY, exist_ok=True)
        for sig, what in self.known_hits:
            print(f"KNOWN-FINDING: property={self.pid} {what} [{sig}]")
        lines = []
        self.cov["violations_found_total"] = len(self.violations)
        self.violations.sort(key=lambda v: (v[1].get("_size", 0), v[0]))
        for sig, rep in self.violations[:MAX_REPORT]:
            h = hashlib.sha1(sig.encode()).hexdigest()[:10]
            path = os.path.join(REPLAY, f"{self.pid}-{h}.json")
            rep = dict(rep)
            rep.update(property=self.pid, signature=sig,
                       replay_cmd=f"./check {self.pid} --replay {path}")
            with open(path, "w") as f:
                json.dump(rep, f, indent=1, default=repr)
            lines.append(f"VIOLATION property={self.pid} replay={path}")
        if self.broken and not self.violations:
            h = hashlib.sha1(json.dumps([w for w, _ in self.broken]).encode()).hexdigest()[:10]
            path = os.path.join(REPLAY, f"{self.pid}-broken-{h}.json")
            with open(path, "w") as f:
                json.dump({"property": self.pid,
                           "no_longer_checks": [{"what": w, "detail": d} for w, d in self.broken],
                           "searched": self.cov.get("search", "oracle over the enlarged case set"),
                           "note": "no failing input of the implementation was found; the property is "
                                   "no longer shown to hold"}, f, indent=1, default=repr)
            lines.append(f"VIOLATION property={self.pid} replay={path} no-failing-input-found")
        self.cov["trusted_base"] = TRUSTED_BASE_COMMON + list(trusted_extra)
        self.cov["known_findings_hit"] = [s for s, _ in self.known_hits]
        self.cov["ties_broken"] = [w for w, _ in self.broken]
        if self.notes:
            self.cov["notes"] = self.notes
        ev = {"property_id": self.pid, "tier": self.tier, "seed": self.seed, "level": level,
              "coverage": self.cov, "assumptions": list(assumptions) + self.assumptions,
              "wall_s": round(time.time() - self.t0, 2), "violations": len(lines)}
        with open(os.path.join(EVIDENCE, f"{self.pid}.json"), "w") as f:
            json.dump(ev, f, indent=1, default=repr)
        for l in lines:
            print(l)
        print(f"[{self.pid}] tier={self.tier} seed={self.seed} obligations={self.cov['obligations']} "
              f"discharged={self.cov['discharged']} evaluations={self.cov['evaluations']} "
              f"violations={len(lines)} known={len(self.known_hits)} wall={ev['wall_s']}s")
        return 1 if lines else 0


def with_timeout(seconds, fn, *a):
    """Run fn under SIGALRM; raises Budget (a BaseException: the library's
    `except Exception` blocks must not swallow it)."""
    import signal

    class Budget(BaseException):
        pass

    def h(sig, frm):
        raise Budget()

    old = signal.signal(signal.SIGALRM, h)
    signal.setitimer(signal.ITIMER_REAL, seconds)
    try:
        return ("ok", fn(*a))
    except Budget:
        return ("timeout", None)
    finally:
        signal.setitimer(signal.ITIMER_REAL, 0)
        signal.signal(signal.SIGALRM, old)
