#!/bin/bash
# usage: harness/seeded_eval.sh <patch.diff> <check-id> [<check-id> ...]
# applies a seeded change to /repo, runs the given quick checks, and reverse-applies it.
patch="$1"; shift
cd /verif
git -C /repo apply --check "$patch" || { echo "patch does not apply"; exit 3; }
git -C /repo apply "$patch"
trap 'git -C /repo apply -R "$patch"' EXIT
for id in "$@"; do
  echo "=== $id with $(basename $(dirname $patch)) applied"
  timeout 900 ./check "$id" --tier quick 2>&1 | tail -6
done
