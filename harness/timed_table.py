"""Operator-instance generators and the correspondence/oracle loop for the timed
operators (C15-C17).  Modelled on comb_table.py, but every run uses the proxy
scheduler of k2m (`use_scheduler=True`): the operator's timers are recorded
(`OTimer tag delay_ms`), fired by the event loop at their due time, and the
delivered input sequence (source notifications, ticks, dispose -- each with the
clock reading) is what the Coq machine (Ops/Timed.v) is run on.

Each generator returns dict(build(env, statics)->observable, coq, n_static, ty,
eqb, enc, spec, dynamic, bounds, gaps, periodic)."""
import datetime as _dt

import k2
import k2m
from k2 import UserError
from lib import gz

NONE_CODE = -7          # encoding of the element None in Gallina (elements are Z)
VALUES = [None, 0, 0, 1, 2, 3, 5, 7]


def enc_val(v):
    return gz(NONE_CODE if v is None else int(v))


def ms(td):
    return int(round(td.total_seconds() * 1000))


def enc_stamp(v):       # Timestamp(value, timestamp)
    return f"({enc_val(v.value)}, {gz(ms(v.timestamp - k2m.EPOCH))})"


def enc_interval(v):    # TimeInterval(value, interval)
    return f"({enc_val(v.value)}, {gz(ms(v.interval))})"


ZT = dict(ty="Z", eqb="Z.eqb", enc=enc_val)
ZZ = dict(ty="(Z * Z)", eqb="(pair_eqb Z.eqb Z.eqb)", enc=None)


def secs(d_ms):
    return d_ms / 1000.0


def as_time(rng, d_ms):
    """a relative time as the API accepts it: float seconds or timedelta"""
    return secs(d_ms) if rng.random() < 0.6 else _dt.timedelta(milliseconds=d_ms)


def absolute(due_ms):
    return k2m.EPOCH + _dt.timedelta(milliseconds=due_ms)


def g_tspec(rel, v):
    return f"(Rel {gz(v)})" if rel else f"(Abs {gz(v)})"


def mapper_table(rng, n=8, p_raise=0.12):
    return [("raise", 61) if rng.random() < p_raise else ("ok", None) for _ in range(n)]


def g_mapper(ent):
    es = "; ".join(f"({j}, {'Raise ' + str(e[1]) if e[0] == 'raise' else 'Ok tt'})" for j, e in enumerate(ent))
    return f"(fun _ j => tbl [{es}] (Ok tt) (Z.of_nat j))"


LIVE_MAPPERS = []       # mapper callbacks of the operator instance being run (their invocation count is reset
                        # after a warm-up subscription: tables are indexed by invocation)


def make_mapper(env, ent):
    calls = [0]
    LIVE_MAPPERS.append(calls)

    def mapper(x):
        j = calls[0]
        calls[0] += 1
        e = ent[j] if j < len(ent) else ("ok", None)
        if e[0] == "raise":
            raise k2.make_error(e[1])
        return env.new_source().observable
    return mapper


DUR = [0, 5, 10, 10, 20]


def table():
    import reactivex as rx
    from reactivex import operators as ops
    T = {}

    def sched_kw(rng, env):
        """pass the scheduler to the operator, or let it take the one given to subscribe()"""
        return {"scheduler": env.scheduler} if rng.random() < 0.4 else {}

    # ------------------------------------------------------------- C15
    def g_delay(rng, t0=0):
        rel = rng.random() < 0.7
        v = rng.choice(DUR + [-5]) if rel else rng.choice([-5, 0, 5, 10, 20])
        pick = rng.random()
        t = as_time(rng, v) if rel else absolute(t0 + v)   # absolute values: offsets from the subscription instant
        def build(env, ss):
            return ss[0].pipe(ops.delay(t, **({"scheduler": env.scheduler} if pick < 0.4 else {})))
        d = v                                   # relative to the subscription instant t0
        return dict(build=build, coq=f"x_delay_at {g_tspec(rel, v if rel else t0 + v)} {gz(t0)}", n_static=1,
                    spec=("delay", d), bounds=[], gaps=[max(d, 0)], **ZT)
    T["delay"] = g_delay

    def g_delay_subscription(rng, t0=0):
        rel = rng.random() < 0.7
        v = rng.choice(DUR + [-5]) if rel else rng.choice([-5, 0, 5, 10, 20])
        t = as_time(rng, v) if rel else absolute(t0 + v)
        pick = rng.random()
        def build(env, ss):
            return ss[0].pipe(ops.delay_subscription(t, **({"scheduler": env.scheduler} if pick < 0.4 else {})))
        return dict(build=build, coq=f"x_delay_subscription {g_tspec(rel, v if rel else t0 + v)} {gz(t0)}",
                    n_static=1, spec=("delay_subscription", max(v, 0)), bounds=[max(v, 0)], gaps=[], **ZT)
    T["delay_subscription"] = g_delay_subscription

    def g_delay_with_mapper(rng, t0=0):
        has_sub = rng.random() < 0.4
        ent = mapper_table(rng)
        def build(env, ss):
            m = make_mapper(env, ent)
            if has_sub:
                return ss[0].pipe(ops.delay_with_mapper(ss[1], m))
            return ss[0].pipe(ops.delay_with_mapper(m))
        return dict(build=build, coq=f"x_delay_with_mapper {'true' if has_sub else 'false'} {g_mapper(ent)}",
                    n_static=2 if has_sub else 1, spec=("delay_with_mapper", has_sub, ent), dynamic=3,
                    bounds=[], gaps=[], **ZT)
    T["delay_with_mapper"] = g_delay_with_mapper

    def g_timestamp(rng, t0=0):
        pick = rng.random()
        def build(env, ss):
            return ss[0].pipe(ops.timestamp(**({"scheduler": env.scheduler} if pick < 0.4 else {})))
        return dict(build=build, coq="x_timestamp", n_static=1, spec=("timestamp",), bounds=[], gaps=[],
                    **dict(ZZ, enc=enc_stamp))
    T["timestamp"] = g_timestamp

    def g_time_interval(rng, t0=0):
        pick = rng.random()
        def build(env, ss):
            return ss[0].pipe(ops.time_interval(**({"scheduler": env.scheduler} if pick < 0.4 else {})))
        return dict(build=build, coq=f"x_time_interval {gz(t0)}", n_static=1, spec=("time_interval",), bounds=[], gaps=[],
                    **dict(ZZ, enc=enc_interval))
    T["time_interval"] = g_time_interval

    # ------------------------------------------------------------- C16
    def g_debounce(rng, t0=0, alias=False):
        d = rng.choice(DUR)
        t = as_time(rng, d)
        pick = rng.random()
        op = ops.throttle_with_timeout if alias else ops.debounce
        def build(env, ss):
            return ss[0].pipe(op(t, **({"scheduler": env.scheduler} if pick < 0.4 else {})))
        return dict(build=build, coq=f"x_debounce {gz(d)}", n_static=1, spec=("debounce", d), bounds=[], gaps=[d],
                    **ZT)
    T["debounce"] = g_debounce
    T["throttle_with_timeout"] = lambda rng, t0=0: g_debounce(rng, t0, True)

    def g_throttle_with_mapper(rng, t0=0):
        ent = mapper_table(rng)
        def build(env, ss):
            return ss[0].pipe(ops.throttle_with_mapper(make_mapper(env, ent)))
        return dict(build=build, coq=f"x_throttle_with_mapper {g_mapper(ent)}", n_static=1,
                    spec=("throttle_with_mapper", ent), dynamic=3, bounds=[], gaps=[], **ZT)
    T["throttle_with_mapper"] = g_throttle_with_mapper

    def g_throttle_first(rng, t0=0):
        w = rng.choice([5, 10, 10, 20])
        t = as_time(rng, w)
        pick = rng.random()
        def build(env, ss):
            return ss[0].pipe(ops.throttle_first(t, **({"scheduler": env.scheduler} if pick < 0.4 else {})))
        return dict(build=build, coq=f"x_throttle_first {gz(w)}", n_static=1, spec=("throttle_first", w),
                    bounds=[], gaps=[w], **ZT)
    T["throttle_first"] = g_throttle_first

    def g_sample_observable(rng, t0=0):
        def build(env, ss):
            return ss[0].pipe(ops.sample(ss[1]))
        return dict(build=build, coq="x_sample_observable", n_static=2, spec=("sample_observable",), bounds=[],
                    gaps=[], **ZT)
    T["sample_observable"] = g_sample_observable

    def g_sample_time(rng, t0=0):
        p = rng.choice([5, 10, 10, 20])
        t = as_time(rng, p)
        pick = rng.random()
        def build(env, ss):
            return ss[0].pipe(ops.sample(t, **({"scheduler": env.scheduler} if pick < 0.4 else {})))
        return dict(build=build, coq=f"x_sample_time {gz(p)}", n_static=1, spec=("sample_time", p),
                    bounds=[p, 2 * p, 3 * p], gaps=[p], periodic=p, **ZT)
    T["sample_time"] = g_sample_time

    # ------------------------------------------------------------- C17
    def g_take_with_time(rng, t0=0):
        d = rng.choice(DUR)
        t = as_time(rng, d)
        pick = rng.random()
        def build(env, ss):
            return ss[0].pipe(ops.take_with_time(t, **({"scheduler": env.scheduler} if pick < 0.4 else {})))
        return dict(build=build, coq=f"x_take_with_time {gz(d)}", n_static=1, spec=("take_with_time", d),
                    bounds=[d], gaps=[], **ZT)
    T["take_with_time"] = g_take_with_time

    def g_skip_with_time(rng, t0=0):
        d = rng.choice(DUR)
        t = as_time(rng, d)
        pick = rng.random()
        def build(env, ss):
            return ss[0].pipe(ops.skip_with_time(t, **({"scheduler": env.scheduler} if pick < 0.4 else {})))
        return dict(build=build, coq=f"x_skip_with_time {gz(d)}", n_static=1, spec=("skip_with_time", d),
                    bounds=[d], gaps=[], **ZT)
    T["skip_with_time"] = g_skip_with_time

    def g_until(rng, t0, take):
        rel = rng.random() < 0.5
        v = rng.choice(DUR) if rel else rng.choice([-5, 0, 5, 10, 20])
        t = as_time(rng, v) if rel else absolute(t0 + v)
        pick = rng.random()
        op = ops.take_until_with_time if take else ops.skip_until_with_time
        def build(env, ss):
            return ss[0].pipe(op(t, **({"scheduler": env.scheduler} if pick < 0.4 else {})))
        ts = g_tspec(rel, v if rel else t0 + v)
        coq = (f"x_take_until_with_time {ts} {gz(t0)}" if take
               else f"x_skip_until_with_time false {ts} {gz(t0)}")
        return dict(build=build, coq=coq, n_static=1,
                    spec=("take_until_with_time" if take else "skip_until_with_time", max(v, 0)),
                    bounds=[max(v, 0)], gaps=[], **ZT)
    T["take_until_with_time"] = lambda rng, t0=0: g_until(rng, t0, True)
    T["skip_until_with_time"] = lambda rng, t0=0: g_until(rng, t0, False)

    def g_last(rng, t0, take):
        d = rng.choice(DUR)
        t = as_time(rng, d)
        pick = rng.random()
        op = ops.take_last_with_time if take else ops.skip_last_with_time
        def build(env, ss):
            return ss[0].pipe(op(t, **({"scheduler": env.scheduler} if pick < 0.4 else {})))
        name = "take_last_with_time" if take else "skip_last_with_time"
        return dict(build=build, coq=f"x_{name} {gz(d)}", n_static=1, spec=(name, d), bounds=[], gaps=[d],
                    from_end=[d], **ZT)
    T["take_last_with_time"] = lambda rng, t0=0: g_last(rng, t0, True)
    T["skip_last_with_time"] = lambda rng, t0=0: g_last(rng, t0, False)

    def g_timeout(rng, t0=0):
        rel = rng.random() < 0.7
        v = rng.choice([0, 5, 10, 10, 20]) if rel else rng.choice([-5, 0, 5, 10, 20, 30])
        t = as_time(rng, v) if rel else absolute(t0 + v)
        other = rng.random() < 0.5
        pick = rng.random()
        def build(env, ss):
            kw = {"scheduler": env.scheduler} if pick < 0.4 else {}
            return ss[0].pipe(ops.timeout(t, ss[1], **kw) if other else ops.timeout(t, **kw))
        return dict(build=build, coq=f"x_timeout {g_tspec(rel, v if rel else t0 + v)} {'true' if other else 'false'} {gz(t0)}",
                    n_static=2 if other else 1, spec=("timeout", rel, v, other),
                    bounds=[] if rel else [max(v, 0)], gaps=[v] if rel else [], **ZT)
    T["timeout"] = g_timeout

    def g_timeout_with_mapper(rng, t0=0):
        has_first = rng.random() < 0.6
        has_other = rng.random() < 0.5
        has_mapper = rng.random() < 0.75
        ent = mapper_table(rng)
        def build(env, ss):
            m = make_mapper(env, ent) if has_mapper else None
            return ss[0].pipe(ops.timeout_with_mapper(ss[1] if has_first else None, m,
                                                      ss[2] if has_other else None))
        gm = f"(Some {g_mapper(ent)})" if has_mapper else "None"
        return dict(build=build,
                    coq=f"x_timeout_with_mapper {'true' if has_first else 'false'} "
                        f"{'true' if has_other else 'false'} {gm}",
                    n_static=3, spec=("timeout_with_mapper", has_first, has_other, has_mapper, ent), dynamic=3,
                    bounds=[], gaps=[], **ZT)
    T["timeout_with_mapper"] = g_timeout_with_mapper
    return T


# ---- timelines ----------------------------------------------------------------

def gen_timeline(rng, nsrc, bounds=(), gaps=(), from_end=(), maxlen=5, p_err=0.2, p_none=0.12,
                 nonconforming=0.1):
    """Events of nsrc hot sources with elements placed before / at / after every
    boundary of the operator: absolute boundaries [bounds] (due times, window
    edges), gap boundaries [gaps] (distances between consecutive notifications
    equal to the due time / window, and one step less / more), [from_end]
    (distances to the terminal notification); bursts at one instant (step 0);
    independent sources share the time grid so simultaneous events on several
    sources are frequent.  Values include the falsy 0 and None."""
    grid = {0, 5, 10, 15, 20, 30}
    for b in bounds:
        grid |= {b - 5, b, b + 5}
    grid = sorted(t for t in grid if t >= 0)
    steps = [0, 0, 5, 10]
    for g in gaps:
        steps += [g - 5, g, g, g + 5, 2 * g]
    steps = [s for s in steps if s >= 0]
    evs = []
    dense = bool(gaps) and max(gaps) >= 10 and rng.random() < 0.3
    if dense:
        # several differently-timed notifications inside ONE due-time window (queues with more than one
        # pending entry: delay's re-scheduling, debounce's supersession, timeout's re-arming)
        steps = [1, 2, 3, 5]
    for k in range(nsrc):
        n = rng.choice([3, 4, maxlen]) if dense else rng.choice([0, 1, 2, 2, 3, 3, maxlen])
        mode = rng.random()
        times = []
        if mode < 0.5 or not bounds:
            t = rng.choice([0, 0, 5, 10])
            for _ in range(n):
                t += rng.choice(steps)
                times.append(t)
        else:
            times = sorted(rng.choice(grid) for _ in range(n))
        t = times[-1] if times else rng.choice(grid)
        r = rng.random()
        tt = t + rng.choice(steps + [d for d in from_end] + [d - 5 for d in from_end if d >= 5]
                            + [d + 5 for d in from_end])
        if rng.random() < 0.3 and bounds:
            tt = max(t, rng.choice(grid))
        for ti in times:
            evs.append((ti, k, ("N", rng.choice(VALUES))))
        if r < p_err:
            evs.append((tt, k, ("E", k2.make_error(rng.choice([11, 12])))))
        elif r < 1 - p_none:
            evs.append((tt, k, ("C",)))
        if rng.random() < nonconforming:
            evs.append((tt + rng.choice(steps), k, rng.choice([("N", 9), ("C",), ("E", UserError(13))])))
    order = {id(e): i for i, e in enumerate(evs)}
    perm = list(range(nsrc))
    rng.shuffle(perm)                          # which source goes first at equal instants
    evs.sort(key=lambda e: (e[0], perm[e[1]], order[id(e)]))
    # per-source order must be kept: the sort key keeps it (times non-decreasing per source)
    return evs


IMPORTS = "Base.Prelude Base.CaseLib Ops.Machine Ops.Multi Ops.MultiCase Ops.Timed"


def time_of(res, tag):
    """instant of input [tag], RELATIVE to the subscription instant t0 (the oracles reason in time since
    subscription; the machines get the absolute clock readings and t0)"""
    return 0 if tag == 0 else res["inputs"][tag - 1][0] - res.get("t0", 0)


CURRENT_CASE = [None]      # (operator name, case seed) of the case being evaluated (for cross-run oracles)


# default generation mode; a check may run another one (recorded per case).  p_warm: share of cases in which the
# SAME observable object is subscribed once before (warm-up, abandoned) -- per-subscription state must start fresh;
# t0s: clock readings at the measured subscription (the proxy clock no longer starts every run at 0)
MODE = {"p_dispose": 0.15, "p_late": 0.08}
P_WARM = 0.35
T0S = [0, 0, 35, 200, 1000]


def make_case(name, case_seed, mode=None):
    """one seeded case: subscription instant t0, operator instance, timeline (absolute instants), dispose
    instant, horizon, warm-up -- a function of (name, case_seed, mode) only, so that a replay file needs
    nothing else"""
    import random
    mode = mode or MODE
    r = random.Random(case_seed)
    t0 = r.choice(mode.get("t0s", T0S))
    inst = table()[name](r, t0)
    nsrc = inst["n_static"] + inst.get("dynamic", 0)
    rel = gen_timeline(r, nsrc, inst.get("bounds", ()), inst.get("gaps", ()), inst.get("from_end", ()),
                       p_none=mode.get("p_none", 0.12))
    disp = None
    u = r.random()
    if u < mode["p_dispose"] and rel:
        disp = r.choice(rel)[0] + r.choice([0, 0, 5])
    elif u < mode["p_dispose"] + mode["p_late"]:
        # LATE dispose: after every source event and every timer due by then (an operator that handed over to
        # a fallback / later source which never terminates is still subscribed to it at that point)
        disp = max([e[0] for e in rel] + [0]) + r.choice([5, 30, 100])
    horizon = None
    if inst.get("periodic"):
        horizon = max([e[0] for e in rel] + [0]) + 3 * inst["periodic"]
    warm = None
    if r.random() < mode.get("p_warm", P_WARM):
        # an earlier subscription of the same observable object: its own timeline on the clock BEFORE t0 (all at
        # clock 0 when t0 = 0), timers due by then fired, abandoned (disposed) before the measured subscription
        wev = gen_timeline(r, nsrc, inst.get("bounds", ()), inst.get("gaps", ()), inst.get("from_end", ()),
                           nonconforming=0.0)
        if r.random() < 0.5:
            wev = [e for e in wev if e[2][0] == "N"]          # abandoned in mid-flight
        start = r.choice([0, max(t0 - 30, 0), max(t0 - 10, 0)])
        wev = [(min(start + t, t0), k, ev) for (t, k, ev) in wev]
        warm = {"start": start, "end": t0, "events": wev}
    inst["t0"] = t0
    inst["warm"] = warm
    evs = [(t0 + t, k, ev) for (t, k, ev) in rel]
    return inst, evs, (None if disp is None else t0 + disp), (None if horizon is None else t0 + horizon)


def _noop(*a):
    return None


def warm_up(env, obs, n_static, warm):
    """subscribe [obs] once on the proxy scheduler, run its own little timeline (source events and due timers in
    time order, clock advancing), dispose it, and wipe the harness state exactly as k2m.run_multi does after its
    own warm-up (log, escapes, dynamically created sources, dead observer records, timers, counters)"""
    env.now = warm["start"]
    try:
        w = obs.subscribe(_noop, _noop, _noop, scheduler=env.scheduler)
    except Exception:
        w = None
    pending = list(warm["events"])
    for _ in range(80):
        cands = []
        if pending:
            cands.append((pending[0][0], 0))
        if env.timers:
            tag = min(env.timers, key=lambda t: (env.timers[t][0], t))
            cands.append((env.timers[tag][0], 1))
        if not cands:
            break
        t, what = min(cands)
        if t > warm["end"]:
            break
        env.now = max(env.now, t)
        try:
            if what == 0:
                _, k, ev = pending.pop(0)
                if k < len(env.sources):
                    env.sources[k].push(ev)
            else:
                env.scheduler.fire(tag)
        except Exception:
            pass
    env.now = max(env.now, warm["end"])
    if w is not None:
        try:
            w.dispose()
        except Exception:
            pass
    del env.log[:]
    del env.escapes[:]
    env.sources = env.sources[:n_static]
    for s in env.sources:
        s.observers = [r for r in s.observers if r[1]]
    env.timers.clear()
    env.n_timers = 0
    env.tag = 0


def run_case(name, case_seed, mode=None):
    inst, evs, disp, horizon = make_case(name, case_seed, mode)
    t0, warm = inst["t0"], inst["warm"]

    def build(env, ss):
        # k2m.Env starts its clock at 0 and k2m.run_multi subscribes right after build() returns: the warm-up
        # subscription and the clock offset are therefore applied here, on the env handed to build()
        del LIVE_MAPPERS[:]
        obs = inst["build"](env, ss)
        if warm is not None:
            warm_up(env, obs, inst["n_static"], warm)
            for calls in LIVE_MAPPERS:
                calls[0] = 0              # callbacks indexed by invocation restart their count
        env.now = t0
        return obs
    res = k2m.run_multi(build, inst["n_static"], evs, use_scheduler=True, dispose_at=disp, horizon=horizon)
    if res["build_error"] is not None:
        raise RuntimeError(f"{name}: build error {res['build_error']!r}")
    res["t0"] = t0
    res["warm"] = warm
    res["horizon"] = None if horizon is None else horizon - t0          # relative, as every instant the oracles see
    res["dispose_at"] = None if disp is None else disp - t0
    return inst, evs, disp, res


def run_timed(chk, pid, names, oracle, ncase=None, only=None, mode=None):
    """for each operator name: seeded instances x seeded timelines; K2
    correspondence with the machine (on the delivered input sequence) + the
    property oracle on the implementation's log."""
    import lib
    ncase = ncase or (45 if chk.tier == "quick" else 2000)
    gal = {}
    per_op = {}
    nontrivial = set()
    hist = {"with_dispose": 0, "same_instant_events": 0, "ticks_delivered": 0, "falsy_elements": 0,
            "event_exactly_at_a_due_time": 0, "absolute_time_argument": 0, "after_a_warmup_subscription": 0,
            "subscribed_at_nonzero_clock": 0}
    for name in names:
        for ci in range(ncase):
            case_seed = chk.rng.getrandbits(48)
            CURRENT_CASE[0] = (name, case_seed)
            inst, evs, disp, res = run_case(name, case_seed, mode)
            if len({e[0] for e in evs}) < len(evs):
                hist["same_instant_events"] += 1
            if any(e[2][0] == "N" and not e[2][1] for e in evs):
                hist["falsy_elements"] += 1
            if "Abs" in inst["coq"]:
                hist["absolute_time_argument"] += 1
            if disp is not None:
                hist["with_dispose"] += 1
            if res["warm"] is not None:
                hist["after_a_warmup_subscription"] += 1
            if res["t0"]:
                hist["subscribed_at_nonzero_clock"] += 1
            chk.cov["evaluations"] += 1
            per_op[name] = per_op.get(name, 0) + 1
            ticks = [i for i in res["inputs"] if i[1][0] == "tick"]
            hist["ticks_delivered"] += len(ticks)
            tick_times = {t for t, _ in ticks}
            if any(i[0] == "src" and t in tick_times for t, i in res["inputs"]):
                hist["event_exactly_at_a_due_time"] += 1
            gi = k2m.g_inputs(res["inputs"], enc_val)
            gt = k2m.g_trace(res, inst["enc"])
            sig = f"{name}|{inst['coq']}|{gi}"
            v = oracle(name, inst, res)
            cases_to_replay = [[name, case_seed] + ([mode] if mode else [])]
            if isinstance(v, tuple):                 # (message, [earlier cases the verdict depends on])
                v, earlier = v
                cases_to_replay = [list(c) for c in earlier] + cases_to_replay
            if res["escapes"]:
                v = v or f"exception escaped into the emitter: {[repr(e) for _, e in res['escapes']]}"
            if v:
                chk.violation(f"{pid}|{name}|{v[:50]}",
                              {"operator": name, "machine": inst["coq"], "spec": repr(inst["spec"]),
                               "source events (time_ms, source, notification)": repr(evs),
                               "subscribed_at_clock": res["t0"], "warm-up subscription before": repr(res["warm"]),
                               "dispose_at": disp, "inputs (now, event)": gi, "observed trace": gt, "what": v,
                               "cases": cases_to_replay,
                               "how": "each case = (operator, case seed): harness/timed_table.py run_case() rebuilds "
                                      "the operator instance and the timeline from the seed and runs it with "
                                      "k2m.run_multi(..., use_scheduler=True); the replay command re-runs the listed "
                                      "cases through the oracle"},
                              size=len(res["inputs"]))
            elif sum(1 for e in res["log"] if e[1] == "emit") >= 2:
                nontrivial.add(sig)
            if only is None or only(name, inst, res):
                key = (inst["ty"], inst["eqb"])
                gal.setdefault(key, []).append((f"({inst['coq']}, {gi})", gt))
    for (ty, eqb), cases in gal.items():
        prelude = f"Definition model (c : machine Z {ty} * list (Z * inp Z)) := run_canon (fst c) (snd c).\n"
        bad, logs = lib.correspondence(pid, "t_" + str(abs(hash((ty, eqb))) % 10**6), IMPORTS,
                                       f"(machine Z {ty} * list (Z * inp Z)) * list (nat * obs {ty})",
                                       "model", f"(trace_eqb {eqb})", cases, prelude=prelude)
        chk.cov["traces_validated_against_impl"] += len(cases)
        chk.cov["disagreements_checked"] += len(cases)
        if bad:
            firsts = [cases[i] for i in bad if i >= 0][:3]
            d = {"n": len(bad), "first (machine+inputs, implementation trace)": firsts, "logs": logs[:1]}
            if firsts:
                d["model_says"] = lib.coq_show(pid, IMPORTS, f"model {firsts[0][0]}", prelude)
            chk.tie_broken(f"correspondence K2 timed ({ty}): machine vs implementation", d)
    chk.cov["distinct_nontrivial"] = len(nontrivial)
    chk.cov["input_distribution"] = {"per_operator": per_op, **hist}
    chk.add_samples([{"case": cs[0][0], "trace": cs[0][1]} for cs in gal.values() if cs][:4])
    return gal


# ---- helpers shared by the oracles (direct readings of the log; no model) ------

def view(res):
    """-> dict: steps (comb_oracle.timeline), em = [(time, tag, kind, value)],
    acc = accepted source notifications [(time, tag, k, ev)], timers, end (time of terminal/dispose or None)"""
    import comb_oracle
    steps = comb_oracle.timeline(res)
    em = [(time_of(res, tag), tag, a, b) for (tag, a, b) in comb_oracle.emitted(steps)]
    acc = [(time_of(res, tag), tag, k, ev) for (tag, k, ev) in comb_oracle.accepted(steps)]
    disposed = [t - res.get("t0", 0) for t, i in res["inputs"] if i[0] == "dispose"]
    return dict(steps=steps, em=em, acc=acc, dispose_time=disposed[0] if disposed else None,
                dispose_tag=next((j + 1 for j, (t, i) in enumerate(res["inputs"]) if i[0] == "dispose"), None))


def common_timed(res, v):
    """grammar, release of every source AND timer at the terminal/dispose, silence afterwards"""
    import comb_oracle
    c = comb_oracle.common(res, v["steps"])
    if c:
        return c
    end_tag = None
    for (t, tag, a, b) in v["em"]:
        if a in "EC":
            end_tag = tag
    if v["dispose_tag"] is not None and (end_tag is None or v["dispose_tag"] < end_tag):
        end_tag = v["dispose_tag"]
    if end_tag is not None:
        pending = set()
        for (tag, kind, a, b) in res["log"]:
            if kind == "timer":
                pending.add(a)
                if tag > end_tag:
                    return f"timer {a} scheduled after termination/dispose (input {tag})"
            elif kind == "cancel":
                pending.discard(a)
        fired = {i[1] for _, i in res["inputs"] if i[0] == "tick"}
        left = pending - fired
        if left:
            return f"timers {sorted(left)} still pending after termination/dispose at input {end_tag}"
        late = [(t, i) for j, (t, i) in enumerate(res["inputs"]) if i[0] == "tick" and j + 1 > end_tag]
        if late:
            return f"timer fired after termination/dispose: {late[0]}"
    return None


def elems(em):
    return [(t, b) for (t, tag, a, b) in em if a == "N"]


def terminal(em):
    ts = [(t, a, b) for (t, tag, a, b) in em if a in "EC"]
    return ts[0] if ts else None


def src_view(v, k=0):
    """accepted notifications of source k: (elements [(time, tag, value)], terminal (time, tag, kind, payload) | None)"""
    el = [(t, tag, ev[1]) for (t, tag, kk, ev) in v["acc"] if kk == k and ev[0] == "N"]
    tm = [(t, tag, ev[0], ev[1] if ev[0] == "E" else None) for (t, tag, kk, ev) in v["acc"] if kk == k and ev[0] in "EC"]
    return el, (tm[0] if tm else None)


def replay_cases(pid, oracle, path, reset=None):
    """re-run the cases of a replay file on the CURRENT /repo tree through the oracle"""
    import json
    rep = json.load(open(path))
    if "cases" not in rep:
        print(json.dumps(rep, indent=1))
        return 1
    if reset:
        reset()
    verdict = None
    for entry in rep["cases"]:
        name, case_seed = entry[0], entry[1]
        mode = entry[2] if len(entry) > 2 else None
        CURRENT_CASE[0] = (name, case_seed)
        inst, evs, disp, res = run_case(name, case_seed, mode)
        print(f"case {name} seed={case_seed}: {inst['spec']!r}")
        print(f"  source events (time_ms, source, notification): {evs!r}   dispose_at={disp}")
        print(f"  subscribed at clock {res['t0']}; warm-up subscription before: {res['warm']!r}")
        print(f"  delivered inputs: {res['inputs']!r}")
        print(f"  boundary log (input position, kind, a, b): {res['log']!r}")
        v = oracle(name, inst, res)
        if isinstance(v, tuple):
            v = v[0]
        if res["escapes"]:
            v = v or f"exception escaped into the emitter: {[repr(e) for _, e in res['escapes']]}"
        print(f"  oracle: {v or 'ok'}")
        verdict = v or verdict
    if verdict:
        print(f"VIOLATION property={pid} replay={path}")
        return 1
    print(f"[{pid}] replay: the recorded cases satisfy the oracle on the current tree")
    return 0


# ---- closed world: the real virtual-time schedulers vs Ops/TimedSim.v ----------------------------
# The closed-world theorems are about [simulate]: every timer fires exactly at its due time, source
# notifications first at equal instants, then timers in scheduling order.  Here the SAME operators run
# under the library's own virtual-time schedulers -- TestScheduler (numeric clock, 1 tick = 1 s) and
# HistoricalScheduler (datetime clock, instants in ms) -- driven by hot sources whose notifications were
# scheduled before the subscription, and the recorded (time, notification) list is compared by Coq with
# [timed_emits (simulate_fuel machine 600 t0 events)].

CW_IMPORTS = "Base.Prelude Base.CaseLib Ops.Machine Ops.Multi Ops.MultiCase Ops.Timed Ops.TimedSim"


def cw_table():
    from reactivex import operators as ops
    T = {}

    def rel_abs(rng, choices_rel=DUR, choices_abs=(-5, 0, 5, 10, 20), p_rel=0.7):
        rel = rng.random() < p_rel
        return rel, (rng.choice(choices_rel) if rel else rng.choice(list(choices_abs)))

    def timearg(rng, U, rel, v, t0):
        """v in ticks; absolute values are offsets from the subscription instant t0"""
        if rel:
            return U["rel"](rng, v)
        return U["abs"](t0 + v)

    def simple(name, mk, coq, durs=DUR, gaps=True, bounds=False, zz=None, from_end=False):
        def g(rng, U, t0):
            d = rng.choice(durs)
            t = U["rel"](rng, d)
            return dict(op=lambda srcs: srcs[0].pipe(mk(t)), coq=coq(d, t0), nsrc=1, d=d,
                        gaps=[d] if gaps else [], bounds=[d] if bounds else [], from_end=[d] if from_end else [],
                        **(zz or ZT))
        T[name] = g

    def g_delay(rng, U, t0):
        rel, v = rel_abs(rng)
        t = timearg(rng, U, rel, v, t0)
        return dict(op=lambda srcs: srcs[0].pipe(ops.delay(t)), coq=f"x_delay_at {g_tspec(rel, v if rel else t0 + v)} {gz(t0)}",
                    nsrc=1, gaps=[max(v, 0)], bounds=[], **ZT)
    T["delay"] = g_delay

    def g_dsub(rng, U, t0):
        rel, v = rel_abs(rng)
        t = timearg(rng, U, rel, v, t0)
        return dict(op=lambda srcs: srcs[0].pipe(ops.delay_subscription(t)),
                    coq=f"x_delay_subscription {g_tspec(rel, v if rel else t0 + v)} {gz(t0)}", nsrc=1, gaps=[],
                    bounds=[max(v, 0)], **ZT)
    T["delay_subscription"] = g_dsub

    T["timestamp"] = lambda rng, U, t0: dict(op=lambda srcs: srcs[0].pipe(ops.timestamp()), coq="x_timestamp", nsrc=1,
                                              gaps=[], bounds=[], **dict(ZZ, enc="stamp"))
    T["time_interval"] = lambda rng, U, t0: dict(op=lambda srcs: srcs[0].pipe(ops.time_interval()),
                                                  coq=f"x_time_interval {gz(t0)}", nsrc=1, gaps=[], bounds=[],
                                                  **dict(ZZ, enc="interval"))
    simple("debounce", ops.debounce, lambda d, t0: f"x_debounce {gz(d)}")
    simple("throttle_first", ops.throttle_first, lambda d, t0: f"x_throttle_first {gz(d)}", durs=[5, 10, 10, 20])
    simple("take_with_time", ops.take_with_time, lambda d, t0: f"x_take_until_with_time (Rel {gz(d)}) {gz(t0)}",
           gaps=False, bounds=True)
    simple("skip_with_time", ops.skip_with_time, lambda d, t0: f"x_skip_until_with_time true (Rel {gz(d)}) {gz(t0)}",
           gaps=False, bounds=True)
    simple("take_last_with_time", ops.take_last_with_time, lambda d, t0: f"x_take_last_with_time {gz(d)}",
           from_end=True)
    simple("skip_last_with_time", ops.skip_last_with_time, lambda d, t0: f"x_skip_last_with_time {gz(d)}",
           from_end=True)

    def g_until(take):
        def g(rng, U, t0):
            rel, v = rel_abs(rng, p_rel=0.5)
            t = timearg(rng, U, rel, v, t0)
            op = ops.take_until_with_time if take else ops.skip_until_with_time
            ts = g_tspec(rel, v if rel else t0 + v)
            coq = f"x_take_until_with_time {ts} {gz(t0)}" if take else f"x_skip_until_with_time false {ts} {gz(t0)}"
            return dict(op=lambda srcs: srcs[0].pipe(op(t)), coq=coq, nsrc=1, gaps=[], bounds=[max(v, 0)], **ZT)
        return g
    T["take_until_with_time"] = g_until(True)
    T["skip_until_with_time"] = g_until(False)

    def g_sample_time(rng, U, t0):
        p = rng.choice([5, 10, 10, 20])
        t = U["rel"](rng, p)
        return dict(op=lambda srcs: srcs[0].pipe(ops.sample(t)), coq=f"x_sample_time {gz(p)}", nsrc=1, gaps=[p],
                    bounds=[p, 2 * p], must_terminate=True, **ZT)
    T["sample_time"] = g_sample_time

    T["sample_observable"] = lambda rng, U, t0: dict(op=lambda srcs: srcs[0].pipe(ops.sample(srcs[1])),
                                                      coq="x_sample_observable", nsrc=2, gaps=[], bounds=[], **ZT)

    def g_timeout(rng, U, t0):
        rel, v = rel_abs(rng, choices_rel=[0, 5, 10, 10, 20], choices_abs=(-5, 0, 5, 10, 20, 30))
        t = timearg(rng, U, rel, v, t0)
        other = rng.random() < 0.5
        ts = g_tspec(rel, v if rel else t0 + v)
        return dict(op=(lambda srcs: srcs[0].pipe(ops.timeout(t, srcs[1]))) if other
                    else (lambda srcs: srcs[0].pipe(ops.timeout(t))),
                    coq=f"x_timeout {ts} {'true' if other else 'false'} {gz(t0)}", nsrc=2 if other else 1,
                    gaps=[v] if rel else [], bounds=[] if rel else [max(v, 0)], **ZT)
    T["timeout"] = g_timeout
    return T


def _units():
    import datetime as dt
    from reactivex.internal.constants import UTC_ZERO
    S = {"rel": lambda rng, d: float(d) if rng.random() < 0.6 else dt.timedelta(seconds=d),
         "abs": lambda due: UTC_ZERO + dt.timedelta(seconds=due),
         "stamp": lambda ts: int(round((ts - UTC_ZERO).total_seconds())),
         "span": lambda td: int(round(td.total_seconds()))}
    MS = {"rel": lambda rng, d: d / 1000.0 if rng.random() < 0.6 else dt.timedelta(milliseconds=d),
          "abs": lambda due: UTC_ZERO + dt.timedelta(milliseconds=due),
          "stamp": lambda ts: ms(ts - UTC_ZERO), "span": ms}
    return S, MS


def run_real_scheduler(kind, inst, evs, t0):
    """-> [(time, kind, payload)] recorded under the library's own virtual-time scheduler"""
    import datetime as dt
    from reactivex.subject import Subject
    from reactivex.internal.constants import UTC_ZERO
    if kind == "test":
        from reactivex.testing import TestScheduler
        sch = TestScheduler()
        at = lambda t: float(t)
        clock = lambda: int(round(sch.clock))
    else:
        from reactivex.scheduler import HistoricalScheduler
        sch = HistoricalScheduler(UTC_ZERO)
        at = lambda t: UTC_ZERO + dt.timedelta(milliseconds=t)
        clock = lambda: ms(sch.clock - UTC_ZERO)
    class Hot:
        """hand-made hot source: forwards to whoever is subscribed now; no replay of a past terminal
        (a Subject would replay it to a late subscriber)"""
        def __init__(self):
            import reactivex
            from reactivex.disposable import Disposable
            self.obs = []

            def subscribe(observer, scheduler=None):
                rec = [observer]
                self.obs.append(rec)
                return Disposable(lambda: rec in self.obs and self.obs.remove(rec))
            self.observable = reactivex.Observable(subscribe)

        def pipe(self, *a):
            return self.observable.pipe(*a)

        def _each(self, f):
            for rec in list(self.obs):
                if rec in self.obs:
                    f(rec[0])

        def on_next(self, v):
            self._each(lambda o: o.on_next(v))

        def on_error(self, e):
            self._each(lambda o: o.on_error(e))

        def on_completed(self):
            self._each(lambda o: o.on_completed())
    subjects = [Hot() for _ in range(inst["nsrc"])]
    out = []

    def feed(k, ev):
        def action(s, st=None):
            if ev[0] == "N":
                subjects[k].on_next(ev[1])
            elif ev[0] == "E":
                subjects[k].on_error(ev[1])
            else:
                subjects[k].on_completed()
        return action
    for (t, k, ev) in evs:                       # the source's notifications are in the queue first
        sch.schedule_absolute(at(t), feed(k, ev))

    def subscribe(s, st=None):
        inst["op"]([h.observable for h in subjects]).subscribe(lambda v: out.append((clock(), "N", v)),
                                       lambda e: out.append((clock(), "E", e)),
                                       lambda: out.append((clock(), "C", None)), scheduler=sch)
    sch.schedule_absolute(at(t0), subscribe)
    sch.start()
    return out


def _due_in_past(coq, t0):
    """the instance's time argument denotes an instant before the subscription (absolute) / a negative delay"""
    import re
    m = re.search(r"Abs \(?(-?\d+)\)?", coq)
    if m and int(m.group(1)) < t0:
        return True
    m = re.search(r"Rel \(?(-?\d+)\)?", coq)
    return bool(m) and int(m.group(1)) < 0


def closed_world(chk, pid, names, ncase=None):
    import lib
    import random
    T = cw_table()
    S, MS = _units()
    ncase = ncase or (12 if chk.tier == "quick" else 300)
    cases = {}
    n = 0
    for name in names:
        if name not in T:
            continue
        for ci in range(ncase):
            for kind, U in (("test", S), ("historical", MS)):
                r = random.Random(chk.rng.getrandbits(48))
                t0 = r.choice([0, 200])
                inst = T[name](r, U, t0)
                evs = [(t0 + t, k, ev) for (t, k, ev) in
                       gen_timeline(r, inst["nsrc"], inst.get("bounds", ()), inst.get("gaps", ()),
                                    inst.get("from_end", ()), nonconforming=0.0,
                                    p_none=0.0 if inst.get("must_terminate") else 0.12)]
                evs = [e for e in evs if e[0] > t0] if True else evs   # sent before the subscription: nobody listens
                if _due_in_past(inst["coq"], t0):
                    # a due time already in the PAST: the virtual-time schedulers sort the operator's timer BEFORE
                    # source notifications still pending at the current instant, the simulator (source first at equal
                    # instants) after them -- the statement fixes neither; keep one source event per instant
                    # (the LAST one: the terminal notification stays, so a periodic operator still stops)
                    seen_t, uniq = set(), []
                    for e in reversed(evs):
                        if e[0] not in seen_t:
                            uniq.append(e)
                            seen_t.add(e[0])
                    evs = uniq[::-1]
                if inst.get("must_terminate") and not any(e[1] == 0 and e[2][0] in ("E", "C") for e in evs):
                    # the terminal fell on the subscription instant and was filtered out: a periodic operator
                    # would keep the virtual-time scheduler running forever
                    evs.append((max([t0] + [e[0] for e in evs]) + 5, 0, ("C",)))
                # subjects do not forward anything after their terminal: keep conforming sequences
                out = run_real_scheduler(kind, inst, evs, t0)
                n += 1
                enc = inst["enc"]
                if enc == "stamp":
                    encv = lambda v: f"({enc_val(v.value)}, {gz(U['stamp'](v.timestamp))})"
                elif enc == "interval":
                    encv = lambda v: f"({enc_val(v.value)}, {gz(U['span'](v.interval))})"
                else:
                    encv = enc_val

                def g_ev(kd, payload):
                    if kd == "N":
                        return f"Next {encv(payload)}"
                    if kd == "E":
                        from k2 import err_id
                        return f"Err {gz(err_id(payload))}"
                    return "Done"
                g_out = "[" + "; ".join(f"({gz(t)}, {g_ev(kd, p)})" for (t, kd, p) in out) + "]"
                g_in = k2m.g_inputs([(t, ("src", k, ev)) for (t, k, ev) in evs], enc_val)
                key = (inst["ty"], inst["eqb"])
                cases.setdefault(key, []).append((f"({inst['coq']}, {gz(t0)}, {g_in})", g_out, name, kind))
    chk.cov["closed_world_runs_real_schedulers"] = n
    for (ty, eqb), cs in cases.items():
        prelude = (f"Definition cw (c : machine Z {ty} * Z * list (Z * inp Z)) := "
                   f"timed_emits (snd (fst c)) (simulate_fuel (fst (fst c)) 600 (snd (fst c)) (snd c)).\n")
        bad, logs = lib.correspondence(pid, "cw_" + str(abs(hash((ty, eqb))) % 10**6), CW_IMPORTS,
                                       f"(machine Z {ty} * Z * list (Z * inp Z)) * list (Z * ev {ty})",
                                       "cw", f"(list_eqb (pair_eqb Z.eqb (ev_eqb {eqb})))",
                                       [(a, b) for (a, b, _, _) in cs], prelude=prelude)
        chk.cov["traces_validated_against_impl"] += len(cs)
        chk.cov["disagreements_checked"] += len(cs)
        if bad:
            firsts = [cs[i] for i in bad if i >= 0][:3]
            d = {"n": len(bad), "first (machine, t0, events | recorded by the real scheduler | operator | scheduler)": firsts,
                 "logs": logs[:1]}
            if firsts:
                d["simulator_says"] = lib.coq_show(pid, CW_IMPORTS, f"cw {firsts[0][0]}", prelude)
            chk.tie_broken(f"closed world ({ty}): Ops/TimedSim.v vs TestScheduler/HistoricalScheduler", d)
