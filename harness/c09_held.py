"""C09, ORACLE-ONLY family: user callbacks raising under a NON-IMMEDIATE
subscribe-time scheduler, with further source notifications arriving BEFORE
that scheduler gets to run again.

Every other C09 family either subscribes without a scheduler (whatever an
operator schedules on the subscribe-time scheduler then runs at once, on the
ImmediateScheduler / the trampoline) or drains the scheduler at the end of
every step.  An operator that does not hand a callback's exception to its
observer right there but turns it into something SCHEDULED (reactivex.throw(e)
armed as a timer / inner sequence, scheduler.schedule(lambda: on_error(e)) ...)
is indistinguishable from a correct one in those runs.  Here the subscription
is made with `subscribe(..., scheduler=s)` where s

  hold   is a hand-stepped scheduler of this module (virtual clock; schedule*
         only queue; the script says when the clock advances: ["run", dt]);
         source notifications are pushed by hand while s is NOT running, so
         everything the operator scheduled is still pending when the next
         notification arrives;
  tick   is the library's TestScheduler; the script's notifications are
         scheduled on it in advance (like a hot test observable), SEVERAL ON
         THE SAME VIRTUAL TICK, so that whatever the operator schedules "now"
         is queued behind the notifications already due at that tick.

Operators: the whole catalogue of harness/c09_rest.py, plus (EXTRA below) the
mapper-taking timed operators (timeout_with_mapper, delay_with_mapper,
throttle_with_mapper, generate_with_relative_time under flat_map), the
operators whose callback returns an observable (flat_map, flat_map_indexed,
switch_map, concat_map, flat_map_latest, catch(handler)), the grouping /
windowing operators with hot / timer durations (group_by, group_by_until,
window_when, buffer_when, window_toggle, buffer_toggle) and the plain
element-wise / aggregate callback operators (map, filter, scan, ...).
reactivex.timer / interval, sample, debounce, throttle_first, buffer /
window_with_time(_or_count) take no user callback: nothing to inject; they
appear here as the duration / closing observables the callbacks return
(`timer<dt>` on the subscribe-time scheduler).

One step of the global log = one hand-made push / subscriber action, or ONE
action run by the scheduler.  Oracle = the one of c09_rest (same exception
object as on_error, the first thing the subscriber sees after the raise, once,
nothing after it; nothing escapes into the emitter or the scheduler; groups live
at the raise get their terminal in that step; no callback runs and no source is
subscribed afterwards; every source released at the end of that step) plus
  delivered-late   the on_error is delivered IN THE STEP in which the callback
                   raised (before any later source notification or scheduled
                   action is processed);
  never-delivered  (a stronger reading of c09_rest's not-delivered, reported first)
                   the exception object is nowhere in the subscriber's log, even
                   after the scheduler ran everything that was pending;
  hang             the run did not come back within its budget.
"""
from __future__ import annotations

import json

import lib
import c09_rest as R
from c09_rest import World, Inj, SrcError, analyse

MODES = ("hold", "tick")
RUN_CAP = 400           # scheduler actions per run
BUDGET = 4.0            # seconds per case


# --------------------------------------------------------------------------
# schedulers


def make_hold(world):
    """hand-stepped scheduler: schedule* only queue; run(dt) advances the virtual clock, one step per action"""
    import datetime as dt
    from reactivex.scheduler.periodicscheduler import PeriodicScheduler
    from reactivex.disposable import Disposable, SingleAssignmentDisposable

    class Hold(PeriodicScheduler):
        def __init__(self):
            super().__init__()
            self.clock = 0.0
            self.items = []
            self.n = 0

        @property
        def now(self):
            return R.EPOCH + dt.timedelta(seconds=self.clock)

        def _add(self, due, action, state):
            sad = SingleAssignmentDisposable()
            self.n += 1
            item = [due, self.n, action, state, sad, True]
            self.items.append(item)

            def cancel():
                item[5] = False
                sad.dispose()
            return Disposable(cancel)

        def schedule(self, action, state=None):
            return self._add(self.clock, action, state)

        def schedule_relative(self, duetime, action, state=None):
            return self._add(self.clock + max(0.0, self.to_seconds(duetime)), action, state)

        def schedule_absolute(self, duetime, action, state=None):
            return self._add(max(self.clock, self.to_seconds(self.to_datetime(duetime) - R.EPOCH)), action, state)

        def run(self, delta):
            target = self.clock + delta
            ran = 0
            while ran < RUN_CAP:
                live = [it for it in self.items if it[5] and it[0] <= target]
                self.items = [it for it in self.items if it[5]]
                if not live:
                    break
                it = min(live, key=lambda x: (x[0], x[1]))
                self.items.remove(it)
                it[5] = False
                self.clock = max(self.clock, it[0])
                ran += 1
                world.step += 1
                try:
                    ret = it[2](self, it[3])
                    if ret is not None and hasattr(ret, "dispose"):
                        it[4].disposable = ret
                except Exception as e:          # an exception reached the scheduler
                    world.rec("sched_escape", e)
                world.rec("endstep")
            else:
                world.rec("runaway", ran)
            self.clock = max(self.clock, target)
    world.sched = Hold()
    return world.sched


def make_tick(world):
    """the library's TestScheduler; every action it runs is one step of the log"""
    from reactivex.testing import TestScheduler

    class Tick(TestScheduler):
        def schedule_absolute(self, duetime, action, state=None):
            def wrapped(s, st):
                world.step += 1
                world.ran = getattr(world, "ran", 0) + 1
                if world.ran > 4 * RUN_CAP:
                    if world.ran == 4 * RUN_CAP + 1:
                        world.rec("runaway", world.ran)
                    return None
                try:
                    return action(s, st)
                except Exception as e:
                    world.rec("sched_escape", e)
                finally:
                    world.rec("endstep")
            return super().schedule_absolute(duetime, wrapped, state)
    world.sched = Tick()
    return world.sched


# --------------------------------------------------------------------------
# extra operators (not in the catalogue of c09_rest)


def _obs(world, kinds, i, prefix):
    """the i-th observable returned by a duration / inner mapper"""
    import reactivex
    kind = kinds[i % len(kinds)] if kinds else "never"
    if kind == "hot":
        return world.src(f"{prefix}{i}").observable
    if kind == "empty":
        return reactivex.empty()
    if kind == "of":
        return reactivex.of(70 + i)
    if kind.startswith("timer"):
        return reactivex.timer(float(kind[5:]), scheduler=world.sched)
    return reactivex.never()


def _counted(world, inj, name, kinds, prefix):
    cnt = [0]

    def fn(*_):
        i = cnt[0]
        cnt[0] += 1
        return _obs(world, kinds, i, prefix)
    return inj.wrap(name, fn)


def b_timeout_with_mapper(w, inj, p):
    import reactivex
    from reactivex import operators as ops
    first = _obs(w, [p.get("first", "never")], 0, "ft")
    other = w.src("other").observable if p.get("other") == "hot" else None
    return w.src("s").observable.pipe(ops.timeout_with_mapper(first, _counted(w, inj, "mapper", p.get("durs"), "t"), other))


def b_delay_with_mapper(w, inj, p):
    from reactivex import operators as ops
    mapper = _counted(w, inj, "mapper", p.get("durs"), "d")
    if p.get("sd", "none") == "none":
        return w.src("s").observable.pipe(ops.delay_with_mapper(mapper))
    return w.src("s").observable.pipe(ops.delay_with_mapper(_obs(w, [p["sd"]], 0, "sd"), mapper))


def b_throttle_with_mapper(w, inj, p):
    from reactivex import operators as ops
    return w.src("s").observable.pipe(ops.throttle_with_mapper(_counted(w, inj, "mapper", p.get("durs"), "d")))


def b_gwrt(w, inj, p):
    import reactivex
    from reactivex import operators as ops
    times = p.get("times") or [0]

    def inner(v):
        base = v if isinstance(v, int) else 0
        return reactivex.generate_with_relative_time(
            base, inj.wrap("condition", lambda x: x < base + 3), inj.wrap("iterate", lambda x: x + 1),
            inj.wrap("time_mapper", lambda x: times[x % len(times)]))
    return w.src("s").observable.pipe(ops.flat_map(inner))


def _inner_op(name):
    def build(w, inj, p):
        from reactivex import operators as ops
        kinds = p.get("inner") or ["hot"]
        if name == "catch":
            return w.src("s").observable.pipe(ops.catch(_counted(w, inj, "handler", kinds, "in")))
        if name.endswith("_indexed"):
            cnt = [0]

            def fn(v, i):
                j = cnt[0]
                cnt[0] += 1
                return _obs(w, kinds, j, "in")
            return w.src("s").observable.pipe(getattr(ops, name)(inj.wrap("mapper", fn)))
        return w.src("s").observable.pipe(getattr(ops, name)(_counted(w, inj, "mapper", kinds, "in")))
    return build


def _group_op(name):
    def build(w, inj, p):
        from reactivex import operators as ops
        s = w.src("s").observable
        key = inj.wrap("key_mapper", lambda v: v % 2 if isinstance(v, int) else 0)
        elem = inj.wrap("element_mapper", lambda v: v) if p.get("elem") else None
        if name == "group_by":
            return s.pipe(ops.group_by(key, elem))
        if name == "group_by_until":
            return s.pipe(ops.group_by_until(key, elem, _counted(w, inj, "duration_mapper", p.get("durs"), "d")))
        closing = _counted(w, inj, "closing_mapper", p.get("durs"), "d")
        if name in ("window_when", "buffer_when"):
            return s.pipe(getattr(ops, name)(closing))
        return s.pipe(getattr(ops, name)(w.src("o").observable, closing))
    return build


def _simple():
    def o():
        from reactivex import operators as ops
        return ops
    S = {
        "map": lambda f: o().map(f(lambda x: x + 1)),
        "map_indexed": lambda f: o().map_indexed(f(lambda x, i: x + i)),
        "filter": lambda f: o().filter(f(lambda x: x % 3 != 0)),
        "filter_indexed": lambda f: o().filter_indexed(f(lambda x, i: i % 2 == 0)),
        "scan": lambda f: o().scan(f(lambda a, x: a + x), 0),
        "reduce": lambda f: o().reduce(f(lambda a, x: a + x), 0),
        "take_while": lambda f: o().take_while(f(lambda x: x < 50)),
        "skip_while": lambda f: o().skip_while(f(lambda x: False)),
        "distinct": lambda f: o().distinct(f(lambda x: x % 5)),
        "distinct_until_changed": lambda f: o().distinct_until_changed(f(lambda x: x % 5)),
        "first": lambda f: o().first(f(lambda x: x == 98)),
        "some": lambda f: o().some(f(lambda x: x == 98)),
        "all": lambda f: o().all(f(lambda x: x != 98)),
        "count": lambda f: o().count(f(lambda x: True)),
        "to_dict": lambda f: o().to_dict(f(lambda x: x)),
        "find": lambda f: o().find(f(lambda x, i, s: x == 98)),
    }
    out = {}
    for nm, mk in S.items():
        out[nm] = dict(cbs=["callback"], kind="plain",
                       build=(lambda w, inj, p, mk=mk: w.src("s").observable.pipe(mk(lambda fn: inj.wrap("callback", fn)))))
    return out


def _extra():
    E = {}
    E["timeout_with_mapper"] = dict(cbs=["mapper"], kind="timed", build=b_timeout_with_mapper)
    E["delay_with_mapper"] = dict(cbs=["mapper"], kind="timed", build=b_delay_with_mapper)
    E["throttle_with_mapper"] = dict(cbs=["mapper"], kind="timed", build=b_throttle_with_mapper)
    E["flat_map(generate_with_relative_time)"] = dict(cbs=["condition", "iterate", "time_mapper"], kind="gwrt", build=b_gwrt)
    for nm in ("flat_map", "flat_map_indexed", "switch_map", "switch_map_indexed", "concat_map", "flat_map_latest"):
        E[nm] = dict(cbs=["mapper"], kind="inner", build=_inner_op(nm))
    E["catch(handler)"] = dict(cbs=["handler"], kind="inner", build=_inner_op("catch"))
    E["group_by"] = dict(cbs=["key_mapper", "element_mapper"], kind="group", build=_group_op("group_by"))
    E["group_by_until"] = dict(cbs=["key_mapper", "element_mapper", "duration_mapper"], kind="group",
                               build=_group_op("group_by_until"))
    for nm in ("window_when", "buffer_when", "window_toggle", "buffer_toggle"):
        E[nm] = dict(cbs=["closing_mapper"], kind="group", build=_group_op(nm))
    E.update(_simple())
    return E


EXTRA = _extra()
CAT = dict(R.CATALOGUE)
CAT.update(EXTRA)
SUBSCRIBE_TIME_FIRST_CALL = ("window_when", "buffer_when")     # first closing-mapper call is inside subscribe()
NO_CALLBACK_TIMED = ["timer", "interval", "sample", "debounce", "throttle_first", "throttle_with_timeout",
                     "buffer_with_time", "buffer_with_time_or_count", "window_with_time", "window_with_time_or_count",
                     "delay", "delay_subscription", "timeout", "take_with_time", "skip_with_time",
                     "take_last_with_time", "skip_last_with_time", "take_until_with_time", "skip_until_with_time",
                     "time_interval", "timestamp"]


# --------------------------------------------------------------------------
# driver


def run_case(case):
    """case: dict(mode, operator, callback, k, params, script).  script steps: those of c09_rest.run_case plus
      ["run", dt]   hold: the scheduler runs everything due within the next dt units (one step per action);
                    tick: the following steps are scheduled dt ticks later (steps without a "run" between
                    them are due on the SAME tick)."""
    lib.import_repo()
    W = World()
    inj = Inj(W, case.get("callback"), case.get("k"))
    box = {"build_error": None, "n_groups": 0}
    status, _ = lib.with_timeout(BUDGET, _run, case, W, inj, box)
    if status != "ok":
        W.rec("hang", case.get("mode"))
        W.rec("endstep")
    return {"events": W.events, "failure": inj.failure, "counts": dict(inj.counts), "build_error": box["build_error"],
            "n_groups": box["n_groups"]}


def _run(case, W, inj, box):
    p = case.get("params") or {}
    spec = CAT[case["operator"]]
    mode = case.get("mode", "hold")
    sched = make_hold(W) if mode == "hold" else make_tick(W)
    groups, gsubs = [], {}
    policy = p.get("groups") or []
    state = {"sub": None}

    def subscribe_group(g):
        j = len(gsubs.setdefault(g, []))
        gb = {"d": None, "j": j, "done": False}
        gsubs[g].append(gb)
        W.rec("gsub", g, j)

        def term(kind, e):
            gb["done"] = True
            W.rec("gout", (g, j), (kind, e))
        d = groups[g].subscribe(lambda v: W.rec("gout", (g, j), ("N", v)), lambda e: term("E", e),
                                lambda: term("C", None), scheduler=sched)
        if not gb["done"]:
            gb["d"] = d

    def unsubscribe_group(g):
        for gb in gsubs.get(g, []):
            if gb["d"] is not None:
                d, gb["d"] = gb["d"], None
                W.rec("gunsub", g, gb["j"])
                d.dispose()
                return

    def on_next(v):
        obs = None
        if p.get("mode") != "flat":
            if hasattr(v, "subscribe"):
                obs = v
            elif isinstance(v, tuple) and len(v) == 2 and hasattr(v[1], "subscribe"):
                obs = v[1]
        if obs is not None:
            g = len(groups)
            groups.append(obs)
            box["n_groups"] = len(groups)
            W.rec("hand", g, getattr(obs, "key", v[0] if isinstance(v, tuple) else None))
            if (policy[g % len(policy)] if policy else "imm") == "imm":
                subscribe_group(g)
        else:
            W.rec("out", "N", v)

    try:
        built = spec["build"](W, inj, p)
    except Exception as e:
        box["build_error"] = e
        W.rec("endstep")
        return
    try:
        if isinstance(built, list):           # operators returning a list of output observables
            groups.extend(built)
            box["n_groups"] = len(groups)
            for g in p.get("subscribed", [0, 1]):
                subscribe_group(g)
        else:
            state["sub"] = built.subscribe(on_next, lambda e: W.rec("out", "E", e), lambda: W.rec("out", "C", None),
                                           scheduler=sched)
    except Exception as e:
        W.rec("escape", e)
    W.rec("endstep")

    def do(st):
        """one hand-made step (the emitter's side: whatever comes out of it escaped into the emitter)"""
        W.rec("script", " ".join(str(x) for x in st))
        try:
            if st[0] == "src":
                s = W.sources.get(st[1])
                if s is not None:
                    if st[2] == "N":
                        s.push("N", R.val(inj, st[3]))
                    elif st[2] == "E":
                        s.push("E", SrcError(st[3]))
                    else:
                        s.push("C")
            elif st[0] == "gsub":
                if st[1] < len(groups):
                    subscribe_group(st[1])
            elif st[0] == "gunsub":
                unsubscribe_group(st[1])
            elif st[0] == "dispose":
                if state["sub"] is not None:
                    W.rec("dispose")
                    s, state["sub"] = state["sub"], None
                    s.dispose()
        except Exception as e:
            W.rec("escape", e)

    if mode == "hold":
        for st in case["script"]:
            if st[0] == "run":
                sched.run(st[1])
                continue
            W.step += 1
            do(st)
            W.rec("endstep")
        sched.run(0)
        sched.run(1000)
    else:
        t = 10.0
        for st in case["script"]:
            if st[0] == "run":
                t += st[1]
                continue
            sched.schedule_absolute(t, (lambda s_, st_, st=st: do(st)))
        sched.start()


# --------------------------------------------------------------------------
# oracle


def oracle(case, res):
    A = analyse(res)
    hang = [(seq, step, a) for (seq, step, kind, a, b) in res["events"] if kind == "hang"]
    runaway = [(seq, step, a) for (seq, step, kind, a, b) in res["events"] if kind == "runaway"]
    F = res["failure"]
    if hang:
        info = {"raised": F is not None, "deliverable": False, "delivered": False, "earlier": 0, "late": False}
        return [("hang", f"the run did not come back within {BUDGET} s (step {hang[0][1]})")], info
    probs, info = R.oracle(case, res)
    info["late"] = False
    if F is None:
        return probs, info
    if runaway:
        probs.append(("runaway", f"the scheduler ran more than {runaway[0][2]} actions"))
    if info.get("deliverable") and not info["delivered"]:
        exc = F["exc"]
        anywhere = ([o for o in A["outs"] if o[3] is exc] or [n for g in A["gs"].values() for n in g["notes"] if n[3] is exc])
        if not anywhere:
            probs.insert(0, ("never-delivered", f"{exc!r} raised in {F['cb']} at step {F['step']} never reached the "
                                                f"subscriber, not even after the scheduler had run everything"))
    if info["delivered"]:
        exc, fstep = F["exc"], F["step"]
        hits = [o for o in A["outs"] if o[3] is exc]
        ghits = [n for g in A["gs"].values() for n in g["notes"] if n[3] is exc]
        at = (hits or ghits)[0][1] if (hits or ghits) else None
        if at is not None and at != fstep:
            info["late"] = True
            probs.insert(0, ("delivered-late", f"{exc!r} raised in {F['cb']} at step {fstep}, delivered as on_error only "
                                               f"at step {at} (queued on the subscribe-time scheduler instead of "
                                               f"being handed to the observer)"))
    return probs, info


# --------------------------------------------------------------------------
# generators


def _durs(rng, n=3, kinds=("hot", "hot", "never", "timer2", "timer5", "empty")):
    return [rng.choice(kinds) for _ in range(n)]


def gen_extra(rng, op):
    kind = EXTRA[op]["kind"]
    p, script = {}, []
    n = rng.choice([2, 2, 3, 4, 5])
    if kind == "timed":
        p["durs"] = _durs(rng, kinds=("hot", "hot", "never", "never", "timer2", "timer5")
                          + (("empty",) if op != "timeout_with_mapper" else ()))
        if op == "timeout_with_mapper":
            p["first"] = rng.choice(["never", "never", "hot", "timer5"])
            p["other"] = rng.choice(["none", "hot"])
        if op == "delay_with_mapper":
            p["sd"] = rng.choice(["none", "none", "hot", "timer1"])
            if p["sd"] == "hot":
                script.append(["src", "sd", "N", 0])
        pre = {"timeout_with_mapper": "t", "delay_with_mapper": "d", "throttle_with_mapper": "d"}[op]
        for i in range(1, n + 1):
            script.append(["src", "s", "N", i])
            r = rng.random()
            if r < 0.3:
                script.append(["src", f"{pre}{rng.randrange(i)}", "N", 0])
            elif r < 0.4:
                script.append(["src", f"{pre}{rng.randrange(i)}", "C"])
            elif r < 0.45:
                script.append(["src", "other", "N", 40 + i])
    elif kind == "gwrt":
        p["times"] = [rng.choice([0, 0, 1, 2]) for _ in range(3)]
        for i in range(1, n + 1):
            script.append(["src", "s", "N", 10 * i])
    elif kind == "inner":
        p["inner"] = _durs(rng, 4, ("hot", "hot", "of", "empty", "timer2"))
        for i in range(1, n + 1):
            if op == "catch(handler)":
                if i == 1:
                    script += [["src", "s", "N", 1], ["src", "s", "E", 11]]
                else:
                    j = i - 2
                    script += [["src", f"in{j}", "N", 20 + j], ["src", f"in{j}", "E", 12]]
                continue
            script.append(["src", "s", "N", i])
            r = rng.random()
            if r < 0.45:
                script.append(["src", f"in{rng.randrange(i)}", "N", 20 + i])
            elif r < 0.65:
                script.append(["src", f"in{rng.randrange(i)}", "C"])
    elif kind == "group":
        p["durs"] = _durs(rng, kinds=("hot", "hot", "never", "timer2", "empty"))
        p["elem"] = rng.random() < 0.6
        p["groups"] = [rng.choice(["imm", "imm", "imm", "never"]) for _ in range(4)]
        for i in range(1, n + 1):
            if op.endswith("_toggle") and (i == 1 or rng.random() < 0.4):
                script.append(["src", "o", "N", i])
            script.append(["src", "s", "N", i])
            r = rng.random()
            if r < 0.35:
                script.append(["src", f"d{rng.randrange(i + 1)}", "N", 0])
            elif r < 0.45:
                script.append(["gunsub", rng.randrange(i)])
    else:
        for i in range(1, n + 1):
            script.append(["src", "s", "N", rng.choice([i, i, 98, 3])])
    if rng.random() < 0.6 and op != "catch(handler)":
        script.append(R._terminal(rng, "s"))
    if rng.random() < 0.4:
        script.append(["src", "s", "N", 7])
    return p, script


def with_runs(rng, script, mode):
    """scheduler steps between the pushes: sparse -- most neighbouring notifications arrive with the scheduler
    not having run (hold) / on the same tick (tick)"""
    out = []
    p_run = rng.choice([0.0, 0.15, 0.15, 0.35])
    for st in script:
        out.append(st)
        if rng.random() < p_run:
            out.append(["run", rng.choice([1, 1, 1, 3, 6])])
    return out


def gen_case(rng, op, mode, control=False):
    if op in EXTRA:
        spec = EXTRA[op]
        p, script = gen_extra(rng, op)
        cb = rng.choice(spec["cbs"])
        if cb == "element_mapper":
            p["elem"] = True
        k = None if control else rng.choice([1, 1, 2, 2, 3])
        if op in SUBSCRIBE_TIME_FIRST_CALL and k == 1:
            k = 2
        case = {"operator": op, "callback": cb, "k": k, "params": p, "script": script}
    else:
        case = R.gen_case(rng, op, control)
        case["params"] = dict(case["params"])
        case["params"].pop("sched", None)
    case["family"] = "held"
    case["mode"] = mode
    case["script"] = with_runs(rng, case["script"], mode)
    return case


# --------------------------------------------------------------------------
# the family


def _fails(case, slugs):
    try:
        probs, info = oracle(case, run_case(case))
    except Exception:
        return False
    return info["raised"] and slugs <= {s for s, _ in probs}


def shrink(case, slugs):
    slugs = set(slugs)
    cur = case
    lo = 2 if case["operator"] in SUBSCRIBE_TIME_FIRST_CALL else 1
    for k in range(lo, (case.get("k") or 1)):
        cand = dict(cur, k=k)
        if _fails(cand, slugs):
            cur = cand
            break
    changed, rounds = True, 0
    while changed and rounds < 5:
        changed = False
        rounds += 1
        i = 0
        while i < len(cur["script"]):
            cand = dict(cur, script=cur["script"][:i] + cur["script"][i + 1:])
            if _fails(cand, slugs):
                cur, changed = cand, True
            else:
                i += 1
    return cur


def describe(case, res, probs):
    d = R.describe(case, res, probs)
    d["held_case"] = d.pop("rest_case")
    d["mode"] = case["mode"]
    d["legend"] += ("; mode hold: the subscribe-time scheduler only queues and runs at the 'run dt' steps (and at the "
                    "end); mode tick: TestScheduler, steps without a 'run' between them are due on the same tick; "
                    "every action the scheduler runs is a step of its own")
    return d


def run_family(chk):
    quick = chk.tier == "quick"
    rng = chk.rng
    base = 40 if quick else 400
    weights = {"timed": 5, "gwrt": 3, "inner": 2, "group": 2, "join": 2, "expand": 2, "factory": 1, "seq": 2}
    per_op, per_mode = {}, {m: {"cases": 0, "raised": 0, "delivered_same_step": 0} for m in MODES}
    pending_hist = {"raise with a later notification before the scheduler ran again": 0, "other": 0}
    nontrivial, anomalies, worst, seen = set(), [], {}, {}
    for op, spec in CAT.items():
        n = base * weights.get(spec["kind"], 1)
        st = per_op.setdefault(op, {"cases": 0, "raised": 0, "delivered_same_step": 0})
        for ci in range(n):
            mode = MODES[ci % 2]
            control = ci % 9 == 8
            case = gen_case(rng, op, mode, control)
            res = run_case(case)
            try:
                probs, info = oracle(case, res)
            except Exception as e:       # the log of a changed library may break the oracle's bookkeeping
                probs, info = [("oracle-error", repr(e))], {"raised": res["failure"] is not None, "delivered": False,
                                                            "earlier": 0, "late": False}
            chk.cov["evaluations"] += 1
            st["cases"] += 1
            per_mode[mode]["cases"] += 1
            if info["raised"]:
                st["raised"] += 1
                per_mode[mode]["raised"] += 1
                fstep = res["failure"]["step"]
                # was a hand-made notification processed after the failing step and before the next scheduler run?
                nxt = _next_is_push(case, res, fstep)
                pending_hist["raise with a later notification before the scheduler ran again" if nxt else "other"] += 1
            if probs and not info["raised"]:
                if len(anomalies) < 5:
                    anomalies.append({"case": case, "what": [t for _, t in probs]})
                continue
            if probs:
                slug = probs[0][0]
                small = shrink(case, [slug])
                sres = run_case(small)
                sprobs, _ = oracle(small, sres)
                if not sprobs or sprobs[0][0] != slug:
                    small, sres, sprobs = case, res, probs
                # ONE signature per operator (lib writes only the 3 smallest violations of a check): the witness
                # kept is one in which the exception is lost for good if there is any, else one in which another
                # notification overtook it, else one in which it is merely late; the shortest script among those
                sig = f"held|{op}"
                rank = ({"never-delivered": 0, "delivered-late": 2}.get(slug, 1), len(small["script"]))
                seen.setdefault(sig, set()).add(f"{case['callback']}: {slug}")
                if sig not in worst or rank < worst[sig][0]:
                    worst[sig] = (rank, describe(small, sres, sprobs))
            elif info["delivered"]:
                st["delivered_same_step"] += 1
                per_mode[mode]["delivered_same_step"] += 1
                if info["earlier"] >= 1 and nxt:
                    nontrivial.add(json.dumps([op, mode, case["callback"], case["k"], case["params"], case["script"]],
                                              sort_keys=True))
    for sig, (rank, rep) in sorted(worst.items()):
        rep["failing (callback: clause) pairs of this operator in this run"] = sorted(seen[sig])
        chk.violation(sig, rep, size=rank[1])
    chk.cov["non_immediate_subscribe_scheduler"] = {
        "operators": {op: spec["cbs"] for op, spec in CAT.items()},
        "timed exports without a user callback (used as duration / closing observables only)": NO_CALLBACK_TIMED,
        "per operator": per_op,
        "per mode": per_mode,
        "where the raise fell": pending_hist,
        "distinct_nontrivial": len(nontrivial),
        "rule": "non-trivial = the injected exception was raised, a further hand-made notification followed it before "
                "the subscribe-time scheduler ran again (hold) / on the same tick (tick), at least one notification "
                "preceded the raise, the exception was delivered as on_error in the raising step and every clause held; "
                "distinct by (operator, mode, callback, k, params, script)",
        "control_anomalies (no callback raised; not a C09 verdict)": anomalies,
    }
    return nontrivial


def _next_is_push(case, res, fstep):
    """was the step after the failing one a step of the script (a notification / subscriber action), i.e. did it
    arrive before the scheduler got to run what the failing step may have queued?"""
    return any(kind == "script" and step == fstep + 1 for (seq, step, kind, a, b) in res["events"])


def replay_case(chk, d, path):
    case = d["held_case"]
    res = run_case(case)
    probs, info = oracle(case, res)
    out = describe(case, res, probs)
    out["oracle"] = [f"{s}: {t}" for s, t in probs] or "holds"
    print(json.dumps(out, indent=1, default=repr))
    if probs and info["raised"]:
        print(f"VIOLATION property=C09 replay={path}")
        return 1
    return 0
