"""C12 -- see DESIGN.md section 7/C12.  Machines: Ops/Combinators.v on the runner
Ops/Multi.v; tie: K2 multi-source port-level replay (harness/k2m.py); oracle:
harness/comb_oracle.py (direct reading of the property statement)."""
import comb_oracle
import comb_table
import lib

NAMES = {"C10": ["concat", "catch", "catch_handler", "on_error_resume_next", "repeat", "retry", "while_do", "do_while"],
         "C11": ["merge", "flat_map", "flat_map_indexed", "merge_all", "concat_map", "merge_mc"],
         "C12": ["switch_map", "switch_map_indexed", "flat_map_latest", "switch_latest"],
         "C13": ["zip", "combine_latest", "with_latest_from", "fork_join", "amb"]}["C12"]
ORACLE = getattr(comb_oracle, "oracle_" + "C12".lower())


def run(chk):
    chk.build_and_prove()
    comb_table.run_ops(chk, "C12", NAMES, ORACLE)
    chk.cov["rule"] = ("per operator: seeded instances (source counts 1-3, callback tables indexed by invocation, "
                       "20% raising) x seeded interleavings of hand-driven hot sources (0-4 elements each, "
                       "completion/error/none, 15% non-conforming tails, 15% with a dispose instant, same-instant "
                       "events); non-trivial = distinct (machine, delivered input sequence) with >= 2 emissions and "
                       "the oracle satisfied")
    chk.cov["operators_modelled"] = NAMES
    return chk.finish(trusted_extra=["multi-source K2 driver harness/k2m.py (hot sources, boundary log, canonical "
                                     "per-instant ordering of subscribe/unsubscribe events)",
                                     "runner assumption (Ops/Multi.v): the disposable an operator returns holds every "
                                     "subscription it opened -- checked here by comparing unsubscribe instants"])


def replay(chk, path):
    print(open(path).read())
    return 1


# ---- oracle-only scenarios: inners that emit inside subscribe() and re-entrant arrival of the next inner ----
def reentrant_scenarios(chk):
    import reactivex as rx
    from reactivex import operators as ops
    from reactivex.subject import Subject, BehaviorSubject
    n = 80 if chk.tier == "quick" else 1000
    hist = {}
    nontrivial = set()
    for _ in range(n):
        which = chk.rng.choice(["switch_latest", "switch_map", "switch_map_indexed", "flat_map_latest"])
        k = chk.rng.choice([2, 3, 4])
        # inner i: (has initial value?, arrives re-entrantly when the previous inner's initial value is seen?)
        spec = [(chk.rng.random() < 0.6, i > 0 and chk.rng.random() < 0.6) for i in range(k)]
        inners = []
        for i, (init, _) in enumerate(spec):
            inners.append(BehaviorSubject(("init", i)) if init else Subject())
        outer = Subject()
        out, term = [], []
        arrived = []

        def arrive(i):
            arrived.append(i)
            if which == "switch_latest":
                outer.on_next(inners[i])
            else:
                outer.on_next(i)

        def on_next(v):
            out.append(v)
            if isinstance(v, tuple) and v[0] == "init":
                j = v[1] + 1
                if j < k and spec[j][1] and j not in arrived:
                    arrive(j)          # re-entrant: from inside the delivery of inner j-1's first element
        if which == "switch_latest":
            o = outer.pipe(ops.switch_latest())
        elif which == "switch_map":
            o = outer.pipe(ops.switch_map(lambda i: inners[i]))
        elif which == "switch_map_indexed":
            o = outer.pipe(ops.switch_map_indexed(lambda i, _: inners[i]))
        else:
            o = outer.pipe(ops.flat_map_latest(lambda i: inners[i]))
        o.subscribe(on_next, lambda e: term.append("E"), lambda: term.append("C"))
        for i in range(k):
            if i not in arrived:
                arrive(i)
        latest = arrived[-1]
        # only the latest inner may still be subscribed
        stale = [i for i in range(k) if i != latest and inners[i].observers]
        for i in range(k):
            inners[i].on_next(("late", i))
        outer.on_completed()
        done_before = list(term)
        inners[latest].on_completed()
        chk.cov["evaluations"] += 1
        key = f"{which}/k={k}/reentrant={sum(1 for _, r in spec if r)}"
        hist[key] = hist.get(key, 0) + 1
        # reference: every inner is the latest at the moment it is subscribed, so its initial value (if any)
        # is forwarded, in arrival order; afterwards only the final latest is listened to
        exp = []
        def ref_arrive(i, acc):
            acc.append(i)
        order = []
        pending = list(range(k))
        def sim(i):
            order.append(i)
            if spec[i][0]:
                exp.append(("init", i))
                j = i + 1
                if j < k and spec[j][1] and j not in order:
                    sim(j)
        for i in range(k):
            if i not in order:
                sim(i)
        exp.append(("late", order[-1]))
        bad = None
        if order != arrived:
            bad = f"harness bug: arrival order {arrived} vs reference {order}"
        elif stale:
            bad = f"previous inner(s) {stale} still subscribed after inner {latest} arrived"
        elif out != exp:
            bad = f"forwarded {out}, expected {exp}"
        elif done_before:
            bad = "completed before the latest inner completed"
        elif term != ["C"]:
            bad = f"terminal {term}, expected completion once outer and latest inner completed"
        if bad:
            chk.violation(f"C12|reentrant|{which}|{bad[:40]}",
                          {"operator": which, "inners (has initial value, arrives re-entrantly)": spec,
                           "arrival order": arrived, "forwarded": out, "expected": exp, "what": bad},
                          size=k + sum(1 for _, r in spec if r))
        elif any(r for _, r in spec):
            nontrivial.add(repr((which, spec)))
    return nontrivial, hist


_run_machines = run


def run(chk):
    chk_finish = chk.finish
    holder = {}

    def deferred_finish(*a, **kw):
        holder["args"] = (a, kw)
        return 0
    chk.finish = deferred_finish
    _run_machines(chk)
    chk.finish = chk_finish
    nt, hist = reentrant_scenarios(chk)
    chk.cov["distinct_nontrivial"] += len(nt)
    chk.cov["input_distribution"]["reentrant_scenarios"] = hist
    chk.cov["rule"] += ("; plus oracle-only scenarios: inner sequences that emit inside subscribe() (BehaviorSubject) "
                        "whose first element makes the outer emit the next inner re-entrantly")
    a, kw = holder["args"]
    return chk.finish(*a, **kw)
