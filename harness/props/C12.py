"""C12 -- see DESIGN.md section 7/C12.  Machines: Ops/Combinators.v on the runner
Ops/Multi.v; tie: K2 multi-source port-level replay (harness/k2m.py); oracle:
harness/comb_oracle.py (direct reading of the property statement)."""
import comb_oracle
import comb_table
import lib

NAMES = {"C10": ["concat", "catch", "catch_handler", "on_error_resume_next", "repeat", "retry", "while_do", "do_while"],
         "C11": ["merge", "flat_map", "flat_map_indexed", "merge_all", "concat_map", "merge_mc"],
         "C12": ["switch_map", "switch_map_indexed", "flat_map_latest", "switch_latest"],
         "C13": ["zip", "combine_latest", "with_latest_from", "fork_join", "amb"]}["C12"]
ORACLE = getattr(comb_oracle, "oracle_" + "C12".lower())


def run(chk):
    chk.build_and_prove()
    comb_table.run_ops(chk, "C12", NAMES, ORACLE)
    chk.cov["rule"] = ("per operator: seeded instances (source counts 1-3, callback tables indexed by invocation, "
                       "20% raising) x seeded interleavings of hand-driven hot sources (0-4 elements each, "
                       "completion/error/none, 15% non-conforming tails, 15% with a dispose instant, same-instant "
                       "events); non-trivial = distinct (machine, delivered input sequence) with >= 2 emissions and "
                       "the oracle satisfied")
    chk.cov["operators_modelled"] = NAMES
    return chk.finish(trusted_extra=["multi-source K2 driver harness/k2m.py (hot sources, boundary log, canonical "
                                     "per-instant ordering of subscribe/unsubscribe events)",
                                     "runner assumption (Ops/Multi.v): the disposable an operator returns holds every "
                                     "subscription it opened -- checked here by comparing unsubscribe instants"])


def replay(chk, path):
    import json
    rep = json.load(open(path))
    if rep.get("family") in ("reent_scenarios", "reent_teardown"):     # harness/c12_reent.py: re-run the scenario on the current tree
        import c12_reent
        return c12_reent.replay_case(rep, path)
    if "script" in rep and "pool" in rep:          # a pooled_inner_scenarios case: re-run it on the current tree
        bad = _pooled_check(rep["operator"], rep["pool"], rep["script"], bool(rep.get("with_scheduler")))
        if bad:
            print(json.dumps({"operator": rep["operator"], "pool": rep["pool"], "script": rep["script"],
                              "mismatch": bad[0], "what": bad[1], "got": bad[2], "expected": bad[3]},
                             indent=1, default=repr))
            print(f"VIOLATION property=C12 replay={path}")
            return 1
        print(f"[C12] replay {path}: implementation agrees with the reference semantics on this case")
        return 0
    if rep.get("family") == "reentrant_scenarios":
        spec = [tuple(x) for x in rep["inners (has initial value, arrives re-entrantly)"]]
        bad, arrived, out, exp = _reentrant_case(rep["operator"], spec)
        print(json.dumps({"operator": rep["operator"], "inners (has initial value, arrives re-entrantly)": spec,
                          "arrival order": arrived, "forwarded": out, "expected": exp, "what": bad}, indent=1,
                         default=repr))
        if bad:
            print(f"VIOLATION property=C12 replay={path}")
            return 1
        print(f"[C12] replay {path}: implementation agrees with the reference semantics on this case")
        return 0
    print(open(path).read())
    return 1


# ---- oracle-only scenarios: inners that emit inside subscribe() and re-entrant arrival of the next inner ----
def _reentrant_case(which, spec):
    """spec[i] = (inner i has an initial value?, it arrives re-entrantly when the previous inner's initial value is
    seen?) -> (what failed or None, arrival order, forwarded, expected)"""
    from reactivex import operators as ops
    from reactivex.subject import Subject, BehaviorSubject
    k = len(spec)
    inners = []
    for i, (init, _) in enumerate(spec):
        inners.append(BehaviorSubject(("init", i)) if init else Subject())
    outer = Subject()
    out, term = [], []
    arrived = []
    idx_seen = []              # index argument handed to switch_map_indexed's projection, call by call

    def indexed_pick(i, idx):
        idx_seen.append(idx)
        return inners[i]

    def arrive(i):
        arrived.append(i)
        if which == "switch_latest":
            outer.on_next(inners[i])
        else:
            outer.on_next(i)

    def on_next(v):
        out.append(v)
        if isinstance(v, tuple) and v[0] == "init":
            j = v[1] + 1
            if j < k and spec[j][1] and j not in arrived:
                arrive(j)          # re-entrant: from inside the delivery of inner j-1's first element
    if which == "switch_latest":
        o = outer.pipe(ops.switch_latest())
    elif which == "switch_map":
        o = outer.pipe(ops.switch_map(lambda i: inners[i]))
    elif which == "switch_map_indexed":
        o = outer.pipe(ops.switch_map_indexed(indexed_pick))
    else:
        o = outer.pipe(ops.flat_map_latest(lambda i: inners[i]))
    o.subscribe(on_next, lambda e: term.append("E"), lambda: term.append("C"))
    for i in range(k):
        if i not in arrived:
            arrive(i)
    latest = arrived[-1]
    # only the latest inner may still be subscribed
    stale = [i for i in range(k) if i != latest and inners[i].observers]
    for i in range(k):
        inners[i].on_next(("late", i))
    outer.on_completed()
    done_before = list(term)
    inners[latest].on_completed()
    # reference: every inner is the latest at the moment it is subscribed, so its initial value (if any)
    # is forwarded, in arrival order; afterwards only the final latest is listened to
    exp = []
    order = []

    def sim(i):
        order.append(i)
        if spec[i][0]:
            exp.append(("init", i))
            j = i + 1
            if j < k and spec[j][1] and j not in order:
                sim(j)
    for i in range(k):
        if i not in order:
            sim(i)
    exp.append(("late", order[-1]))
    bad = None
    if order != arrived:
        bad = f"harness bug: arrival order {arrived} vs reference {order}"
    elif which == "switch_map_indexed" and repr(idx_seen) != repr(list(range(k))):
        bad = f"index arguments {idx_seen}, expected {list(range(k))}"
    elif stale:
        bad = f"previous inner(s) {stale} still subscribed after inner {latest} arrived"
    elif out != exp:
        bad = f"forwarded {out}, expected {exp}"
    elif done_before:
        bad = "completed before the latest inner completed"
    elif term != ["C"]:
        bad = f"terminal {term}, expected completion once outer and latest inner completed"
    return bad, arrived, out, exp


def reentrant_scenarios(chk):
    n = 80 if chk.tier == "quick" else 1000
    hist = {}
    nontrivial = set()
    for _ in range(n):
        which = chk.rng.choice(["switch_latest", "switch_map", "switch_map_indexed", "flat_map_latest"])
        k = chk.rng.choice([2, 3, 4])
        # inner i: (has initial value?, arrives re-entrantly when the previous inner's initial value is seen?)
        spec = [(chk.rng.random() < 0.6, i > 0 and chk.rng.random() < 0.6) for i in range(k)]
        bad, arrived, out, exp = _reentrant_case(which, spec)
        chk.cov["evaluations"] += 1
        key = f"{which}/k={k}/reentrant={sum(1 for _, r in spec if r)}"
        hist[key] = hist.get(key, 0) + 1
        if bad:
            chk.violation(f"C12|reentrant|{which}|{'index arguments' if bad.startswith('index arguments') else bad[:40]}",
                          {"family": "reentrant_scenarios", "operator": which,
                           "inners (has initial value, arrives re-entrantly)": spec,
                           "arrival order": arrived, "forwarded": out, "expected": exp, "what": bad},
                          size=k + sum(1 for _, r in spec if r))
        elif any(r for _, r in spec):
            nontrivial.add(repr((which, spec)))
    return nontrivial, hist


# ---- oracle-only scenarios: the projection picks the inner from a small POOL reused across outer elements ----
# pool member: {"kind": "cold", "prefix": [...], "end": "C" | "E" | "open"}   or   {"kind": "hot"}
#   cold: an Observable over a logging subscribe function; EVERY subscription gets the prefix synchronously,
#         then completes ("C"), errors ("E") or stays open; an open subscription receives what the script
#         pushes to the member later (push / complete / error act on the member's live subscriptions only,
#         a later subscription starts afresh)
#   hot:  a Subject (logging its subscribe / unsubscribe); its termination is remembered (subscribing a
#         terminated Subject terminates at once)
#   future: an already finished concurrent.futures.Future (result "value" if end == "C", an exception if "E"): every
#         arrival delivers the result and completes, or errors, synchronously (from_future branch of switch_latest);
#         it has no subscribe/unsubscribe log and the script's push / complete / error steps do not touch it
# script step: ["outer", j] (outer emits j -> pool[j]) | ["push", m, v] | ["complete", m] | ["error", m] |
#              ["outer_complete"] | ["outer_error"] | ["dispose"]
# operators: "switch_map()" / "switch_map_indexed()" are the operators built WITHOUT a projection (default =
#   identity), fed with the inner observables themselves; for "switch_map_indexed" the projection picks
#   pool[(element + index) % len(pool)] and the outer element is chosen so that this is the scripted member --
#   a wrong index argument selects another member; the indices seen are also compared with 0, 1, 2, ...
# with_scheduler: the subscriber subscribes with scheduler=<sentinel object>; every subscription of a cold / hot
#   member must receive that very object
_POOL_VALUES = [0, None, "", False, 1, 2, 3, "a", "b"]
_POOLED_OPS = ["switch_map", "switch_map_indexed", "switch_map_indexed", "flat_map_latest", "map+switch_latest",
               "switch_map()", "switch_map_indexed()"]


def _pooled_gen(rng):
    op = rng.choice(_POOLED_OPS)
    npool = rng.choice([2, 2, 3])
    pool = []
    for _ in range(npool):
        if rng.random() < 0.08:
            pool.append({"kind": "future", "end": rng.choice(["C", "C", "E"]), "value": rng.choice(_POOL_VALUES)})
        elif rng.random() < 0.65:
            pool.append({"kind": "cold",
                         "prefix": [rng.choice(_POOL_VALUES) for _ in range(rng.choice([0, 1, 1, 2, 3]))],
                         "end": rng.choice(["C", "C", "C", "open", "open", "open", "E"])})
        else:
            pool.append({"kind": "hot"})
    n = rng.randint(3, 12)
    script = [["outer", rng.randrange(npool)]]
    last = script[0][1]
    outer_over = False
    while len(script) < n:
        late = len(script) >= n // 2
        r = rng.random()
        m = last if rng.random() < 0.5 else rng.randrange(npool)
        if outer_over and rng.random() < 0.75:       # after the outer's end: mostly member events,
            r = 0.45 + rng.random() * 0.41           # completion of the latest inner first of all
            if rng.random() < 0.4:
                r, m = 0.75, last
        if r < 0.45:
            j = last if rng.random() < 0.3 else rng.randrange(npool)
            script.append(["outer", j])
            last = j
        elif r < 0.68:
            script.append(["push", m, rng.choice(_POOL_VALUES)])
        elif r < 0.79:
            script.append(["complete", m])
        elif r < 0.86:
            if rng.random() < 0.6:                   # rather a stale member than the latest one
                m = rng.choice([x for x in range(npool) if x != last])
            script.append(["error", m])
        elif not late:
            script.append(["push", m, rng.choice(_POOL_VALUES)])
        elif r < 0.94:
            script.append(["outer_complete"])
            outer_over = True
        elif r < 0.97:
            script.append(["outer_error"])
            outer_over = True
        else:
            script.append(["dispose"])
    return op, pool, script


class _SentinelScheduler:
    """only its identity matters: nothing between the subscriber and the inner sources may call a scheduler"""


def _pooled_run_impl(op, pool, script, with_scheduler=False):
    """Drive the real operator; returns (notifications [(step, kind, payload)], log [(step, 'sub'|'unsub', member)],
    still-subscribed description at the end, index arguments seen by an indexed projection, schedulers (as
    'same object as the subscriber passed?') received by the member subscriptions)."""
    import concurrent.futures
    import reactivex as rx
    from reactivex import operators as ops
    from reactivex.disposable import Disposable
    from reactivex.subject import Subject
    step = [-1]
    log, notes = [], []
    live = [0] * len(pool)
    sentinel = _SentinelScheduler() if with_scheduler else None
    sched_ok, idx_seen = [], []
    npool = len(pool)

    def logged(m, inner_dispose):
        log.append((step[0], "sub", m))
        live[m] += 1

        def dispose():
            log.append((step[0], "unsub", m))
            live[m] -= 1
            inner_dispose()
        return Disposable(dispose)         # Disposable runs its action once

    class LoggedSubject(Subject):
        def __init__(self, m):
            super().__init__()
            self.m = m

        def _subscribe_core(self, observer, scheduler=None):
            sched_ok.append((step[0], self.m, scheduler is sentinel))
            holder = []
            d = logged(self.m, lambda: holder[0].dispose())
            holder.append(super()._subscribe_core(observer, scheduler))
            return d

    class Cold:
        def __init__(self, m, spec):
            self.m, self.spec, self.subs = m, spec, []
            self.observable = rx.Observable(self.subscribe)

        def subscribe(self, observer, scheduler=None):
            sched_ok.append((step[0], self.m, scheduler is sentinel))
            rec = [observer]
            d = logged(self.m, lambda: self.subs.remove(rec) if rec in self.subs else None)
            self.subs.append(rec)
            for v in self.spec["prefix"]:
                observer.on_next(v)
            if self.spec["end"] == "C":
                observer.on_completed()
            elif self.spec["end"] == "E":
                observer.on_error(Exception(f"member{self.m}"))
            return d

        def on_next(self, v):
            for rec in list(self.subs):
                rec[0].on_next(v)

        def on_completed(self):
            for rec in list(self.subs):
                rec[0].on_completed()

        def on_error(self, e):
            for rec in list(self.subs):
                rec[0].on_error(e)

    def finished_future(m, s):
        f = concurrent.futures.Future()
        if s["end"] == "C":
            f.set_result(s["value"])
        else:
            f.set_exception(Exception(f"member{m}"))
        return f

    members = [LoggedSubject(m) if s["kind"] == "hot" else finished_future(m, s) if s["kind"] == "future" else Cold(m, s)
               for m, s in enumerate(pool)]
    inner = [x.observable if isinstance(x, Cold) else x for x in members]
    outer = Subject()
    def pick_indexed(x, i):
        idx_seen.append(i)
        return inner[(x + i) % npool]

    if op == "switch_map":
        o = outer.pipe(ops.switch_map(lambda j: inner[j]))
    elif op == "switch_map_indexed":
        o = outer.pipe(ops.switch_map_indexed(pick_indexed))
    elif op == "switch_map()":
        o = outer.pipe(ops.map(lambda j: inner[j]), ops.switch_map())
    elif op == "switch_map_indexed()":
        o = outer.pipe(ops.map(lambda j: inner[j]), ops.switch_map_indexed())
    elif op == "flat_map_latest":
        o = outer.pipe(ops.flat_map_latest(lambda j: inner[j]))
    elif op == "map+switch_latest":
        o = outer.pipe(ops.map(lambda j: inner[j]), ops.switch_latest())
    else:
        raise AssertionError(op)
    sub = o.subscribe(lambda v: notes.append((step[0], "N", v)),
                      lambda e: notes.append((step[0], "E", str(e))),
                      lambda: notes.append((step[0], "C", None)), scheduler=sentinel)
    for k, st in enumerate(script):
        step[0] = k
        try:
            if st[0] in ("push", "complete", "error") and pool[st[1]]["kind"] == "future":
                pass
            elif st[0] == "outer":
                if op == "switch_map_indexed":
                    # the element that makes the projection pick member st[1] when handed the right index
                    # (the projection was called len(idx_seen) times so far: the index this element must get)
                    outer.on_next((st[1] - len(idx_seen)) % npool)
                else:
                    outer.on_next(st[1])
            elif st[0] == "push":
                members[st[1]].on_next(st[2])
            elif st[0] == "complete":
                members[st[1]].on_completed()
            elif st[0] == "error":
                members[st[1]].on_error(Exception(f"member{st[1]}"))
            elif st[0] == "outer_complete":
                outer.on_completed()
            elif st[0] == "outer_error":
                outer.on_error(Exception("outer"))
            elif st[0] == "dispose":
                sub.dispose()
            else:
                raise AssertionError(st)
        except AssertionError:
            raise
        except Exception as e:                      # the script's calls never raise on a correct tree
            notes.append((k, "RAISED", repr(e)))
    held = [f"member {m} x{c}" for m, c in enumerate(live) if c] + (["outer"] if outer.observers else [])
    return notes, log, held, idx_seen, sched_ok


def _pooled_reference(pool, script):
    """The property text, executed: returns (notifications, log, finished?, facts about the case)."""
    notes, log = [], []
    hot_state = {m: "open" for m, s in enumerate(pool) if s["kind"] == "hot"}
    cur = None                  # subscription to the most recently received inner: {"m": member, "live": bool}
    outer_done = False
    finished = False            # the subscriber got its terminal notification or disposed
    arrived = []                # members in arrival order
    cold_completed = set()      # cold members one of whose subscriptions completed
    facts = set()
    for k, st in enumerate(script):
        def end_cur():
            if cur is not None and cur["live"]:
                cur["live"] = False
                log.append((k, "unsub", cur["m"]))
        is_cur = cur is not None and cur["live"] and len(st) > 1 and st[0] != "outer" and cur["m"] == st[1]
        was_inner = len(st) > 1 and st[0] != "outer" and st[1] in arrived
        terminal = None
        if st[0] in ("complete", "error") and st[1] in hot_state and hot_state[st[1]] == "open":
            hot_state[st[1]] = "C" if st[0] == "complete" else "E"      # a Subject remembers, whoever listens
            is_open = True
        elif st[0] in ("push", "complete", "error"):
            is_open = hot_state.get(st[1], "open") == "open"           # a terminated Subject stays silent
        if finished:
            continue
        if st[0] == "outer":
            if outer_done:
                continue                                            # the outer sequence is over
            m = st[1]
            if arrived:
                facts.add("consecutive_repeat" if arrived[-1] == m else
                          "nonconsecutive_repeat" if m in arrived else "switch_to_new_member")
                if m in cold_completed:
                    facts.add("repeat_of_completed_cold")
            # a new inner arrived (possibly the same object again): the previous subscription ends NOW ...
            end_cur()
            # ... and the new inner is subscribed and is the only one listened to from here on
            cur = {"m": m, "live": True}
            arrived.append(m)
            log.append((k, "sub", m))
            spec = pool[m]
            if spec["kind"] == "cold":
                for v in spec["prefix"]:
                    notes.append((k, "N", v))
                ending = spec["end"]
            elif spec["kind"] == "future":                          # a finished future: its result, then completion
                facts.add("future_inner")
                if spec["end"] == "C":
                    notes.append((k, "N", spec["value"]))
                ending = spec["end"]
            else:
                ending = hot_state[m]
            if ending == "C":
                end_cur()                                           # outer not done: no completion yet
                if spec["kind"] == "cold":
                    cold_completed.add(m)
            elif ending == "E":
                facts.add("current_inner_error")
                terminal = ("E", f"member{m}")
        elif st[0] == "push":
            if is_cur and is_open:
                notes.append((k, "N", st[2]))
            elif was_inner and is_open:
                facts.add("stale_element")
        elif st[0] == "complete":
            if is_cur and is_open:
                end_cur()
                if pool[st[1]]["kind"] == "cold":
                    cold_completed.add(st[1])
                if outer_done:
                    facts.add("outer_completed_before_inner")
                    terminal = ("C", None)
            elif was_inner and is_open:
                facts.add("stale_completion")
        elif st[0] == "error":
            if is_cur and is_open:
                facts.add("current_inner_error")
                terminal = ("E", f"member{st[1]}")
            elif was_inner and is_open:
                facts.add("stale_error")
        elif st[0] == "outer_complete":
            if not outer_done:
                outer_done = True
                if cur is None or not cur["live"]:
                    facts.add("outer_completed_after_inner" if cur is not None else "outer_completed_no_inner")
                    terminal = ("C", None)
        elif st[0] == "outer_error":
            if not outer_done:
                outer_done = True
                facts.add("outer_error")
                terminal = ("E", "outer")
        elif st[0] == "dispose":
            facts.add("disposed")
            end_cur()
            finished = True
        else:
            raise AssertionError(st)
        if terminal is not None:
            notes.append((k,) + terminal)
            end_cur()
            finished = True
    if any(f in facts for f in ("consecutive_repeat", "nonconsecutive_repeat")):
        facts.add("repeated_inner")
    log = [x for x in log if pool[x[2]]["kind"] != "future"]        # a Future has no observable subscription
    return notes, log, finished, facts


def _pooled_check(op, pool, script, with_scheduler=False):
    """None if the implementation agrees with the reference, else (kind, text, got, expected)."""
    e_notes, e_log, e_finished, _ = _pooled_reference(pool, script)
    status, res = lib.with_timeout(10, _pooled_run_impl, op, pool, script, with_scheduler)
    exp = {"notifications (step, kind, payload)": [list(x) for x in e_notes],
           "subscriptions (step, what, member)": [list(x) for x in sorted(e_log)]}
    if status != "ok":
        return ("timeout", "the script did not finish in 10 s", None, exp)
    notes, log, held, idx_seen, sched_ok = res
    got = {"notifications (step, kind, payload)": [list(x) for x in notes],
           "subscriptions (step, what, member)": [list(x) for x in sorted(log)],
           "still subscribed at the end": held}
    if op == "switch_map_indexed":
        got["index arguments seen by the projection"] = idx_seen
        exp["index arguments seen by the projection"] = list(range(len(idx_seen)))
        # repr: True / 1.0 are not the index 1
        if repr(idx_seen) != repr(list(range(len(idx_seen)))):
            return ("index", f"the projection of switch_map_indexed was handed the indices {idx_seen}, expected "
                    f"{list(range(len(idx_seen)))}", got, exp)
    # repr: 0 / False / 0.0 are different elements.  Instant order among the subscribe / unsubscribe events of ONE
    # script step is left open by the statement, so the logs are compared as per-step multisets (sorted).
    if repr(notes) != repr(e_notes):
        i = next((i for i, (a, b) in enumerate(zip(notes, e_notes)) if repr(a) != repr(b)), min(len(notes), len(e_notes)))
        return ("notifications", f"subscriber's notification #{i}: got {notes[i] if i < len(notes) else 'nothing'}, "
                f"expected {e_notes[i] if i < len(e_notes) else 'nothing'}", got, exp)
    if sorted(log) != sorted(e_log):
        return ("subscriptions", f"subscribe/unsubscribe log differs: got {sorted(log)}, expected {sorted(e_log)}",
                got, exp)
    if e_finished and held:
        return ("leak", f"still subscribed after the subscriber's end: {held}", got, exp)
    if with_scheduler and not all(ok for (_, _, ok) in sched_ok):
        wrong = [(k, m) for (k, m, ok) in sched_ok if not ok]
        got["member subscriptions (step, member) that did not receive the subscriber's scheduler"] = wrong
        return ("scheduler", f"the subscriber's scheduler object was not handed to the inner subscription(s) "
                f"(step, member) {wrong}", got, exp)
    return None


def _pooled_shrink(op, pool, script, kind, with_scheduler=False):
    """Greedy: drop script steps / prefix elements while the same kind of mismatch remains."""
    import copy
    pool, script = copy.deepcopy(pool), list(script)
    again = True
    while again:
        again = False
        for i in range(len(script)):
            cand = script[:i] + script[i + 1:]
            bad = _pooled_check(op, pool, cand, with_scheduler)
            if bad and bad[0] == kind:
                script, again = cand, True
                break
        else:
            for m, s in enumerate(pool):
                for i in range(len(s.get("prefix", []))):
                    cand = copy.deepcopy(pool)
                    del cand[m]["prefix"][i]
                    bad = _pooled_check(op, cand, script, with_scheduler)
                    if bad and bad[0] == kind:
                        pool, again = cand, True
                        break
                if again:
                    break
    return pool, script


def pooled_inner_scenarios(chk):
    n = 600 if chk.tier == "quick" else 8000
    hist, fact_hist = {}, {}
    nontrivial = set()
    shrunk, worst = {}, {}
    for _ in range(n):
        op, pool, script = _pooled_gen(chk.rng)
        with_scheduler = chk.rng.random() < 0.5
        chk.cov["evaluations"] += 1
        e_notes, _, _, facts = _pooled_reference(pool, script)
        key = f"{op}/" + "+".join(s["kind"] + (":" + s["end"] if s["kind"] != "hot" else "") for s in pool)
        hist[key] = hist.get(key, 0) + 1
        if with_scheduler:
            facts = facts | {"subscribed_with_a_scheduler"}
        if op == "switch_map_indexed" and sum(1 for st in script if st[0] == "outer") >= 2:
            facts = facts | {"indexed_projection_called_twice_or_more"}
        if op.endswith("()"):
            facts = facts | {"default_projection"}
        for f in facts:
            fact_hist[f] = fact_hist.get(f, 0) + 1
        bad = _pooled_check(op, pool, script, with_scheduler)
        if bad:
            sig = f"C12|pooled|{op}|{bad[0]}"
            if shrunk.get(sig, 0) < 3:                 # minimise the first few per signature, keep the smallest
                shrunk[sig] = shrunk.get(sig, 0) + 1
                pool, script = _pooled_shrink(op, pool, script, bad[0], with_scheduler)
                bad = _pooled_check(op, pool, script, with_scheduler)
                facts = _pooled_reference(pool, script)[3]
            if sig in worst and worst[sig][2] <= len(script):
                continue
            worst[sig] = (sig,
                          {"family": "pooled_inner_scenarios", "operator": op, "pool": pool, "script": script,
                           "with_scheduler": with_scheduler, "mismatch": bad[0], "what": bad[1], "got": bad[2], "expected": bad[3],
                           "facts": sorted(facts),
                           "legend": "pool[j] is the inner the projection returns for outer element j (same object "
                                     "every time); cold: every subscription gets the prefix synchronously, then C / E / "
                                     "stays open for the script's push|complete|error; hot: a Subject; future: a "
                                     "finished concurrent.futures.Future.  Operators ending in () are built without a "
                                     "projection and fed the inner observables; switch_map_indexed's projection picks "
                                     "pool[(element + index) % len(pool)].  with_scheduler: subscribe(scheduler=obj), "
                                     "every member subscription must receive obj.  Steps are "
                                     "numbered from 0; 'expected' is the property text executed directly"},
                          len(script))
        elif len(e_notes) >= 2 and "repeated_inner" in facts:
            nontrivial.add(repr((op, pool, script)))
    for sig, rep, size in worst.values():              # the smallest failing case per signature
        chk.violation(sig, rep, size=size)
    return nontrivial, hist, fact_hist


_run_machines = run


def run(chk):
    chk_finish = chk.finish
    holder = {}

    def deferred_finish(*a, **kw):
        holder["args"] = (a, kw)
        return 0
    chk.finish = deferred_finish
    _run_machines(chk)
    chk.finish = chk_finish
    nt, hist = reentrant_scenarios(chk)
    chk.cov["distinct_nontrivial"] += len(nt)
    chk.cov["input_distribution"]["reentrant_scenarios"] = hist
    chk.cov["rule"] += ("; plus oracle-only scenarios: inner sequences that emit inside subscribe() (BehaviorSubject) "
                        "whose first element makes the outer emit the next inner re-entrantly (switch_map_indexed: the "
                        "index arguments are compared with 0, 1, 2, ...)")
    nt, hist, fact_hist = pooled_inner_scenarios(chk)
    chk.cov["distinct_nontrivial"] += len(nt)
    chk.cov["input_distribution"]["pooled_inner_scenarios"] = hist
    chk.cov["pooled_inner_scenarios"] = {"cases": sum(hist.values()), "distinct_nontrivial": len(nt),
                                         "cases_with": dict(sorted(fact_hist.items()))}
    chk.cov["rule"] += ("; plus oracle-only scenarios (pooled_inner_scenarios): the projection returns members of a "
                        "reused pool of 2-3 inner observables (logged cold sources replaying a prefix incl. falsy "
                        "values on every subscription and then completing / erroring / staying open, and hot Subjects), "
                        "so the same inner object arrives repeatedly, consecutively or not; seeded scripts of outer "
                        "emissions, member push/complete/error, outer completion/error and dispose; notifications "
                        "(with the script step) and the subscribe/unsubscribe log are compared with the property text "
                        "executed directly; non-trivial = oracle holds, >= 2 notifications, at least one repeated inner; "
                        "the same family also builds switch_map() / switch_map_indexed() WITHOUT a projection (fed the "
                        "inner observables), lets switch_map_indexed's projection choose the member from (element, "
                        "index) and compares the indices it was handed with 0, 1, 2, ..., includes finished "
                        "concurrent.futures.Future objects as pool members, and subscribes half of the cases with a "
                        "sentinel scheduler object that every member subscription must receive")
    import c12_reent
    c12_reent.scenarios(chk)
    a, kw = holder["args"]
    return chk.finish(*a, **kw)
