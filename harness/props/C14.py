"""C14 -- early termination cancels synchronous infinite sources.

Model: Core/SyncSources.v (the trampolining of Observable.subscribe, the
producers from_iterable / range / generate / repeat, the nets of the listed
pipeline shapes, the early-terminating consumers); theorems in Props/C14.v.

Tie (K2-style, end to end): every (source kind, scheduler kind, shape,
parameter) of the catalogue below is built from the real operators over an
instrumented never-ending source that counts the elements pulled and raises a
BaseException-derived BudgetExceeded after BUDGET pulls (no `except Exception`
of the library can swallow it), run under lib.with_timeout, and compared with
the model: same outcome (returned / budget exceeded) and, when subscribe()
returned, the same number of pulls, of elements delivered to the final
observer, and the same completion flag.
Oracle (direct): subscribe() returns within the budget, and afterwards the
source does not produce any more (the trampoline is idle and a later drain
pulls nothing)."""
import json
import sys

import lib

BUDGET = 150
MODEL_FUEL = {"run_default": 1200, "run_inline": 300}
SOURCES = ("from_iterable", "range", "generate", "repeat_value", "repeat")
KIND = {"from_iterable": "KIter", "range": "KStep", "generate": "KStep",
        "repeat_value": "(KRep [7])", "repeat": "(KRep [1; 2])"}
# scheduler kinds: how the pipeline is subscribed / the source is created
MODES = ("default", "singleton", "immediate-sub", "immediate-src", "fresh-sub", "fresh-src")
MODE_CLASS = {"default": "current-thread", "singleton": "current-thread",
              "immediate-sub": "immediate", "immediate-src": "immediate",
              "fresh-sub": "fresh-current-thread", "fresh-src": "fresh-current-thread"}

KNOWN_WHAT = "structural: the consumer can only dispose after the producer's action returns"


class BudgetExceeded(BaseException):
    pass


class Counter:
    def __init__(self):
        self.n = 0

    def tick(self, *_):
        self.n += 1
        if self.n > BUDGET:
            raise BudgetExceeded()


class Inf:
    """never-ending iterator 0, 1, 2, ... counting its pulls"""

    def __init__(self, ctr):
        self.ctr, self.i = ctr, 0

    def __iter__(self):
        return self

    def __next__(self):
        self.ctr.tick()
        self.i += 1
        return self.i - 1


def make_source(kind, ctr, src_sched):
    import reactivex as rx
    from reactivex import operators as ops
    kw = {} if src_sched is None else {"scheduler": src_sched}
    if kind == "from_iterable":
        return rx.from_iterable(Inf(ctr), **kw)
    if kind == "range":
        return rx.range(0, 10 ** 12, **kw).pipe(ops.do_action(ctr.tick))
    if kind == "generate":
        return rx.generate(0, lambda s: True, lambda s: s + 1).pipe(ops.do_action(ctr.tick))
    if kind == "repeat_value":
        return rx.repeat_value(7).pipe(ops.do_action(ctr.tick))
    if kind == "repeat":
        return rx.of(1, 2).pipe(ops.repeat(), ops.do_action(ctr.tick))
    raise ValueError(kind)


def shapes():
    """name -> (builder(src, n), gallina net, gallina consumer(n), parameter values, listed operator)"""
    import reactivex as rx
    from reactivex import operators as ops
    P = (1, 2, 3, 5)
    return {
        "take": (lambda s, n: s.pipe(ops.take(n)), "n_lin", lambda n: f"(c_take {n})", P),
        "first": (lambda s, n: s.pipe(ops.first()), "n_lin", lambda n: "c_first", (1,)),
        "take_while": (lambda s, n: s.pipe(ops.take_while(lambda x: x < n)), "n_lin",
                       lambda n: f"(c_take_while (fun v => v <? {n}) false)", (1, 2)),
        "take_while_inclusive": (lambda s, n: s.pipe(ops.take_while(lambda x: x < n, inclusive=True)), "n_lin",
                                 lambda n: f"(c_take_while (fun v => v <? {n}) true)", (1, 2)),
        "element_at": (lambda s, n: s.pipe(ops.element_at(n)), "n_lin", lambda n: f"(c_element_at {n})", (0, 1, 4)),
        "map_filter_take": (lambda s, n: s.pipe(ops.map(lambda x: x + 1), ops.filter(lambda x: x % 2 == 0),
                                                 ops.take(n)), "n_lin",
                            lambda n: f"(c_map (fun v => v + 1) (c_filter (fun v => v mod 2 =? 0) (c_take {n})))", P),
        "share_take": (lambda s, n: s.pipe(ops.share(), ops.take(n)), "n_lin", lambda n: f"(c_take {n})", P),
        "merge(source,never)_take": (lambda s, n: rx.merge(s, rx.never()).pipe(ops.take(n)),
                                     "(n_merge [0; 1])", lambda n: f"(c_take {n})", P),
        "merge(never,source)_take": (lambda s, n: rx.merge(rx.never(), s).pipe(ops.take(n)),
                                     "(n_merge [1; 0])", lambda n: f"(c_take {n})", P),
        "flat_map(of)_take": (lambda s, n: s.pipe(ops.flat_map(lambda x: rx.of(x)), ops.take(n)),
                              "n_flat_map_of", lambda n: f"(c_take {n})", P),
        "switch_map(of)_take": (lambda s, n: s.pipe(ops.switch_map(lambda x: rx.of(x)), ops.take(n)),
                                "n_switch_map_of", lambda n: f"(c_take {n})", P),
        "of.flat_map(source)_take": (lambda s, n: rx.of(1).pipe(ops.flat_map(lambda _: s), ops.take(n)),
                                     "n_flat_outer", lambda n: f"(c_take {n})", P),
        "of.switch_map(source)_take": (lambda s, n: rx.of(1).pipe(ops.switch_map(lambda _: s), ops.take(n)),
                                       "n_switch_outer", lambda n: f"(c_take {n})", P),
        "concat(of,source)_take": (lambda s, n: rx.concat(rx.of(1, 2), s).pipe(ops.take(n)),
                                   "(n_concat true)", lambda n: f"(c_take {n})", (3, 4, 6)),
        "concat(source,of)_take": (lambda s, n: rx.concat(s, rx.of(1, 2)).pipe(ops.take(n)),
                                   "(n_concat false)", lambda n: f"(c_take {n})", P),
        "amb(source,never)_take": (lambda s, n: rx.amb(s, rx.never()).pipe(ops.take(n)),
                                   "(n_amb true)", lambda n: f"(c_take {n})", P),
        "amb(never,source)_take": (lambda s, n: rx.amb(rx.never(), s).pipe(ops.take(n)),
                                   "(n_amb false)", lambda n: f"(c_take {n})", P),
        "with_latest_from(of)_take": (lambda s, n: s.pipe(ops.with_latest_from(rx.of(9)), ops.take(n)),
                                      "(n_wlf true)", lambda n: f"(c_take {n})", P),
        "of.with_latest_from(source)_take": (lambda s, n: rx.of(1).pipe(ops.with_latest_from(s), ops.take(n)),
                                             "(n_wlf false)", lambda n: f"(c_take {n})", (1, 2)),
        "combine_latest(source,of)_take": (lambda s, n: rx.combine_latest(s, rx.of(9)).pipe(ops.take(n)),
                                           "(n_combine true)", lambda n: f"(c_take {n})", P),
        "combine_latest(of,source)_take": (lambda s, n: rx.combine_latest(rx.of(9), s).pipe(ops.take(n)),
                                           "(n_combine false)", lambda n: f"(c_take {n})", P),
        "take_until(of)": (lambda s, n: s.pipe(ops.take_until(rx.of(1))), "n_take_until", lambda n: "c_all", (1,)),
    }


def scheds(mode):
    """-> (scheduler given to the source factory, scheduler given to subscribe)"""
    from reactivex.scheduler import CurrentThreadScheduler, ImmediateScheduler
    return {"default": (None, None),
            "singleton": (None, CurrentThreadScheduler.singleton()),
            "immediate-sub": (None, ImmediateScheduler()),
            "immediate-src": (ImmediateScheduler(), None),
            "fresh-sub": (None, CurrentThreadScheduler()),
            "fresh-src": (CurrentThreadScheduler(), None)}[mode]


def run_impl(kind, mode, shape, n, timeout=2.0):
    """-> dict(outcome 'returned'|'exceeded'|'timeout', pulls, out, done, later_pulls, idle, error)"""
    import reactivex as rx
    from reactivex.scheduler import CurrentThreadScheduler
    build = shapes()[shape][0]
    ctr = Counter()
    got = {"out": 0, "done": False, "err": None}

    def on_next(_):
        got["out"] += 1

    def on_error(e):
        got["err"] = repr(e)

    def on_completed():
        got["done"] = True

    def go():
        src_sched, sub_sched = scheds(mode)
        src = make_source(kind, ctr, src_sched)
        kw = {} if sub_sched is None else {"scheduler": sub_sched}
        return build(src, n).subscribe(on_next, on_error, on_completed, **kw)

    res = {"outcome": None, "error": None}
    try:
        status, _ = lib.with_timeout(timeout, go)
        res["outcome"] = "returned" if status == "ok" else "timeout"
    except BudgetExceeded:
        res["outcome"] = "exceeded"
    except RecursionError as e:        # would hide a budget overrun: reported as such
        res["outcome"] = "exceeded"
        res["error"] = "RecursionError"
    except Exception as e:             # noqa: an exception escaping subscribe()
        res["outcome"] = "returned"
        res["error"] = repr(e)
    pulls = min(ctr.n, BUDGET + 1)
    res.update(pulls=pulls, out=got["out"], done=got["done"], observer_error=got["err"])
    # later check: the source must have stopped producing
    later = None
    if res["outcome"] == "returned":
        before = ctr.n
        try:
            status, _ = lib.with_timeout(timeout, lambda: rx.of(0).subscribe())   # drains whatever was left queued
            idle = CurrentThreadScheduler.singleton().schedule_required()
            later = ctr.n - before if status == "ok" else -1
        except BudgetExceeded:
            later, idle = ctr.n - before, False
        res["later_pulls"], res["idle"] = later, bool(idle)
    return res


def run_resub(kind, shape, n, timeout=2.0):
    """oracle only: the SAME pipeline object subscribed twice (default scheduler); the second subscription must
    terminate the never-ending source as well -> (first outcome, second outcome, pulls of the second)"""
    build = shapes()[shape][0]
    ctr = Counter()
    src = make_source(kind, ctr, None)
    p = build(src, n)
    outs = []
    for _ in range(2):
        ctr.n = 0
        try:
            status, _ = lib.with_timeout(timeout, lambda: p.subscribe(lambda _: None, lambda e: None, lambda: None))
            outs.append("returned" if status == "ok" else "timeout")
        except BudgetExceeded:
            outs.append("exceeded")
        except RecursionError:
            outs.append("exceeded")
        except Exception as e:          # noqa
            outs.append("returned")
        if outs[-1] != "returned":
            break
    return outs, min(ctr.n, BUDGET + 1)


def gallina_case(kind, mode, shape, n):
    sh = shapes()[shape]
    run = "run_default" if MODE_CLASS[mode] == "current-thread" else "run_inline"
    return f"({run} (fun i => Z.of_nat i) {KIND[kind]} {sh[1]} {sh[2](n)} {MODEL_FUEL[run]}%nat)"


def gallina_outcome(r):
    if r["outcome"] == "returned":
        return f"(Returned {r['pulls']}%nat {r['out']}%nat {lib.gbool(r['done'])})"
    return "OutOfFuel"


IMPORTS = "Base.Prelude Core.SyncSources"
PRELUDE = """
Definition out_eqb (a b : outcome) : bool :=
  match a, b with
  | Returned p e d, Returned p' e' d' => Nat.eqb p p' && Nat.eqb e e' && Bool.eqb d d'
  | OutOfFuel, OutOfFuel => true
  | _, _ => false
  end.
Definition model (o : outcome) : outcome := o.
"""


def catalogue(tier):
    out = []
    for kind in SOURCES:
        for mode in MODES:
            if mode.endswith("-src") and kind not in ("from_iterable", "range"):
                continue          # only these factories take a scheduler
            for shape, sh in shapes().items():
                params = sh[3]
                if kind in ("repeat_value", "repeat") and shape.startswith("take_while"):
                    params = (1, 2)
                if MODE_CLASS[mode] != "current-thread" and tier == "quick":
                    params = params[-1:]
                for n in params:
                    out.append((kind, mode, shape, n))
    return out


def signature(kind, mode, shape):
    cls = MODE_CLASS[mode]
    return f"C14|{kind}|{cls}|{shape if cls == 'current-thread' else '*'}"


def run(chk):
    proved = chk.build_and_prove()
    sys.setrecursionlimit(100000)
    tier = chk.tier if proved and not chk.broken else "thorough"
    cases = catalogue(tier)
    gal, hist = [], {"source": {}, "mode": {}, "shape": {}, "outcome": {}}
    nontrivial = set()
    fails = []
    for (kind, mode, shape, n) in cases:
        r = run_impl(kind, mode, shape, n)
        chk.cov["evaluations"] += 1
        for k, v in (("source", kind), ("mode", mode), ("shape", shape), ("outcome", r["outcome"])):
            hist[k][v] = hist[k].get(v, 0) + 1
        if r["outcome"] == "returned" and r["pulls"] >= 1:
            nontrivial.add((kind, mode, shape, n))
        bad = None
        if r["outcome"] != "returned":
            bad = f"subscribe() did not return within {BUDGET} pulls ({r['outcome']})"
        elif r.get("later_pulls"):
            bad = f"the source produced {r['later_pulls']} more element(s) after subscribe() returned"
        elif r.get("idle") is False:
            bad = "the trampoline was still busy after subscribe() returned"
        if bad:
            fails.append((n, signature(kind, mode, shape),
                          {"source": kind, "mode": mode, "shape": shape, "n": n, "observed": r, "what_failed": bad,
                           "expected": "C14: subscribe() returns after a bounded amount of work and the source "
                                       "stops producing"}))
        gal.append((gallina_case(kind, mode, shape, n), gallina_outcome(r)))
    fails.sort(key=lambda f: f[0])
    seen = set()
    for size, sig, rep in fails:
        if sig in seen:
            continue
        seen.add(sig)
        chk.violation(sig, rep, size=size)
    # oracle only: the SAME pipeline object subscribed a second time must cancel the source as well
    resub = 0
    for (kind, mode, shape, n) in cases:
        if mode != "default":
            continue
        outs, pulls = run_resub(kind, shape, n)
        chk.cov["evaluations"] += 1
        resub += 1
        if len(outs) == 2 and outs[0] == "returned" and outs[1] != "returned":
            chk.violation(f"C14|resubscription|{kind}|{shape}",
                          {"resubscription": True, "source": kind, "shape": shape, "n": n, "outcomes": outs,
                           "pulls_of_second_subscription": pulls,
                           "what": "the first subscription of the pipeline returned, a second subscription of the "
                                   f"same pipeline object did not return within {BUDGET} pulls"}, size=n + 1)
    hist["resubscription_cases"] = resub
    bad, logs = lib.correspondence("C14", "corr", IMPORTS, "outcome * outcome", "model", "out_eqb", gal,
                                   shard=60, prelude=PRELUDE)
    chk.cov["traces_validated_against_impl"] = len(gal)
    chk.cov["disagreements_checked"] = len(gal)
    if bad:
        firsts = [i for i in bad if i >= 0][:4]
        detail = {"n_disagreements": len(bad), "logs": logs[:1],
                  "first_cases": [{"case": cases[i], "implementation": gal[i][1]} for i in firsts]}
        if firsts:
            detail["model_says"] = [lib.coq_show("C14", IMPORTS, gal[i][0], PRELUDE) for i in firsts[:2]]
        chk.tie_broken("correspondence: Core/SyncSources.v vs the real pipelines (pulls, elements delivered, "
                       "completion, budget)", detail)
    chk.cov["distinct_nontrivial"] = len(nontrivial)
    chk.cov["rule"] = ("the whole catalogue: 5 source kinds x 6 scheduler kinds (default, explicit current-thread "
                       "singleton, ImmediateScheduler / fresh CurrentThreadScheduler() given to subscribe or to the "
                       "source factory) x 22 shapes x parameter values (quick: one parameter value for the "
                       f"non-trampolined scheduler kinds); budget {BUDGET} pulls.  non-trivial = subscribe() returned "
                       "after pulling at least one element; oracle-only: every default-scheduler catalogue entry is also "
                       "subscribed a second time through the same pipeline object")
    chk.cov["input_distribution"] = hist
    chk.add_samples([{"source": c[0], "mode": c[1], "shape": c[2], "n": c[3]} for c in cases[::max(1, len(cases) // 6)]])
    return chk.finish(
        trusted_extra=["Core/SyncSources.v is a hand-written model (the trampoline as a FIFO queue -- justified by "
                       "C30 --, producers, nets of the listed shapes, consumers), validated by this run's "
                       "correspondence on every catalogue entry, not extracted",
                       "instrumentation: a counting never-ending iterator for from_iterable, do_action(counter) right "
                       "after range/generate/repeat_value/repeat"],
        assumptions=["elements of from_iterable/range/generate are 0,1,2,...; repeat_value(7); repeat of of(1,2)",
                     "the other sources of a multi-source shape are never(), of(9), of(1), of(1,2), of(x)",
                     "for ImmediateScheduler / fresh CurrentThreadScheduler() only the outcome (budget exceeded) is "
                     "compared with the model"])


def replay(chk, path):
    d = json.load(open(path))
    if "shape" not in d:
        print(json.dumps(d, indent=1))
        return 1
    sys.setrecursionlimit(100000)
    if d.get("resubscription"):
        outs, pulls = run_resub(d["source"], d["shape"], d["n"])
        print("resubscription case", d["source"], d["shape"], d["n"], "->", outs, pulls)
        if len(outs) == 2 and outs[0] == "returned" and outs[1] != "returned":
            print(f"VIOLATION property=C14 replay={path}")
            return 1
        return 0
    r = run_impl(d["source"], d["mode"], d["shape"], d["n"])
    print("case", d["source"], d["mode"], d["shape"], d["n"])
    print("observed", r)
    bad = r["outcome"] != "returned" or r.get("later_pulls") or r.get("idle") is False
    if bad:
        print("FAILS", d.get("what_failed"))
    return 1 if bad else 0
