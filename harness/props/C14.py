"""C14 -- early termination cancels synchronous infinite sources.

Model: Core/SyncSources.v (the trampolining of Observable.subscribe, the
producers from_iterable / range / generate / repeat, the nets of the listed
pipeline shapes, the early-terminating consumers); theorems in Props/C14.v.

Tie (K2-style, end to end): every (source kind, scheduler kind, shape,
parameter) of the catalogue below is built from the real operators over an
instrumented never-ending source that counts the elements pulled and raises a
BaseException-derived BudgetExceeded after BUDGET pulls (no `except Exception`
of the library can swallow it), run under lib.with_timeout, and compared with
the model: same outcome (returned / budget exceeded) and, when subscribe()
returned, the same number of pulls, of elements delivered to the final
observer, and the same completion flag.
Oracle (direct): subscribe() returns within the budget, and afterwards the
source does not produce any more (the trampoline is idle and a later drain
pulls nothing)."""
import json
import sys

import lib

BUDGET = 150
MODEL_FUEL = {"run_default": 1200, "run_inline": 300}
# range_step = rx.range(0, huge, 3): the three-argument branch of observable/range.py (elements 0, 3, 6, ...)
SOURCES = ("from_iterable", "range", "generate", "repeat_value", "repeat", "range_step")
KIND = {"from_iterable": "KIter", "range": "KStep", "generate": "KStep",
        "repeat_value": "(KRep [7])", "repeat": "(KRep [1; 2])", "range_step": "KStep"}
ELEMS = {"range_step": "(fun i => Z.of_nat (3 * i))"}          # default: (fun i => Z.of_nat i)
SIG_KIND = {"range_step": "range"}                              # same producer: one finding signature
TAKES_SCHEDULER = ("from_iterable", "range", "range_step")       # factories with a scheduler parameter
# scheduler kinds: how the pipeline is subscribed / the source is created
MODES = ("default", "singleton", "singleton-src", "immediate-sub", "immediate-src", "fresh-sub", "fresh-src")
MODE_CLASS = {"default": "current-thread", "singleton": "current-thread", "singleton-src": "current-thread",
              "immediate-sub": "immediate", "immediate-src": "immediate",
              "fresh-sub": "fresh-current-thread", "fresh-src": "fresh-current-thread"}

KNOWN_WHAT = "structural: the consumer can only dispose after the producer's action returns"


class BudgetExceeded(BaseException):
    pass


class Counter:
    def __init__(self):
        self.n = 0

    def tick(self, *_):
        self.n += 1
        if self.n > BUDGET:
            raise BudgetExceeded()


class Inf:
    """never-ending iterator 0, 1, 2, ... counting its pulls"""

    def __init__(self, ctr):
        self.ctr, self.i = ctr, 0

    def __iter__(self):
        return self

    def __next__(self):
        self.ctr.tick()
        self.i += 1
        return self.i - 1


def make_source(kind, ctr, src_sched):
    import reactivex as rx
    from reactivex import operators as ops
    kw = {} if src_sched is None else {"scheduler": src_sched}
    if kind == "from_iterable":
        return rx.from_iterable(Inf(ctr), **kw)
    if kind == "range":
        return rx.range(0, 10 ** 12, **kw).pipe(ops.do_action(ctr.tick))
    if kind == "range_step":
        return rx.range(0, 10 ** 12, 3, **kw).pipe(ops.do_action(ctr.tick))
    if kind == "generate":
        return rx.generate(0, lambda s: True, lambda s: s + 1).pipe(ops.do_action(ctr.tick))
    if kind == "repeat_value":
        return rx.repeat_value(7).pipe(ops.do_action(ctr.tick))
    if kind == "repeat":
        return rx.of(1, 2).pipe(ops.repeat(), ops.do_action(ctr.tick))
    raise ValueError(kind)


def shapes():
    """name -> (builder(src, n), gallina net, gallina consumer(n), parameter values, listed operator)"""
    import reactivex as rx
    from reactivex import operators as ops
    P = (1, 2, 3, 5)
    return {
        "take": (lambda s, n: s.pipe(ops.take(n)), "n_lin", lambda n: f"(c_take {n})", P),
        "first": (lambda s, n: s.pipe(ops.first()), "n_lin", lambda n: "c_first", (1,)),
        "take_while": (lambda s, n: s.pipe(ops.take_while(lambda x: x < n)), "n_lin",
                       lambda n: f"(c_take_while (fun v => v <? {n}) false)", (1, 2)),
        "take_while_inclusive": (lambda s, n: s.pipe(ops.take_while(lambda x: x < n, inclusive=True)), "n_lin",
                                 lambda n: f"(c_take_while (fun v => v <? {n}) true)", (1, 2)),
        "element_at": (lambda s, n: s.pipe(ops.element_at(n)), "n_lin", lambda n: f"(c_element_at {n})", (0, 1, 4)),
        "map_filter_take": (lambda s, n: s.pipe(ops.map(lambda x: x + 1), ops.filter(lambda x: x % 2 == 0),
                                                 ops.take(n)), "n_lin",
                            lambda n: f"(c_map (fun v => v + 1) (c_filter (fun v => v mod 2 =? 0) (c_take {n})))", P),
        "share_take": (lambda s, n: s.pipe(ops.share(), ops.take(n)), "n_lin", lambda n: f"(c_take {n})", P),
        "merge(source,never)_take": (lambda s, n: rx.merge(s, rx.never()).pipe(ops.take(n)),
                                     "(n_merge [0; 1])", lambda n: f"(c_take {n})", P),
        "merge(never,source)_take": (lambda s, n: rx.merge(rx.never(), s).pipe(ops.take(n)),
                                     "(n_merge [1; 0])", lambda n: f"(c_take {n})", P),
        "flat_map(of)_take": (lambda s, n: s.pipe(ops.flat_map(lambda x: rx.of(x)), ops.take(n)),
                              "n_flat_map_of", lambda n: f"(c_take {n})", P),
        "switch_map(of)_take": (lambda s, n: s.pipe(ops.switch_map(lambda x: rx.of(x)), ops.take(n)),
                                "n_switch_map_of", lambda n: f"(c_take {n})", P),
        "of.flat_map(source)_take": (lambda s, n: rx.of(1).pipe(ops.flat_map(lambda _: s), ops.take(n)),
                                     "n_flat_outer", lambda n: f"(c_take {n})", P),
        "of.switch_map(source)_take": (lambda s, n: rx.of(1).pipe(ops.switch_map(lambda _: s), ops.take(n)),
                                       "n_switch_outer", lambda n: f"(c_take {n})", P),
        "concat(of,source)_take": (lambda s, n: rx.concat(rx.of(1, 2), s).pipe(ops.take(n)),
                                   "(n_concat true)", lambda n: f"(c_take {n})", (3, 4, 6)),
        "concat(source,of)_take": (lambda s, n: rx.concat(s, rx.of(1, 2)).pipe(ops.take(n)),
                                   "(n_concat false)", lambda n: f"(c_take {n})", P),
        "amb(source,never)_take": (lambda s, n: rx.amb(s, rx.never()).pipe(ops.take(n)),
                                   "(n_amb true)", lambda n: f"(c_take {n})", P),
        "amb(never,source)_take": (lambda s, n: rx.amb(rx.never(), s).pipe(ops.take(n)),
                                   "(n_amb false)", lambda n: f"(c_take {n})", P),
        "with_latest_from(of)_take": (lambda s, n: s.pipe(ops.with_latest_from(rx.of(9)), ops.take(n)),
                                      "(n_wlf true)", lambda n: f"(c_take {n})", P),
        "of.with_latest_from(source)_take": (lambda s, n: rx.of(1).pipe(ops.with_latest_from(s), ops.take(n)),
                                             "(n_wlf false)", lambda n: f"(c_take {n})", (1, 2)),
        "combine_latest(source,of)_take": (lambda s, n: rx.combine_latest(s, rx.of(9)).pipe(ops.take(n)),
                                           "(n_combine true)", lambda n: f"(c_take {n})", P),
        "combine_latest(of,source)_take": (lambda s, n: rx.combine_latest(rx.of(9), s).pipe(ops.take(n)),
                                           "(n_combine false)", lambda n: f"(c_take {n})", P),
        "take_until(of)": (lambda s, n: s.pipe(ops.take_until(rx.of(1))), "n_take_until", lambda n: "c_all", (1,)),
    }


def scheds(mode):
    """-> (scheduler given to the source factory, scheduler given to subscribe)"""
    from reactivex.scheduler import CurrentThreadScheduler, ImmediateScheduler
    return {"default": (None, None),
            "singleton": (None, CurrentThreadScheduler.singleton()),
            "singleton-src": (CurrentThreadScheduler.singleton(), None),
            "immediate-sub": (None, ImmediateScheduler()),
            "immediate-src": (ImmediateScheduler(), None),
            "fresh-sub": (None, CurrentThreadScheduler()),
            "fresh-src": (CurrentThreadScheduler(), None)}[mode]


def run_impl(kind, mode, shape, n, timeout=2.0):
    """-> dict(outcome 'returned'|'exceeded'|'timeout', pulls, out, done, later_pulls, idle, error)"""
    return run_built(kind, mode, shapes()[shape][0], n, timeout)


def run_built(kind, mode, build, n, timeout=2.0):
    """build(source, n) -> the pipeline; same result as run_impl"""
    import reactivex as rx
    from reactivex.scheduler import CurrentThreadScheduler
    ctr = Counter()
    got = {"out": 0, "done": False, "err": None}

    def on_next(_):
        got["out"] += 1

    def on_error(e):
        got["err"] = repr(e)

    def on_completed():
        got["done"] = True

    def go():
        src_sched, sub_sched = scheds(mode)
        src = make_source(kind, ctr, src_sched)
        kw = {} if sub_sched is None else {"scheduler": sub_sched}
        return build(src, n).subscribe(on_next, on_error, on_completed, **kw)

    res = {"outcome": None, "error": None}
    try:
        status, _ = lib.with_timeout(timeout, go)
        res["outcome"] = "returned" if status == "ok" else "timeout"
    except BudgetExceeded:
        res["outcome"] = "exceeded"
    except RecursionError as e:        # would hide a budget overrun: reported as such
        res["outcome"] = "exceeded"
        res["error"] = "RecursionError"
    except Exception as e:             # noqa: an exception escaping subscribe()
        res["outcome"] = "returned"
        res["error"] = repr(e)
    pulls = min(ctr.n, BUDGET + 1)
    res.update(pulls=pulls, out=got["out"], done=got["done"], observer_error=got["err"])
    # later check: the source must have stopped producing
    later = None
    if res["outcome"] == "returned":
        before = ctr.n
        try:
            status, _ = lib.with_timeout(timeout, lambda: rx.of(0).subscribe())   # drains whatever was left queued
            idle = CurrentThreadScheduler.singleton().schedule_required()
            later = ctr.n - before if status == "ok" else -1
        except BudgetExceeded:
            later, idle = ctr.n - before, False
        res["later_pulls"], res["idle"] = later, bool(idle)
    return res


def run_resub(kind, shape, n, timeout=2.0):
    """oracle only: the SAME pipeline object subscribed twice (default scheduler); the second subscription must
    terminate the never-ending source as well -> (first outcome, second outcome, pulls of the second)"""
    build = shapes()[shape][0]
    ctr = Counter()
    src = make_source(kind, ctr, None)
    p = build(src, n)
    outs = []
    for _ in range(2):
        ctr.n = 0
        try:
            status, _ = lib.with_timeout(timeout, lambda: p.subscribe(lambda _: None, lambda e: None, lambda: None))
            outs.append("returned" if status == "ok" else "timeout")
        except BudgetExceeded:
            outs.append("exceeded")
        except RecursionError:
            outs.append("exceeded")
        except Exception as e:          # noqa
            outs.append("returned")
        if outs[-1] != "returned":
            break
    return outs, min(ctr.n, BUDGET + 1)


# ---- oracle-only family: every early-terminating consumer behind every pipeline shape -------------------------
# No model: the judgement is the property text itself -- subscribe() returns within the budget, the trampoline is
# idle afterwards and a later drain pulls nothing.  Predicates count their calls (value independent: behind
# with_latest_from / combine_latest the elements are tuples).
def value_at(kind, i):
    """the i-th element of the never-ending source"""
    return {"repeat_value": 7, "repeat": (1, 2)[i % 2], "range_step": 3 * i}.get(kind, i)


def nets():
    """shape without its final consumer: name -> builder(source)"""
    import reactivex as rx
    from reactivex import operators as ops
    return {
        "linear": lambda s: s,
        "map_filter": lambda s: s.pipe(ops.map(lambda x: x + 1), ops.filter(lambda x: x != 3)),
        "share": lambda s: s.pipe(ops.share()),
        "merge(source,never)": lambda s: rx.merge(s, rx.never()),
        "merge(never,source)": lambda s: rx.merge(rx.never(), s),
        "ops.merge(never)": lambda s: s.pipe(ops.merge(rx.never())),
        "flat_map(of)": lambda s: s.pipe(ops.flat_map(lambda x: rx.of(x))),
        "switch_map(of)": lambda s: s.pipe(ops.switch_map(lambda x: rx.of(x))),
        "of.flat_map(source)": lambda s: rx.of(1).pipe(ops.flat_map(lambda _: s)),
        "of.switch_map(source)": lambda s: rx.of(1).pipe(ops.switch_map(lambda _: s)),
        "of.map(source).merge(max_concurrent=1)": lambda s: rx.of(1).pipe(ops.map(lambda _: s),
                                                                          ops.merge(max_concurrent=1)),
        "concat(of,source)": lambda s: rx.concat(rx.of(1, 2), s),
        "concat(source,of)": lambda s: rx.concat(s, rx.of(1, 2)),
        "ops.concat(of)": lambda s: s.pipe(ops.concat(rx.of(1, 2))),
        "amb(source,never)": lambda s: rx.amb(s, rx.never()),
        "amb(never,source)": lambda s: rx.amb(rx.never(), s),
        "with_latest_from(of)": lambda s: s.pipe(ops.with_latest_from(rx.of(9))),
        # the other source's latest value is None / falsy: still a value (no "nothing yet" sentinel may collide)
        "with_latest_from(of None)": lambda s: s.pipe(ops.with_latest_from(rx.of(None))),
        "with_latest_from(of 0, of '')": lambda s: s.pipe(ops.with_latest_from(rx.of(0), rx.of(""))),
        "of.with_latest_from(source)": lambda s: rx.of(1).pipe(ops.with_latest_from(s)),
        "combine_latest(source,of)": lambda s: rx.combine_latest(s, rx.of(9)),
        "combine_latest(of,source)": lambda s: rx.combine_latest(rx.of(9), s),
    }


# the five structural from_iterable starvations of the catalogue, keyed by the part of the pipeline that causes them
STRUCTURAL_NETS = {"flat_map(of)": "flat_map(of)_take", "switch_map(of)": "switch_map(of)_take",
                   "of.with_latest_from(source)": "of.with_latest_from(source)_take",
                   "combine_latest(source,of)": "combine_latest(source,of)_take"}
STRUCTURAL_CONSUMER = "take_until(of)"
# ... behind these shapes the source is subscribed from a trampolined action of its own (merge / concat iterate
# their sources on the scheduler, of(1).flat_map runs its mapper from of's action), i.e. AFTER take_until's of(1)
# has been queued: take_until(of(1)) does stop a never-ending from_iterable there and must keep doing so
TAKE_UNTIL_NOT_STRUCTURAL = ("concat(of,source)", "concat(source,of)", "ops.concat(of)", "merge(source,never)",
                             "merge(never,source)", "ops.merge(never)", "of.flat_map(source)",
                             "of.switch_map(source)", "of.map(source).merge(max_concurrent=1)")
LISTED_CONSUMERS = ("take", "first", "take_while", "element_at", "take_until(of)")


def consumers():
    """name -> (builder(k, kind) -> operator, values of k).  k-th call / k-th element counted from 0."""
    import reactivex as rx
    from reactivex import operators as ops

    def true_from(k):            # predicate: False for the first k calls, then True
        c = [0]

        def pred(*_):
            c[0] += 1
            return c[0] > k
        return pred

    def true_until(k):           # predicate: True for the first k calls, then False
        c = [0]

        def pred(*_):
            c[0] += 1
            return c[0] <= k
        return pred

    return {
        "take": (lambda k, kind: ops.take(k), (1, 2, 5)),
        "first": (lambda k, kind: ops.first(), (0,)),
        "take_while": (lambda k, kind: ops.take_while(true_until(k)), (0, 1, 3)),
        "element_at": (lambda k, kind: ops.element_at(k), (0, 1, 4)),
        "take_until(of)": (lambda k, kind: ops.take_until(rx.of(1)), (0,)),
        # "... and similar"
        "take(0)": (lambda k, kind: ops.take(0), (0,)),
        "first(predicate)": (lambda k, kind: ops.first(true_from(k)), (0, 2)),
        "first_or_default(predicate)": (lambda k, kind: ops.first_or_default(true_from(k), "dflt"), (0, 2)),
        "first_or_default()": (lambda k, kind: ops.first_or_default(), (0,)),
        "take_while(inclusive)": (lambda k, kind: ops.take_while(true_until(k), inclusive=True), (0, 2)),
        "take_while_indexed": (lambda k, kind: ops.take_while_indexed(lambda x, i: i < k), (0, 1, 3)),
        "find": (lambda k, kind: ops.find(lambda x, i, src: i >= k), (0, 2)),
        "find_index": (lambda k, kind: ops.find_index(lambda x, i, src: i >= k), (0, 2)),
        "some(predicate)": (lambda k, kind: ops.some(true_from(k)), (0, 2)),
        "some()": (lambda k, kind: ops.some(), (0,)),
        "contains": (lambda k, kind: ops.contains("sought", comparer=true_from(k)), (0, 2)),
        "contains(value)": (lambda k, kind: ops.contains(value_at(kind, k)), (0, 2)),     # linear shapes only
        "is_empty": (lambda k, kind: ops.is_empty(), (0,)),
        "all": (lambda k, kind: ops.all(true_until(k)), (0, 2)),
    }


VALUE_NETS = ("linear", "share", "merge(source,never)", "merge(never,source)", "ops.merge(never)",
              "amb(source,never)", "amb(never,source)", "of.flat_map(source)", "of.switch_map(source)",
              "of.map(source).merge(max_concurrent=1)", "concat(source,of)", "ops.concat(of)")     # shapes whose elements are the source's own, from the start
CROSS_MODES = ("default", "singleton", "singleton-src", "immediate-sub", "fresh-src")


def cross_signature(kind, mode, net, consumer):
    cls = MODE_CLASS[mode]
    k = SIG_KIND.get(kind, kind)
    if cls != "current-thread":
        return f"C14|{k}|{cls}|*"
    if kind == "from_iterable" and consumer != "take(0)":
        if net in STRUCTURAL_NETS:
            return f"C14|from_iterable|current-thread|{STRUCTURAL_NETS[net]}"
        if consumer == STRUCTURAL_CONSUMER and net not in TAKE_UNTIL_NOT_STRUCTURAL:
            return f"C14|from_iterable|current-thread|{STRUCTURAL_CONSUMER}"
    return f"C14|cross|{k}|{net}|{consumer}"


def run_cross(kind, mode, net, consumer, k):
    build_net = nets()[net]
    make = consumers()[consumer][0]
    return run_built(kind, mode, lambda s, n: build_net(s).pipe(make(n, kind)), k)


def judge(r):
    if r["outcome"] != "returned":
        return f"subscribe() did not return within {BUDGET} pulls ({r['outcome']})"
    if r.get("later_pulls"):
        return f"the source produced {r['later_pulls']} more element(s) after subscribe() returned"
    if r.get("idle") is False:
        return "the trampoline was still busy after subscribe() returned"
    if r.get("error"):
        return f"an exception escaped subscribe(): {r['error']}"
    return None


def cross_catalogue(rng, tier):
    """(kind, mode, net, consumer, k): default scheduler -- every (kind, net, consumer), quick: one seeded parameter
    value each, thorough: all of them; the other scheduler kinds: a seeded sample (quick) / everything (thorough)"""
    out = []
    cons = consumers()
    for kind in SOURCES:
        for net in nets():
            for c, (_, ks) in cons.items():
                if c == "contains(value)" and net not in VALUE_NETS:
                    continue
                for mode in CROSS_MODES:
                    if mode.endswith("-src") and kind not in TAKES_SCHEDULER:
                        continue
                    if tier == "quick":
                        if MODE_CLASS[mode] != "current-thread" and rng.random() >= 0.02:
                            continue
                        out.append((kind, mode, net, c, rng.choice(ks)))
                    else:
                        out.extend((kind, mode, net, c, k) for k in ks)
    return out


def cross_scenarios(chk, tier):
    cases = cross_catalogue(chk.rng, tier)
    hist = {"consumer": {}, "net": {}, "mode": {}, "outcome": {}}
    nontrivial = set()
    fails = []
    for (kind, mode, net, c, k) in cases:
        r = run_cross(kind, mode, net, c, k)
        chk.cov["evaluations"] += 1
        for a, b in (("consumer", c), ("net", net), ("mode", mode), ("outcome", r["outcome"])):
            hist[a][b] = hist[a].get(b, 0) + 1
        bad = judge(r)
        if bad:
            fails.append((k, cross_signature(kind, mode, net, c),
                          {"family": "cross", "source": kind, "mode": mode, "net": net, "consumer": c, "k": k,
                           "observed": r, "what_failed": bad,
                           "pipeline": f"{net}[source = {kind}] . {c}  (k = {k}: the consumer's count parameter)",
                           "expected": "C14: subscribe() returns after a bounded amount of work and the source "
                                       "stops producing"}))
        elif r["pulls"] >= 1:
            nontrivial.add((kind, mode, net, c, k))
    fails.sort(key=lambda f: f[0])
    seen = set()
    for size, sig, rep in fails:
        if sig not in seen:
            seen.add(sig)
            chk.violation(sig, rep, size=size)
    hist["cases"] = len(cases)
    hist["listed_consumer_x_multi_source_shape"] = sum(
        1 for (_, _, net, c, _) in cases if c in LISTED_CONSUMERS and c != "take" and net not in ("linear", "map_filter", "share"))
    hist["similar_consumers"] = sum(1 for (_, _, _, c, _) in cases if c not in LISTED_CONSUMERS)
    return nontrivial, hist, cases


def gallina_case(kind, mode, shape, n):
    sh = shapes()[shape]
    run = "run_default" if MODE_CLASS[mode] == "current-thread" else "run_inline"
    return (f"({run} {ELEMS.get(kind, '(fun i => Z.of_nat i)')} {KIND[kind]} {sh[1]} {sh[2](n)} "
            f"{MODEL_FUEL[run]}%nat)")


def gallina_outcome(r):
    if r["outcome"] == "returned":
        return f"(Returned {r['pulls']}%nat {r['out']}%nat {lib.gbool(r['done'])})"
    return "OutOfFuel"


IMPORTS = "Base.Prelude Core.SyncSources"
PRELUDE = """
Definition out_eqb (a b : outcome) : bool :=
  match a, b with
  | Returned p e d, Returned p' e' d' => Nat.eqb p p' && Nat.eqb e e' && Bool.eqb d d'
  | OutOfFuel, OutOfFuel => true
  | _, _ => false
  end.
Definition model (o : outcome) : outcome := o.
"""


def catalogue(tier):
    out = []
    for kind in SOURCES:
        for mode in MODES:
            if mode.endswith("-src") and kind not in TAKES_SCHEDULER:
                continue          # only these factories take a scheduler
            if kind == "range_step" and tier == "quick" and mode not in ("default", "singleton-src"):
                continue          # same producer code as range: the other scheduler kinds in the thorough tier
            for shape, sh in shapes().items():
                params = sh[3]
                if kind in ("repeat_value", "repeat") and shape.startswith("take_while"):
                    params = (1, 2)
                if tier == "quick" and (MODE_CLASS[mode] != "current-thread" or mode == "singleton-src"
                                        or kind == "range_step"):
                    params = params[-1:]
                for n in params:
                    out.append((kind, mode, shape, n))
    return out


def signature(kind, mode, shape):
    cls = MODE_CLASS[mode]
    return f"C14|{SIG_KIND.get(kind, kind)}|{cls}|{shape if cls == 'current-thread' else '*'}"


def run(chk):
    proved = chk.build_and_prove()
    sys.setrecursionlimit(100000)
    tier = chk.tier if proved and not chk.broken else "thorough"
    cases = catalogue(tier)
    gal, hist = [], {"source": {}, "mode": {}, "shape": {}, "outcome": {}}
    nontrivial = set()
    fails = []
    for (kind, mode, shape, n) in cases:
        r = run_impl(kind, mode, shape, n)
        chk.cov["evaluations"] += 1
        for k, v in (("source", kind), ("mode", mode), ("shape", shape), ("outcome", r["outcome"])):
            hist[k][v] = hist[k].get(v, 0) + 1
        if r["outcome"] == "returned" and r["pulls"] >= 1:
            nontrivial.add((kind, mode, shape, n))
        bad = None
        if r["outcome"] != "returned":
            bad = f"subscribe() did not return within {BUDGET} pulls ({r['outcome']})"
        elif r.get("later_pulls"):
            bad = f"the source produced {r['later_pulls']} more element(s) after subscribe() returned"
        elif r.get("idle") is False:
            bad = "the trampoline was still busy after subscribe() returned"
        if bad:
            fails.append((n, signature(kind, mode, shape),
                          {"source": kind, "mode": mode, "shape": shape, "n": n, "observed": r, "what_failed": bad,
                           "expected": "C14: subscribe() returns after a bounded amount of work and the source "
                                       "stops producing"}))
        gal.append((gallina_case(kind, mode, shape, n), gallina_outcome(r)))
    fails.sort(key=lambda f: f[0])
    seen = set()
    for size, sig, rep in fails:
        if sig in seen:
            continue
        seen.add(sig)
        chk.violation(sig, rep, size=size)
    # oracle only: the SAME pipeline object subscribed a second time must cancel the source as well
    resub = 0
    for (kind, mode, shape, n) in cases:
        if mode != "default":
            continue
        outs, pulls = run_resub(kind, shape, n)
        chk.cov["evaluations"] += 1
        resub += 1
        if len(outs) == 2 and outs[0] == "returned" and outs[1] != "returned":
            chk.violation(f"C14|resubscription|{kind}|{shape}",
                          {"resubscription": True, "source": kind, "shape": shape, "n": n, "outcomes": outs,
                           "pulls_of_second_subscription": pulls,
                           "what": "the first subscription of the pipeline returned, a second subscription of the "
                                   f"same pipeline object did not return within {BUDGET} pulls"}, size=n + 1)
    hist["resubscription_cases"] = resub
    # oracle only: every early-terminating consumer (the listed ones and the similar ones) behind every shape
    cross_nt, cross_hist, cross_cases = cross_scenarios(chk, tier)
    hist["cross"] = cross_hist
    chk.cov["cross_scenarios"] = {"cases": len(cross_cases), "distinct_nontrivial": len(cross_nt),
                                  "listed_consumer_x_multi_source_shape": cross_hist["listed_consumer_x_multi_source_shape"],
                                  "similar_consumers": cross_hist["similar_consumers"],
                                  "consumers": sorted(cross_hist["consumer"]), "nets": sorted(cross_hist["net"])}
    bad, logs = lib.correspondence("C14", "corr", IMPORTS, "outcome * outcome", "model", "out_eqb", gal,
                                   shard=60, prelude=PRELUDE)
    chk.cov["traces_validated_against_impl"] = len(gal)
    chk.cov["disagreements_checked"] = len(gal)
    if bad:
        firsts = [i for i in bad if i >= 0][:4]
        detail = {"n_disagreements": len(bad), "logs": logs[:1],
                  "first_cases": [{"case": cases[i], "implementation": gal[i][1]} for i in firsts]}
        if firsts:
            detail["model_says"] = [lib.coq_show("C14", IMPORTS, gal[i][0], PRELUDE) for i in firsts[:2]]
        chk.tie_broken("correspondence: Core/SyncSources.v vs the real pipelines (pulls, elements delivered, "
                       "completion, budget)", detail)
    chk.cov["distinct_nontrivial"] = len(nontrivial) + len(cross_nt)
    chk.cov["rule"] = ("the whole catalogue: 6 source kinds (range also with a step: range(0, huge, 3)) x 7 scheduler "
                       "kinds (default, explicit current-thread singleton given to subscribe or to the source factory, "
                       "ImmediateScheduler / fresh CurrentThreadScheduler() given to subscribe or to the "
                       "source factory) x 22 shapes x parameter values (quick: one parameter value for the "
                       "non-trampolined scheduler kinds, for the factory-singleton kind and for range with a step, "
                       f"which then runs under two scheduler kinds only); budget {BUDGET} pulls.  non-trivial = "
                       "subscribe() returned "
                       "after pulling at least one element; oracle-only: every default-scheduler catalogue entry is also "
                       "subscribed a second time through the same pipeline object; oracle-only family cross_scenarios: "
                       "every consumer (take, first, take_while, element_at, take_until(of) and the similar ones "
                       "take(0), first(predicate), first_or_default, take_while inclusive / indexed, find, find_index, "
                       "some, contains, is_empty, all; call-counting predicates) behind every shape without its "
                       "consumer (20 nets incl. ops.merge / ops.concat / merge(max_concurrent=1)) over every source kind "
                       "under the three current-thread scheduler kinds (quick: one seeded count parameter; plus a 2% "
                       "sample under an inline scheduler), judged by the property text only: returned within the "
                       "budget, trampoline idle, no later pulls; a failure is attributed to a recorded structural "
                       "finding only if the pipeline contains the very part that causes it (from_iterable behind "
                       "flat_map(of) / switch_map(of) / of.with_latest_from / combine_latest(source,of), or "
                       "take_until(of(1)) behind a shape that subscribes the source synchronously)")
    chk.cov["input_distribution"] = hist
    chk.add_samples([{"source": c[0], "mode": c[1], "shape": c[2], "n": c[3]} for c in cases[::max(1, len(cases) // 6)]])
    return chk.finish(
        trusted_extra=["Core/SyncSources.v is a hand-written model (the trampoline as a FIFO queue -- justified by "
                       "C30 --, producers, nets of the listed shapes, consumers), validated by this run's "
                       "correspondence on every catalogue entry, not extracted",
                       "instrumentation: a counting never-ending iterator for from_iterable, do_action(counter) right "
                       "after range/generate/repeat_value/repeat"],
        assumptions=["elements of from_iterable/range/generate are 0,1,2,... (range with a step: 0,3,6,...); "
                     "repeat_value(7); repeat of of(1,2)",
                     "the other sources of a multi-source shape are never(), of(9), of(1), of(1,2), of(x)",
                     "for ImmediateScheduler / fresh CurrentThreadScheduler() only the outcome (budget exceeded) is "
                     "compared with the model",
                     "cross_scenarios has no model: its predicates count their calls, so 'terminates at the k-th "
                     "element' does not depend on the element values"])


def replay(chk, path):
    d = json.load(open(path))
    if "shape" not in d and d.get("family") != "cross":
        print(json.dumps(d, indent=1))
        return 1
    sys.setrecursionlimit(100000)
    if d.get("family") == "cross":
        r = run_cross(d["source"], d["mode"], d["net"], d["consumer"], d["k"])
        print("cross case", d["pipeline"], "mode", d["mode"])
        print("observed", r)
        bad = judge(r)
        if bad:
            print("FAILS", bad)
            print(f"VIOLATION property=C14 replay={path}")
            return 1
        return 0
    if d.get("resubscription"):
        outs, pulls = run_resub(d["source"], d["shape"], d["n"])
        print("resubscription case", d["source"], d["shape"], d["n"], "->", outs, pulls)
        if len(outs) == 2 and outs[0] == "returned" and outs[1] != "returned":
            print(f"VIOLATION property=C14 replay={path}")
            return 1
        return 0
    r = run_impl(d["source"], d["mode"], d["shape"], d["n"])
    print("case", d["source"], d["mode"], d["shape"], d["n"])
    print("observed", r)
    bad = r["outcome"] != "returned" or r.get("later_pulls") or r.get("idle") is False
    if bad:
        print("FAILS", d.get("what_failed"))
        print(f"VIOLATION property=C14 replay={path}")
    return 1 if bad else 0
