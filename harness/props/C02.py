"""C02 -- termination releases every source subscription.

Theorems: Props/C02.v (runner, every machine, every input sequence).  Tie: the
unsubscribe INSTANTS of the implementation equal the runner's, operator by
operator: multi-source combinators (C10-C13 tables, harness/k2m.py) and every
single-source operator of the C05/C06 tables run through `lift`.  Oracle: on the
implementation's own boundary log, once the subscriber saw a terminal, every
source that was subscribed has been unsubscribed (at that instant) and nothing
is subscribed afterwards.  Oracle-only families: harness/relcases.py (sources
that emit inside subscribe(), tail stages, raising subscribers) and
harness/c02_overlap.py (ONE operator observable subscribed 2-3 times with
overlapping lifetimes: what a terminated subscriber opened is released, what a
running one opened is not) and harness/c02_derived.py (callbacks whose observable is DERIVED FROM the group /
window / element observable they were given, or from the pipeline's own source; terminal from a downstream
take/first/take_while/take_until or dispose while such derived observables are open; virtual time)."""
import random

import c02_derived
import c02_overlap
import comb_oracle
import comb_table
import k2
import k2m
import lib
import relcases
from props import C05, C06

IMPORTS = ("Base.Prelude Base.CaseLib Ops.Machine Ops.Elementwise Ops.Aggregates Ops.Multi Ops.MultiCase "
           "Ops.Combinators Ops.Lift")
MULTI = ["concat", "catch", "catch_handler", "on_error_resume_next", "repeat", "retry", "while_do", "do_while",
         "merge", "flat_map", "merge_all", "concat_map", "merge_mc", "switch_map", "switch_latest",
         "zip", "combine_latest", "with_latest_from", "fork_join", "amb", "take_until", "skip_until"]


def oracle(name, inst, res):
    return comb_oracle.common(res, comb_oracle.timeline(res))


def single_source(chk, dispose=False):
    """C05/C06 operators through lift: render run_hot results as runner traces"""
    ncase = 12 if chk.tier == "quick" else 150
    gal = {}
    nontrivial = set()
    per_op = {}
    for mod in (C05, C06):
        pool, T = mod.ops_table()
        for name in T:
            for ci in range(ncase):
                inst = T[name](chk.rng)
                if inst.get("find_enc"):
                    continue
                ipool = inst.get("pool", pool)
                ins = (C06.num_inputs(chk.rng, ipool) if inst.get("pool") is not None
                       else k2.gen_inputs(chk.rng, ipool, maxlen=5))
                dis = chk.rng.randrange(len(ins) + 1) if (dispose and ins) else None
                if dis is not None and dis >= len(ins):
                    dis = None
                res = k2.run_hot(lambda s: s.pipe(inst["py"]), ins, dispose_at=dis)
                chk.cov["evaluations"] += 1
                per_op[name] = per_op.get(name, 0) + 1
                # boundary log in runner vocabulary
                log = [(t, "emit", k, p) for (t, k, p) in res["out"]]
                for (what, idx, t) in res["sublog"]:
                    log.append((t, what, 0, None))
                em = [(t, k) for (t, k, p) in res["out"]]
                term_tag = next((t for t, k in em if k in "EC"), None)
                subs = [t for (w, i, t) in res["sublog"] if w == "sub"]
                unsubs = [t for (w, i, t) in res["sublog"] if w == "unsub"]
                sig = f"{name}|{k2.g_inputs(ins, ipool)}|{inst['coq'][:50]}"
                bad = None
                if term_tag is not None and subs and (not unsubs or unsubs[0] != term_tag):
                    bad = f"terminal at input {term_tag} but source unsubscribed at {unsubs}"
                if dis is not None:
                    dtag = dis + 1
                    if subs and term_tag is None and (not unsubs or unsubs[0] != dtag):
                        bad = f"dispose at input {dtag} but source unsubscribed at {unsubs}"
                    late = [t for (t, k, p) in res["out"] if t >= dtag and (term_tag is None or term_tag >= dtag)]
                    if late:
                        bad = f"notifications after dispose() returned: tags {late} (dispose before input {dtag})"
                    latecalls = [t for t in res["calls"] if t >= dtag]
                    if latecalls:
                        bad = f"user callback invoked after dispose() returned: {latecalls}"
                if res["escapes"]:
                    bad = f"exception escaped: {[repr(e) for _, e in res['escapes']]}"
                if bad:
                    chk.violation(f"release|{name}|{bad[:40]}", {"operator": name, "instance": inst["coq"],
                                  "inputs": k2.g_inputs(ins, ipool), "dispose_before_input": dis,
                                  "emissions": em, "sublog": res["sublog"], "what": bad}, size=len(ins))
                elif subs and unsubs:
                    nontrivial.add(sig)
                # model inputs: the hot source's events, with the dispose spliced in
                inputs = []
                for j, e in enumerate(ins):
                    if dis is not None and j == dis:
                        inputs.append((0, ("dispose",)))
                    inputs.append((0, ("src", 0, e)))
                # tags in run_hot: dispose shares the tag of the input it precedes -> retag to runner positions
                def retag(t):
                    if dis is None or t == 0:
                        return t
                    return t if t <= dis else t + 1
                log2 = []
                for (t, kind, a, b) in log:
                    if dis is not None and t == dis + 1 and kind == "unsub":
                        log2.append((dis + 1, kind, a, b))       # happened inside dispose()
                    elif dis is not None and t == dis + 1:
                        log2.append((dis + 2, kind, a, b))
                    else:
                        log2.append((retag(t), kind, a, b))
                r2 = {"log": log2, "escapes": []}
                gi = k2m.g_inputs(inputs, enc_in=lambda v: lib.gz(ipool.id(v)))
                key = (inst["ty"], inst["eqb"])
                gal.setdefault(key, []).append((f"(lift ({inst['coq']}), {gi})", k2m.g_trace(r2, inst["enc"])))
    for (ty, eqb), cases in gal.items():
        prelude = f"Definition model (c : machine Z {ty} * list (Z * inp Z)) := run_canon (fst c) (snd c).\n"
        bad, logs = lib.correspondence(chk.pid, "l_" + str(abs(hash((ty, eqb))) % 10**6), IMPORTS,
                                       f"(machine Z {ty} * list (Z * inp Z)) * list (nat * obs {ty})",
                                       "model", f"(trace_eqb {eqb})", cases, prelude=prelude)
        chk.cov["traces_validated_against_impl"] += len(cases)
        chk.cov["disagreements_checked"] += len(cases)
        if bad:
            firsts = [cases[i] for i in bad if i >= 0][:3]
            d = {"n": len(bad), "first (machine+inputs, implementation trace)": firsts, "logs": logs[:1]}
            if firsts:
                d["model_says"] = lib.coq_show(chk.pid, IMPORTS, f"model {firsts[0][0]}", prelude)
            chk.tie_broken(f"correspondence K2 (lifted single-source operators, {ty})", d)
    return nontrivial, per_op


def run(chk):
    chk.build_and_prove()
    comb_table.run_ops(chk, "C02", MULTI, oracle, ncase=(15 if chk.tier == "quick" else 200), p_sub_raises=0.3)
    nt_multi = chk.cov["distinct_nontrivial"]
    dist = chk.cov.get("input_distribution", {})
    nt, per_op = single_source(chk)
    # time-based operators (machines of C15-C17) in a release-oriented mode: half the cases end with a LATE
    # dispose, after every source event and due timer -- an operator that handed over to a fallback source which
    # never terminates (timeout(other), timeout_with_mapper(other)) must release THAT one too
    import timed_table as tt
    from props import C15, C16, C17
    timed_names = [n for n in C15.NAMES + C16.NAMES + C17.NAMES if n != "sample_time"]

    def timed_oracle(name, inst, res):
        return tt.common_timed(res, tt.view(res))
    tt.run_timed(chk, "C02", timed_names, timed_oracle, ncase=(25 if chk.tier == "quick" else 500),
                 mode={"p_dispose": 0.2, "p_late": 0.5, "p_none": 0.45})
    nt_timed = chk.cov["distinct_nontrivial"]
    timed_dist = chk.cov.get("input_distribution", {})
    # oracle-only families (harness/relcases.py; own random stream, the cases above are unchanged by them):
    # sources that emit / terminate inside their own subscribe(), early termination of a COMPOSITION
    # (operator + take(n)/first()), subscribers whose terminal callbacks raise on single-source operators
    rx = random.Random(f"C02-relcases-{chk.seed}")
    q = chk.tier == "quick"
    extra, nt_extra = {}, 0
    for fam, names, n, opts in [
            ("sync", MULTI, 40 if q else 500, dict(p_sync=1.0, dispose="event", p_dispose=0.15, p_sub_raises=0.3)),
            ("tail", MULTI, 40 if q else 500, dict(p_tail=1.0, p_sync=0.3, dispose="event", p_dispose=0.1,
                                                    p_sub_raises=0.2))]:
        extra[fam], s = relcases.multi_family(chk, "C02", fam, names, n, opts, rx)
        nt_extra += len(s)
    for fam, n, opts in [("single_sub_raises", 8 if q else 100, dict(sub_raises=True)),
                         ("single_sync", 8 if q else 100, dict(sync=True)),
                         ("single_sync_sub_raises", 4 if q else 50, dict(sync=True, sub_raises=True))]:
        extra[fam], s = relcases.single_family(chk, "C02", fam, n, opts, rx)
        nt_extra += len(s)
    # OVERLAPPING subscriptions of one operator observable (harness/c02_overlap.py; own random stream): the one
    # observable object is subscribed 2-3 times, earlier subscribers end while later ones run
    extra["overlap"], s = c02_overlap.family(chk, "C02", 20 if q else 400, random.Random(f"C02-overlap-{chk.seed}"))
    nt_extra += len(s)
    # user-made observables DERIVED FROM the operator's own inner observable (harness/c02_derived.py; own random
    # stream, virtual time): duration = grp.pipe(skip(n)) etc., terminal from downstream / dispose while they are open
    extra["derived"], s = c02_derived.family(chk, "C02", 1500 if q else 25000,
                                             random.Random(f"C02-derived-{chk.seed}"))
    nt_extra += len(s)
    chk.cov["distinct_nontrivial"] = nt_multi + len(nt) + nt_timed + nt_extra
    chk.cov["input_distribution"] = {"multi_source": dist, "single_source_per_operator": per_op,
                                     "time_based_release_mode": timed_dist, "oracle_only_families": extra}
    chk.cov["rule"] = ("multi-source: as C10-C13 (seeded interleavings of hot sources incl. non-conforming tails and "
                       "dispose instants); single-source: every operator of the C05/C06 tables on seeded hot inputs, "
                       "run through `lift`; non-trivial = distinct cases in which a source was subscribed and "
                       "released and the oracle held; time-based: every operator of the C15-C17 tables with 45% "
                       "never-terminating sources and 50% LATE dispose (after every event and due timer), 20% dispose at "
                       "an event instant.  Oracle-only families (harness/relcases.py, one seed per case): `sync` = the "
                       "same multi-source operators with 60% of their sources (static and mapper-made) delivering a "
                       "prefix of their sequence -- half of them all of it, terminal included -- INSIDE subscribe(), 30% "
                       "raising subscriber; `tail` = operator followed by take(0..3)/first() (early termination of a "
                       "composition), 30% with such sources; `single_*` = every C05/C06 operator with a subscriber whose "
                       "terminal callbacks raise, and/or with a source that delivers a prefix (possibly its terminal) "
                       "inside subscribe(); judged by: grammar, every source released by the end of the step of the "
                       "terminal, nothing emitted or subscribed afterwards; non-trivial = a source was subscribed, "
                       "released, and the oracle held.  `overlap` (harness/c02_overlap.py, one seed per case, the "
                       "failing script is shrunk and stored verbatim): ONE observable object built from 1-3 probe "
                       "sources by each of 46 constructions (the n-ary and binary combinators in both API forms, "
                       "compositions of two of them, outer-of-inners operators with a mapper, mapper-made trigger/"
                       "duration sources, repeat/retry, 1-2 single-source stages) subscribed by 2-3 subscribers (half "
                       "of them behind their own take(1)/take(2)/first()) with overlapping lifetimes -- 70% of the cases "
                       "subscribe everybody before the first event --, 4-12 steps (25% of the events go to every "
                       "open subscription of the source, the others to one subscriber's; N:E:C = 6:1:2; 8% "
                       "dispose), then every subscriber disposes in a random order; each probe subscription is "
                       "attributed to the subscriber the running step is directed at; judged: at the end of the "
                       "step of a subscriber's terminal / dispose and ever after everything THAT subscriber opened "
                       "is disposed, no step directed at one subscriber disposes a subscription of another that "
                       "is still running, nothing is open at the end, nothing escapes; non-trivial = a subscriber "
                       "ended while another one was running and the oracle held.  `derived` (harness/c02_derived.py, one "
                       "seed per case, TestScheduler, failing cases shrunk and stored verbatim): 1-3 sources (reactivex."
                       "testing hot/cold observables and hand-written probes that keep their observers), main source "
                       "4-10 elements, 25% with a terminal; pipeline shapes: group_by_until(duration = D(group)) followed "
                       "by a flattening consumer (flat_map/switch_map/concat_map/flat_map_latest with mapper D(group), "
                       "merge_all/switch_latest/concat_all), by nothing (the subscriber subscribes all / every other / "
                       "none of the groups and unsubscribes them at its terminal / dispose), or by delay_with_mapper/"
                       "throttle_with_mapper/timeout_with_mapper(D(group)); the same consumers behind group_by/"
                       "window_when/window_toggle/window/window_with_count/group_join (D(window)); value-level join/"
                       "buffer_when/buffer_toggle/*_with_mapper/flat_map/switch_map/concat_map whose callback derives "
                       "from the pipeline's own main source; D = 1-2 of skip(n)/filter/skip_while/debounce/delay/"
                       "ignore_elements/take_last/count/map/distinct_until_changed/pairwise/buffer_with_count/"
                       "element_at_or_default (15%: merged with / cut by another source; 12%: never()/timer, not derived); "
                       "then take(1..4) 25%, first() 10%, take_while 15%, take_until(source) 12%, "
                       "take_until_with_time 8%, else dispose at a random instant; judged: every subscription on a "
                       "source and on a callback-made observable ends, at an instant <= T (terminal or dispose), no "
                       "observer left, nothing subscribed after T, nothing escapes / hangs; `captured` shape (closing "
                       "derived from the ref-counted window the SUBSCRIBER was handed) is run but not judged; "
                       "non-trivial = a derived observable was open when the terminal came from downstream (or at "
                       "dispose) and the oracle held")
    return chk.finish(trusted_extra=["runner assumption: an operator's disposable holds every subscription/timer it "
                                     "opened (Ops/Multi.v) -- this run compares unsubscribe instants operator by "
                                     "operator", "harness/k2m.py, harness/k2.py drivers",
                                     "harness/c02_overlap.py: a probe subscription is attributed to the subscriber "
                                     "the running step is directed at (the one subscribing / disposing / owning the "
                                     "source subscription an event is delivered to)",
                                     "harness/c02_derived.py: reactivex.testing TestScheduler / hot / cold observables "
                                     "(their `subscriptions` lists and `observers`) as the log of the `derived` family"],
                      assumptions=["group/window observables handed to the subscriber (ref-counted release): here only in the "
                                   "`derived` family (subscriber unsubscribes them at its terminal / dispose), "
                                   "otherwise in C18/C19; the timing rules of time-based operators in C15-C17 (their release is "
                                   "checked here too)"])


def replay(chk, path):
    import json
    d = json.load(open(path))
    if c02_derived.is_replay(d):
        return c02_derived.replay_main("C02", path)
    if c02_overlap.is_replay(d):
        return c02_overlap.replay_main("C02", path)
    if relcases.is_replay(d):
        return relcases.replay_main("C02", path)
    if "cases" in d:
        import timed_table as tt
        return tt.replay_cases("C02", lambda name, inst, res: tt.common_timed(res, tt.view(res)), path)
    print(open(path).read())
    return 1
